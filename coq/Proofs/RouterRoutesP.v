(* Router-level consequences: what insert, delete and a conflict say about the set of routes. *)
From Coq Require Import Lia Arith PeanoNat Permutation.
From WF Require Import Base.Bytes Base.Utf8 Spec.Route Spec.Walk Model.Tree Model.Parser Model.Ops Model.Router Spec.Inv.
From WF Require Import Proofs.BytesP Proofs.WalkP Proofs.RefineP Proofs.InvP Proofs.OptimizeP Proofs.OpsLemmasP
     Proofs.InsertP Proofs.DeleteP Proofs.RoutesP Proofs.OptRoutesP Proofs.InsRoutesP Proofs.DelRoutesP
     Proofs.ParserPartsP Proofs.RouterP Proofs.ReachP Proofs.WalkPermP.

Definition exp_route (e : expansion) : route := atoms_of (snd e).

Lemma bytes_eq_dec (a b : bytes) : {a = b} + {a <> b}.
Proof. apply list_eq_dec. apply N.eq_dec. Qed.
Lemma obytes_eq_dec (a b : option bytes) : {a = b} + {a <> b}.
Proof. decide equality. apply bytes_eq_dec. Qed.
Lemma atom_eq_dec (a b : atom) : {a = b} + {a <> b}.
Proof. decide equality; try apply N.eq_dec; try apply bytes_eq_dec; apply obytes_eq_dec. Qed.
Lemma route_eq_dec (a b : route) : {a = b} + {a <> b}.
Proof. apply list_eq_dec. apply atom_eq_dec. Qed.

Lemma RM_unique n r i j : wf n = true -> RM n r i -> RM n r j -> i = j.
Proof. intros Hwf Hi Hj. eapply (NoDup_fst_inj (routes_of n)); [apply routes_nodup; exact Hwf|exact Hi|exact Hj]. Qed.

(* ---- one insertion, in the three forms used below ---- *)
Section OneInsert.
  Variables (root : node) (ps : list part) (d : info).
  Hypothesis Hwf : wf root = true.
  Hypothesis Hdisc : disc root = true.
  Hypothesis Hps : parts_wf false ps = true.
  Let root1 := insert (ops_fuel ps) root ps d.

  Lemma one_insert_wf : wf root1 = true /\ disc root1 = true.
  Proof.
    destruct (proj1 (insert_ok (ops_fuel ps)) root ps d false) as (W1 & D1 & _);
      [unfold ops_fuel; lia|exact Hwf|exact Hdisc|exact Hps|]. auto.
  Qed.

  Lemma one_insert_InsM : InsM (RM root) (RM root1) (atoms_of ps) d.
  Proof. apply (proj1 (insert_routes (ops_fuel ps)) root ps d false); [unfold ops_fuel; lia|exact Hwf|exact Hps]. Qed.

  Lemma one_insert_new r i : RM root1 r i -> RM root r i \/ (r = atoms_of ps /\ i = d).
  Proof.
    intros Hi. destruct one_insert_InsM as (Ia & Ib & _).
    destruct (route_eq_dec r (atoms_of ps)) as [->|Hne]; [|left; apply Ia; auto].
    destruct Ib as [Hb|(_ & o & Ho & Ho')].
    - right. split; [reflexivity|]. apply (RM_unique root1 (atoms_of ps)); [apply one_insert_wf|exact Hi|exact Hb].
    - left. rewrite (RM_unique root1 (atoms_of ps) i o); [exact Ho|apply one_insert_wf|exact Hi|exact Ho'].
  Qed.

  Lemma one_insert_old r i : r <> atoms_of ps -> RM root r i -> RM root1 r i.
  Proof. intros Hne Hi. destruct one_insert_InsM as [Ia _]. apply Ia; auto. Qed.

  Lemma one_insert_present : exists i, RM root1 (atoms_of ps) i.
  Proof. destruct one_insert_InsM as (_ & [Hb|(_ & o & _ & Ho')] & _); eauto. Qed.

  (* exactly which info the inserted route carries afterwards *)
  Definition ins_cur (cur : option info) : option info :=
    match cur with
    | Some o => if ends_in_wild (atoms_of ps) then Some o else Some d
    | None => Some d
    end.

  Lemma one_insert_exact cur :
    (forall o, RM root (atoms_of ps) o <-> cur = Some o) ->
    forall o, RM root1 (atoms_of ps) o <-> ins_cur cur = Some o.
  Proof.
    intros Hcur o. destruct one_insert_InsM as (_ & Ib & Ic). destruct one_insert_wf as [W1 _].
    assert (Hone : forall x, RM root1 (atoms_of ps) x -> (RM root1 (atoms_of ps) o <-> x = o)).
    { intros x Hx. split; [intros Ho; apply (RM_unique root1 (atoms_of ps) x o W1 Hx Ho)|intros <-; exact Hx]. }
    unfold ins_cur. destruct cur as [o0|].
    - pose proof (proj2 (Hcur o0) eq_refl) as H0.
      destruct (ends_in_wild (atoms_of ps)) eqn:Ew.
      + rewrite (Hone o0 (Ic eq_refl o0 H0)). split; congruence.
      + destruct Ib as [Hb|(Hw & _)]; [|congruence]. rewrite (Hone d Hb). split; congruence.
    - destruct Ib as [Hb|(_ & o1 & Ho1 & _)]; [rewrite (Hone d Hb); split; congruence|].
      apply Hcur in Ho1. discriminate.
  Qed.

  Lemma one_insert_monotone r : (exists i, RM root r i) -> exists i, RM root1 r i.
  Proof.
    intros (i & Hi). destruct (route_eq_dec r (atoms_of ps)) as [->|Hne]; [apply one_insert_present|].
    exists i. apply one_insert_old; auto.
  Qed.
End OneInsert.

(* ---- a sequence of insertions ---- *)
Section ManyInserts.
  Variable mk : expansion -> info.
  Definition ins_all (es : list expansion) (root : node) : node :=
    fold_left (fun root (e : expansion) => insert (ops_fuel (snd e)) root (snd e) (mk e)) es root.

  Definition PartsOK (es : list expansion) : Prop := Forall (fun e : expansion => parts_wf false (snd e) = true) es.

  Lemma ins_all_wf : forall es root, PartsOK es -> wf root = true -> disc root = true ->
    wf (ins_all es root) = true /\ disc (ins_all es root) = true.
  Proof.
    induction es as [|e es IH]; intros root Hes Hwf Hd; cbn [ins_all fold_left]; [auto|].
    apply Forall_inv in Hes as He. apply Forall_inv_tail in Hes.
    destruct (one_insert_wf root (snd e) (mk e) Hwf Hd He). apply IH; auto.
  Qed.

  Lemma ins_all_new : forall es root, PartsOK es -> wf root = true -> disc root = true ->
    forall r i, RM (ins_all es root) r i -> RM root r i \/ exists e, In e es /\ r = exp_route e /\ i = mk e.
  Proof.
    induction es as [|e es IH]; intros root Hes Hwf Hd r i Hi; cbn [ins_all fold_left] in *; [auto|].
    apply Forall_inv in Hes as He. apply Forall_inv_tail in Hes.
    destruct (one_insert_wf root (snd e) (mk e) Hwf Hd He) as [W1 D1].
    destruct (IH _ Hes W1 D1 r i Hi) as [H1|(e' & He' & Hr & Hie)].
    - apply (one_insert_new root (snd e) (mk e) Hwf Hd He) in H1 as [H1|[-> ->]]; [left; exact H1|].
      right. exists e. split; [left; reflexivity|auto].
    - right. exists e'. split; [right; exact He'|auto].
  Qed.

  Lemma ins_all_old : forall es root, PartsOK es -> wf root = true -> disc root = true ->
    forall r i, (forall e, In e es -> r <> exp_route e) -> RM root r i -> RM (ins_all es root) r i.
  Proof.
    induction es as [|e es IH]; intros root Hes Hwf Hd r i Hne Hi; cbn [ins_all fold_left]; [exact Hi|].
    apply Forall_inv in Hes as He. apply Forall_inv_tail in Hes.
    destruct (one_insert_wf root (snd e) (mk e) Hwf Hd He) as [W1 D1].
    apply IH; auto.
    - intros e' He'. apply Hne. right; exact He'.
    - apply one_insert_old; auto. apply Hne. left; reflexivity.
  Qed.

  Lemma ins_all_monotone : forall es root, PartsOK es -> wf root = true -> disc root = true ->
    forall r, (exists i, RM root r i) -> exists i, RM (ins_all es root) r i.
  Proof.
    induction es as [|e es IH]; intros root Hes Hwf Hd r Hr; cbn [ins_all fold_left]; [exact Hr|].
    apply Forall_inv in Hes as He. apply Forall_inv_tail in Hes.
    destruct (one_insert_wf root (snd e) (mk e) Hwf Hd He) as [W1 D1].
    apply IH; auto. apply one_insert_monotone; auto.
  Qed.

  Lemma ins_all_present : forall es root, PartsOK es -> wf root = true -> disc root = true ->
    forall e, In e es -> exists i, RM (ins_all es root) (exp_route e) i.
  Proof.
    induction es as [|e0 es IH]; intros root Hes Hwf Hd e Hin; [destruct Hin|]. cbn [ins_all fold_left].
    apply Forall_inv in Hes as He. apply Forall_inv_tail in Hes.
    destruct (one_insert_wf root (snd e0) (mk e0) Hwf Hd He) as [W1 D1].
    destruct Hin as [<-|Hin].
    - apply (ins_all_monotone es _ Hes W1 D1). apply one_insert_present; auto.
    - apply IH; auto.
  Qed.

  (* the info route r0 carries after inserting es in order, when it carried [cur] before: a later expansion
     with the same route overwrites, except that a route ending in a catch-all keeps its first info *)
  Fixpoint fold_info (es : list expansion) (r0 : route) (cur : option info) : option info :=
    match es with
    | [] => cur
    | e :: es' =>
      fold_info es' r0 (if route_eq_dec (exp_route e) r0
                        then match cur with
                             | Some o => if ends_in_wild r0 then Some o else Some (mk e)
                             | None => Some (mk e)
                             end
                        else cur)
    end.

  Lemma ins_all_exact : forall es root r0 cur, PartsOK es -> wf root = true -> disc root = true ->
    (forall o, RM root r0 o <-> cur = Some o) ->
    forall o, RM (ins_all es root) r0 o <-> fold_info es r0 cur = Some o.
  Proof.
    induction es as [|e es IH]; intros root r0 cur Hes Hwf Hd Hcur o; cbn [ins_all fold_left fold_info]; [apply Hcur|].
    apply Forall_inv in Hes as He. apply Forall_inv_tail in Hes.
    destruct (one_insert_wf root (snd e) (mk e) Hwf Hd He) as [W1 D1].
    apply IH; auto. intros o'.
    destruct (route_eq_dec (exp_route e) r0) as [<-|Hne].
    - apply (one_insert_exact root (snd e) (mk e) Hwf Hd He cur Hcur o').
    - rewrite <- Hcur. destruct (one_insert_InsM root (snd e) (mk e) Hwf He) as (Ia & _). apply Ia.
      intros ->. apply Hne. reflexivity.
  Qed.

  Lemma fold_info_some : forall es r0 cur i, fold_info es r0 cur = Some i ->
    cur = Some i \/ exists e, In e es /\ exp_route e = r0 /\ i = mk e.
  Proof.
    induction es as [|e es IH]; intros r0 cur i H; cbn [fold_info] in H; [left; exact H|].
    destruct (IH _ _ _ H) as [Hc|(e' & He' & Hr & Hi)]; [|right; exists e'; split; [right; exact He'|auto]].
    destruct (route_eq_dec (exp_route e) r0) as [Heq|Hne]; [|left; exact Hc].
    destruct cur as [o|].
    - destruct (ends_in_wild r0); [left; exact Hc|]. inversion Hc. right. exists e. split; [left; reflexivity|auto].
    - inversion Hc. right. exists e. split; [left; reflexivity|auto].
  Qed.

  Lemma fold_info_other : forall es r0 cur, (forall e, In e es -> exp_route e <> r0) -> fold_info es r0 cur = cur.
  Proof.
    induction es as [|e es IH]; intros r0 cur H; cbn [fold_info]; [reflexivity|].
    destruct (route_eq_dec (exp_route e) r0) as [Heq|Hne]; [destruct (H e (or_introl eq_refl) Heq)|].
    apply IH. intros e' He'. apply H. right; exact He'.
  Qed.
End ManyInserts.

(* ---- a sequence of deletions ---- *)
Definition del_all (es : list expansion) (acc : node * option N) : node * option N :=
  fold_left (fun (acc : node * option N) (e : expansion) =>
               let '(root', x) := delete (ops_fuel (snd e)) (fst acc) (snd e) in
               (root', match x with Some i => Some (i_data i) | None => snd acc end)) es acc.

Definition PartsNorm (es : list expansion) : Prop := Forall (fun e : expansion => parts_norm (snd e) = true) es.

Section OneDelete.
  Variables (root : node) (ps : list part).
  Hypothesis Hwf : wf root = true.
  Hypothesis Htidy : tidy root = true.
  Hypothesis Hps : parts_wf false ps = true.
  Hypothesis Hnorm : parts_norm ps = true.

  Lemma one_delete_DelM :
    DelM (RM root) (RM (fst (delete (ops_fuel ps) root ps))) (atoms_of ps) (snd (delete (ops_fuel ps) root ps)).
  Proof. apply (proj1 (delete_routes (ops_fuel ps)) root ps false); [unfold ops_fuel; lia|exact Hwf|exact Hps|exact Hnorm]. Qed.

  Lemma one_delete_wf : wf (fst (delete (ops_fuel ps) root ps)) = true /\ tidy (fst (delete (ops_fuel ps) root ps)) = true.
  Proof. apply delete_wf_tidy; assumption. Qed.
End OneDelete.

Lemma del_all_spec : forall es acc,
  PartsOK es -> PartsNorm es -> wf (fst acc) = true -> tidy (fst acc) = true ->
  let acc' := del_all es acc in
  wf (fst acc') = true /\ tidy (fst acc') = true
  /\ (forall r i, RM (fst acc') r i -> RM (fst acc) r i)
  /\ (forall r i, (forall e, In e es -> r <> exp_route e) -> RM (fst acc) r i -> RM (fst acc') r i)
  /\ (forall e i, In e es -> ~ RM (fst acc') (exp_route e) i)
  /\ (forall d, snd acc' = Some d ->
        snd acc = Some d \/ exists e i, In e es /\ RM (fst acc) (exp_route e) i /\ i_data i = d)
  /\ ((exists e i, In e es /\ RM (fst acc) (exp_route e) i) -> exists d, snd acc' = Some d).
Proof.
  induction es as [|e es IH]; intros acc Hok Hnorm Hwf Ht; cbn [del_all fold_left].
  - repeat split; auto. intros (e & i & [] & _).
  - apply Forall_inv in Hok as He. apply Forall_inv_tail in Hok.
    apply Forall_inv in Hnorm as Hne. apply Forall_inv_tail in Hnorm.
    pose proof (one_delete_DelM (fst acc) (snd e) Hwf He Hne) as (Da & Db & Dc).
    pose proof (one_delete_wf (fst acc) (snd e) Hwf Ht) as [W1 T1].
    destruct (delete (ops_fuel (snd e)) (fst acc) (snd e)) as [root1 x] eqn:Ed. cbn [fst snd] in *.
    set (acc1 := (root1, match x with Some i => Some (i_data i) | None => snd acc end)).
    specialize (IH acc1 Hok Hnorm W1 T1). fold (del_all es acc1) in *. cbv zeta in IH.
    destruct IH as (W' & T' & I1 & I2 & I3 & I4 & I5). cbn [fst snd acc1] in *.
    (* deletion only removes *)
    assert (Hsub : forall r i, RM root1 r i -> RM (fst acc) r i).
    { intros r i Hi. destruct (route_eq_dec r (atoms_of (snd e))) as [->|Hn]; [destruct (Db i Hi)|apply Da; auto]. }
    split; [exact W'|]. split; [exact T'|]. split; [|split; [|split; [|split]]].
    + intros r i Hi. apply Hsub. apply I1. exact Hi.
    + intros r i Hn Hi. apply I2; [intros e' He'; apply Hn; right; exact He'|].
      apply Da; [apply Hn; left; reflexivity|exact Hi].
    + intros e' i [<-|He'] Hi; [|apply (I3 e' i He' Hi)].
      apply (Db i). apply I1. exact Hi.
    + intros d Hd. destruct (I4 d Hd) as [Hacc1|(e' & i & He' & Hi & Hdi)].
      * destruct x as [i0|]; [|left; exact Hacc1]. inversion Hacc1; subst.
        right. exists e, i0. split; [left; reflexivity|]. split; [apply Dc; reflexivity|reflexivity].
      * right. exists e', i. split; [right; exact He'|]. split; [apply Hsub; exact Hi|exact Hdi].
    + intros (e' & i & [<-|He'] & Hi).
      * (* the first deletion hands a value back; later ones can only replace it by another *)
        assert (Hx : x = Some i) by (apply Dc; exact Hi). subst x.
        clear -I5. 
        (* snd acc1 is Some, and del_all never loses a Some *)
        assert (Hkeep : forall es0 acc0 d0, snd acc0 = Some d0 -> exists d, snd (del_all es0 acc0) = Some d).
        { induction es0 as [|e0 es0 IH0]; intros acc0 d0 H0; cbn [del_all fold_left]; [eauto|].
          destruct (delete (ops_fuel (snd e0)) (fst acc0) (snd e0)) as [r0 x0]. fold (del_all es0 (r0, match x0 with Some i1 => Some (i_data i1) | None => snd acc0 end)).
          destruct x0; eapply IH0; cbn [snd]; eauto. }
        apply (Hkeep es acc1 (i_data i)). reflexivity.
      * destruct (route_eq_dec (exp_route e') (atoms_of (snd e))) as [Heq|Hn].
        -- assert (Hx : x = Some i) by (apply Dc; rewrite <- Heq; exact Hi). subst x.
           assert (Hkeep : forall es0 acc0 d0, snd acc0 = Some d0 -> exists d, snd (del_all es0 acc0) = Some d).
           { induction es0 as [|e0 es0 IH0]; intros acc0 d0 H0; cbn [del_all fold_left]; [eauto|].
             destruct (delete (ops_fuel (snd e0)) (fst acc0) (snd e0)) as [r0 x0]. fold (del_all es0 (r0, match x0 with Some i1 => Some (i_data i1) | None => snd acc0 end)).
             destruct x0; eapply IH0; cbn [snd]; eauto. }
           apply (Hkeep es acc1 (i_data i)). reflexivity.
        -- apply I5. exists e', i. split; [exact He'|]. apply Da; auto.
Qed.

(* ---- sorting and de-duplicating keep the members ---- *)
Lemma bins_in x l y : In y (bins x l) <-> y = x \/ In y l.
Proof.
  induction l as [|z l IH]; cbn [bins]; [cbn; intuition|].
  destruct (bcmp x z); cbn [In]; rewrite ?IH; intuition.
Qed.
Lemma bsort_in l y : In y (bsort l) <-> In y l.
Proof. induction l as [|x l IH]; cbn [bsort fold_right]; [reflexivity|]. fold (bsort l). rewrite bins_in, IH. cbn. intuition. Qed.
Lemma dedup_in l y : In y (dedup l) <-> In y l.
Proof.
  induction l as [|x l IH]; [reflexivity|]. cbn [dedup]. destruct l as [|z l]; [reflexivity|].
  destruct (beqb x z) eqn:E.
  - apply beqb_eq in E. subst z. rewrite IH. cbn. intuition.
  - cbn [In]. rewrite IH. reflexivity.
Qed.

(* ---- rinsert ---- *)
Definition mk_info (t : bytes) (shared : bool) (d : N) (e : expansion) : info :=
  Info t (if shared then Some (fst e) else None) (count_slash (fst e)) (N.of_nat (length (fst e))) d.

Lemma rinsert_unfold r t d :
  rinsert r t d =
  match parse t with
  | Panic s => (r, RPanic s)
  | Fuel => (r, RPanic 999)
  | Err e => (r, RErr (IETemplate e))
  | Ret es =>
    match first_some (fun e : expansion =>
            first_some (fun p => match part_constraint p with
                                 | Some c => if registered r c then None else Some c
                                 | None => None end) (rev (snd e))) es with
    | Some c => (r, RErr (IEUnknownConstraint c))
    | None =>
      let conflicts := filter_map (fun e : expansion =>
                         option_map i_template (find_node (ops_fuel (snd e)) (r_root r) (snd e))) es in
      match conflicts with
      | _ :: _ => (r, RErr (IEConflict t (dedup (bsort conflicts))))
      | [] =>
        (Router (optimize (ins_all (mk_info t (match es with _ :: _ :: _ => true | _ => false end) d) es (r_root r)))
                (r_constraints r), ROk tt)
      end
    end
  end.
Proof. reflexivity. Qed.

Lemma find_is_membership r (e : expansion) i :
  RInv r -> parts_wf false (snd e) = true -> parts_norm (snd e) = true ->
  (find_node (ops_fuel (snd e)) (r_root r) (snd e) = Some i <-> RM (r_root r) (exp_route e) i).
Proof.
  intros [Hwf _] Hp Hn. apply (proj1 (find_ok (ops_fuel (snd e))) (r_root r) (snd e) i false);
    [unfold ops_fuel; lia|exact Hwf|exact Hp|exact Hn].
Qed.

(* a successful insert: none of the expansions was present, all of them are afterwards (carrying the
   template and the data), every other route keeps its info *)
Theorem rinsert_ok_routes r t d r' :
  RInv r -> rinsert r t d = (r', ROk tt) ->
  exists es, parse t = Ret es
    /\ (forall e i, In e es -> ~ RM (r_root r) (exp_route e) i)
    /\ (forall e, In e es -> exists i, RM (r_root r') (exp_route e) i /\ i_template i = t /\ i_data i = d)
    /\ (forall r0 i, (forall e, In e es -> r0 <> exp_route e) -> (RM (r_root r') r0 i <-> RM (r_root r) r0 i))
    /\ (forall r0 i, RM (r_root r') r0 i -> RM (r_root r) r0 i \/ (i_template i = t /\ i_data i = d)).
Proof.
  intros HR H. rewrite rinsert_unfold in H. destruct HR as [Hwf Ht].
  destruct (parse t) as [es|te|s|] eqn:Ep; try (inversion H; fail).
  destruct (first_some _ es); [inversion H|]. cbv zeta in H.
  destruct (filter_map _ es) as [|c0 cl] eqn:Ec; [|inversion H].
  inversion H; subst. clear H. cbn [r_root].
  pose proof (parse_parts_wf t es Ep) as Hok. pose proof (parse_parts_norm t es Ep) as Hnorm.
  set (mk := mk_info t (match es with _ :: _ :: _ => true | _ => false end) d).
  pose proof (tidy_disc _ Ht) as Hd.
  exists es. split; [reflexivity|].
  assert (Hfree : forall e i, In e es -> ~ RM (r_root r) (exp_route e) i).
  { intros e i He Hi. rewrite Forall_forall in Hok, Hnorm.
    apply (find_is_membership r e i (conj Hwf Ht) (Hok e He) (Hnorm e He)) in Hi.
    assert (Hin : In (i_template i) (filter_map (fun e0 : expansion => option_map i_template (find_node (ops_fuel (snd e0)) (r_root r) (snd e0))) es)).
    { apply filter_map_in. exists e. split; [exact He|]. rewrite Hi. reflexivity. }
    rewrite Ec in Hin. destruct Hin. }
  split; [exact Hfree|].
  assert (HRM : forall r0 i, RM (optimize (ins_all mk es (r_root r))) r0 i <-> RM (ins_all mk es (r_root r)) r0 i)
    by (intros r0 i; apply optimize_routes).
  split; [|split].
  - intros e He. destruct (ins_all_present mk es (r_root r) Hok Hwf Hd e He) as (i & Hi).
    exists i. split; [apply HRM; exact Hi|].
    destruct (ins_all_new mk es (r_root r) Hok Hwf Hd _ _ Hi) as [Hold|(e' & _ & _ & ->)]; [destruct (Hfree e i He Hold)|].
    split; reflexivity.
  - intros r0 i Hne. rewrite HRM. split.
    + intros Hi. destruct (ins_all_new mk es (r_root r) Hok Hwf Hd _ _ Hi) as [Hold|(e' & He' & Hr & _)]; [exact Hold|].
      destruct (Hne e' He' Hr).
    + apply ins_all_old; auto.
  - intros r0 i Hi. apply HRM in Hi.
    destruct (ins_all_new mk es (r_root r) Hok Hwf Hd _ _ Hi) as [Hold|(e' & _ & _ & ->)]; [left; exact Hold|right; split; reflexivity].
Qed.

(* a conflict lists exactly the templates that own a route of the candidate *)
Theorem rinsert_conflict_spec r t d r' t' cs :
  RInv r -> rinsert r t d = (r', RErr (IEConflict t' cs)) ->
  exists es, parse t = Ret es
    /\ forall c, In c cs <-> exists e i, In e es /\ RM (r_root r) (exp_route e) i /\ i_template i = c.
Proof.
  intros HR H. pose proof (rinsert_conflict_template _ _ _ _ _ _ H) as ->. rewrite rinsert_unfold in H.
  destruct (parse t) as [es|te|s|] eqn:Ep; try (inversion H; fail).
  destruct (first_some _ es); [inversion H|]. cbv zeta in H.
  destruct (filter_map _ es) as [|c0 cl] eqn:Ec; inversion H; subst. clear H.
  pose proof (parse_parts_wf t es Ep) as Hok. pose proof (parse_parts_norm t es Ep) as Hnorm.
  rewrite Forall_forall in Hok, Hnorm.
  exists es. split; [reflexivity|]. intros c. rewrite dedup_in. change (bins c0 (bsort cl)) with (bsort (c0 :: cl)). rewrite bsort_in, <- Ec, filter_map_in. split.
  - intros (e & He & Hf). destruct (find_node (ops_fuel (snd e)) (r_root r') (snd e)) as [i|] eqn:Ef; [|discriminate].
    inversion Hf; subst. exists e, i. repeat split; auto.
    apply (find_is_membership r' e i HR (Hok e He) (Hnorm e He)). exact Ef.
  - intros (e & i & He & Hi & <-). exists e. split; [exact He|].
    apply (find_is_membership r' e i HR (Hok e He) (Hnorm e He)) in Hi. rewrite Hi. reflexivity.
Qed.

(* ---- rdelete ---- *)
Lemma rdelete_unfold r t :
  rdelete r t =
  match parse t with
  | Panic s => (r, RPanic s)
  | Fuel => (r, RPanic 999)
  | Err e => (r, RErr (DETemplate e))
  | Ret es =>
    match first_some (fun e : expansion =>
            match find_node (ops_fuel (snd e)) (r_root r) (snd e) with
            | Some found => if beqb (i_template found) t then None else Some (i_template found)
            | None => None end) es with
    | Some inserted => (r, RErr (DEMismatch t inserted))
    | None =>
      if existsb (fun e : expansion =>
           match find_node (ops_fuel (snd e)) (r_root r) (snd e) with Some _ => false | None => true end) es
      then (r, RErr (DENotFound t))
      else
        match snd (del_all es (r_root r, None)) with
        | Some d => (Router (optimize (fst (del_all es (r_root r, None)))) (r_constraints r), ROk d)
        | None => (Router (fst (del_all es (r_root r, None))) (r_constraints r), RErr (DENotFound t))
        end
    end
  end.
Proof.
  unfold rdelete, del_all. destruct (parse t) as [es| | |]; try reflexivity.
  destruct (first_some _ es); [reflexivity|]. destruct (existsb _ es); [reflexivity|].
  destruct (fold_left _ es (r_root r, None)) as [root [d|]]; reflexivity.
Qed.

(* what the two validation passes of delete establish *)
Lemma rdelete_validated r t es :
  RInv r -> parse t = Ret es ->
  first_some (fun e : expansion =>
     match find_node (ops_fuel (snd e)) (r_root r) (snd e) with
     | Some found => if beqb (i_template found) t then None else Some (i_template found)
     | None => None end) es = None ->
  existsb (fun e : expansion =>
     match find_node (ops_fuel (snd e)) (r_root r) (snd e) with Some _ => false | None => true end) es = false ->
  forall e, In e es -> exists i, RM (r_root r) (exp_route e) i /\ i_template i = t.
Proof.
  intros HR Ep Hm Hx e He.
  pose proof (parse_parts_wf t es Ep) as Hok. pose proof (parse_parts_norm t es Ep) as Hnorm.
  rewrite Forall_forall in Hok, Hnorm.
  destruct (find_node (ops_fuel (snd e)) (r_root r) (snd e)) as [i|] eqn:Ef.
  - exists i. split; [apply (find_is_membership r e i HR (Hok e He) (Hnorm e He)); exact Ef|].
    pose proof (proj1 (first_some_none _ _) Hm e He) as Hn. cbv beta in Hn. rewrite Ef in Hn.
    destruct (beqb (i_template i) t) eqn:Eb; [apply beqb_eq; exact Eb|discriminate].
  - assert (Hex : existsb (fun e : expansion =>
       match find_node (ops_fuel (snd e)) (r_root r) (snd e) with Some _ => false | None => true end) es = true).
    { apply existsb_exists. exists e. split; [exact He|]. rewrite Ef. reflexivity. }
    rewrite Hx in Hex. discriminate.
Qed.

(* a successful delete: every expansion was stored under this very template; all are gone afterwards;
   nothing else changed; the returned value is the data of one of them *)
Theorem rdelete_ok_routes r t d r' :
  RInv r -> rdelete r t = (r', ROk d) ->
  exists es, parse t = Ret es
    /\ (forall e, In e es -> exists i, RM (r_root r) (exp_route e) i /\ i_template i = t)
    /\ (forall e i, In e es -> ~ RM (r_root r') (exp_route e) i)
    /\ (forall r0 i, (forall e, In e es -> r0 <> exp_route e) -> (RM (r_root r') r0 i <-> RM (r_root r) r0 i))
    /\ (forall r0 i, RM (r_root r') r0 i -> RM (r_root r) r0 i)
    /\ (exists e i, In e es /\ RM (r_root r) (exp_route e) i /\ i_data i = d).
Proof.
  intros HR H. rewrite rdelete_unfold in H.
  destruct (parse t) as [es|te|s|] eqn:Ep; try (inversion H; fail).
  destruct (first_some _ es) eqn:Em; [inversion H|].
  destruct (existsb _ es) eqn:Ex; [inversion H|].
  pose proof (parse_parts_wf t es Ep) as Hok. pose proof (parse_parts_norm t es Ep) as Hnorm.
  destruct HR as [Hwf Ht].
  pose proof (del_all_spec es (r_root r, None) Hok Hnorm Hwf Ht) as (W' & T' & I1 & I2 & I3 & I4 & I5).
  cbn [fst snd] in *.
  destruct (snd (del_all es (r_root r, None))) as [d0|] eqn:Eo; inversion H; subst. clear H. cbn [r_root].
  assert (HRM : forall r0 i, RM (optimize (fst (del_all es (r_root r, None)))) r0 i <-> RM (fst (del_all es (r_root r, None))) r0 i)
    by (intros r0 i; apply optimize_routes).
  exists es. split; [reflexivity|].
  split; [apply (rdelete_validated r t es (conj Hwf Ht) Ep Em Ex)|].
  split; [intros e i He Hi; apply HRM in Hi; apply (I3 e i He Hi)|].
  split; [intros r0 i Hn; rewrite HRM; split; [apply I1|apply I2; exact Hn]|].
  split; [intros r0 i Hi; apply HRM in Hi; apply I1; exact Hi|].
  destruct (I4 d eq_refl) as [Hx|Hx]; [discriminate|exact Hx].
Qed.

(* an erroring delete leaves the router exactly as it was, whenever the template has an expansion *)
Theorem rdelete_error_noop_strong r t r' e :
  RInv r -> rdelete r t = (r', RErr e) -> r' = r.
Proof.
  intros HR H. rewrite rdelete_unfold in H.
  destruct (parse t) as [es|te|s|] eqn:Ep; try (inversion H; reflexivity).
  destruct (first_some _ es) eqn:Em; [inversion H; reflexivity|].
  destruct (existsb _ es) eqn:Ex; [inversion H; reflexivity|].
  pose proof (parse_parts_wf t es Ep) as Hok. pose proof (parse_parts_norm t es Ep) as Hnorm.
  pose proof (rdelete_validated r t es HR Ep Em Ex) as Hall.
  destruct HR as [Hwf Ht].
  pose proof (del_all_spec es (r_root r, None) Hok Hnorm Hwf Ht) as (_ & _ & _ & _ & _ & _ & I5).
  cbn [fst snd] in *.
  destruct (snd (del_all es (r_root r, None))) as [d0|] eqn:Eo; [inversion H|].
  destruct es as [|e0 es].
  - inversion H. destruct r; reflexivity.
  - destruct (Hall e0 (or_introl eq_refl)) as (i & Hi & _).
    destruct I5 as (d & Hd); [exists e0, i; split; [left; reflexivity|exact Hi]|]. try rewrite Eo in Hd; discriminate.
Qed.

Theorem rdelete_mismatch_spec r t r' t' ins :
  RInv r -> rdelete r t = (r', RErr (DEMismatch t' ins)) ->
  ins <> t /\ exists es e i, parse t = Ret es /\ In e es /\ RM (r_root r) (exp_route e) i /\ i_template i = ins.
Proof.
  intros HR H. rewrite rdelete_unfold in H.
  destruct (parse t) as [es|te|s|] eqn:Ep; try (inversion H; fail).
  pose proof (parse_parts_wf t es Ep) as Hok. pose proof (parse_parts_norm t es Ep) as Hnorm.
  rewrite Forall_forall in Hok, Hnorm.
  destruct (first_some _ es) eqn:Em.
  - inversion H; subst. apply first_some_some in Em as (e & He & Hf).
    destruct (find_node (ops_fuel (snd e)) (r_root r') (snd e)) as [i|] eqn:Ef; [|discriminate].
    destruct (beqb (i_template i) t') eqn:Eb; [discriminate|]. inversion Hf; subst.
    split; [intros Heq; rewrite Heq, beqb_refl in Eb; discriminate|].
    exists es, e, i. repeat split; auto. apply (find_is_membership r' e i HR (Hok e He) (Hnorm e He)). exact Ef.
  - destruct (existsb _ es); [inversion H|]. destruct (snd (del_all es (r_root r, None))); inversion H.
Qed.

Theorem rdelete_notfound_spec r t r' t' :
  RInv r -> rdelete r t = (r', RErr (DENotFound t')) ->
  exists es, parse t = Ret es /\ (es = [] \/ exists e, In e es /\ forall i, ~ RM (r_root r) (exp_route e) i).
Proof.
  intros HR H. pose proof (rdelete_error_noop_strong _ _ _ _ HR H) as ->. rewrite rdelete_unfold in H.
  destruct (parse t) as [es|te|s|] eqn:Ep; try (inversion H; fail).
  pose proof (parse_parts_wf t es Ep) as Hok. pose proof (parse_parts_norm t es Ep) as Hnorm.
  rewrite Forall_forall in Hok, Hnorm.
  exists es. split; [reflexivity|].
  destruct (first_some _ es) eqn:Em; [inversion H|].
  destruct (existsb _ es) eqn:Ex.
  - right. apply existsb_exists in Ex as (e & He & Hf). exists e. split; [exact He|]. intros i Hi.
    apply (find_is_membership r e i HR (Hok e He) (Hnorm e He)) in Hi. rewrite Hi in Hf. discriminate.
  - pose proof (rdelete_validated r t es HR Ep Em Ex) as Hall. destruct HR as [Hwf Ht].
    pose proof (del_all_spec es (r_root r, None) (parse_parts_wf t es Ep) (parse_parts_norm t es Ep) Hwf Ht) as (_ & _ & _ & _ & _ & _ & I5).
    cbn [fst snd] in *. destruct (snd (del_all es (r_root r, None))) as [d0|] eqn:Eo; [inversion H|].
    destruct es as [|e0 es]; [left; reflexivity|].
    destruct (Hall e0 (or_introl eq_refl)) as (i & Hi & _).
    destruct I5 as (d & Hd); [exists e0, i; split; [left; reflexivity|exact Hi]|]. discriminate.
Qed.

(* ---- from route sets to searches ---- *)
From WF Require Import Proofs.WalkPermP Proofs.WalkNonintP Proofs.TreeCorP Proofs.FitsP Proofs.WalkCompleteP.

Lemma NoDup_of_fst {A B} (l : list (A * B)) : NoDup (map fst l) -> NoDup l.
Proof. apply NoDup_map_inv. Qed.

Lemma same_RM_perm n1 n2 :
  wf n1 = true -> wf n2 = true -> (forall r i, RM n1 r i <-> RM n2 r i) -> Permutation (routes_of n1) (routes_of n2).
Proof.
  intros W1 W2 H. apply NoDup_Permutation; [apply NoDup_of_fst, routes_nodup, W1|apply NoDup_of_fst, routes_nodup, W2|].
  intros [r i]. apply H.
Qed.

Theorem same_RM_search chk r1 r2 p :
  RInv r1 -> RInv r2 -> (forall r i, RM (r_root r1) r i <-> RM (r_root r2) r i) ->
  rsearch chk r1 p = rsearch chk r2 p.
Proof.
  intros [W1 T1] [W2 T2] H. unfold rsearch.
  apply search_same_routes; [apply wf_tidy_inv; assumption|apply wf_tidy_inv; assumption| |apply routes_nodup; exact W1].
  apply same_RM_perm; assumption.
Qed.

Lemma filter_split_perm {A} (f : A -> bool) l : Permutation l (filter f l ++ filter (fun x => negb (f x)) l).
Proof.
  induction l as [|x l IH]; [constructor|]. cbn [filter]. destruct (f x); cbn [negb app].
  - constructor. exact IH.
  - apply Permutation_cons_app. exact IH.
Qed.

Definition is_exp (es : list expansion) (x : route * info) : bool :=
  existsb (fun e : expansion => if route_eq_dec (fst x) (exp_route e) then true else false) es.

Lemma is_exp_true es x : is_exp es x = true <-> exists e, In e es /\ fst x = exp_route e.
Proof.
  unfold is_exp. rewrite existsb_exists. split; intros (e & He & H); exists e; (split; [exact He|]).
  - destruct (route_eq_dec (fst x) (exp_route e)); [assumption|discriminate].
  - destruct (route_eq_dec (fst x) (exp_route e)); [reflexivity|contradiction].
Qed.
Lemma is_exp_false es x : is_exp es x = false <-> forall e, In e es -> fst x <> exp_route e.
Proof.
  split.
  - intros H e He Heq. assert (is_exp es x = true) by (apply is_exp_true; eauto). congruence.
  - intros H. destruct (is_exp es x) eqn:E; [|reflexivity]. apply is_exp_true in E as (e & He & Heq). destruct (H e He Heq).
Qed.

(* big = the routes of [es] that are in big, followed by small, up to order; when small and big agree away from es
   and small holds no route of es *)
Lemma split_off_perm es nbig nsmall :
  wf nbig = true -> wf nsmall = true ->
  (forall r0 i, (forall e, In e es -> r0 <> exp_route e) -> (RM nbig r0 i <-> RM nsmall r0 i)) ->
  (forall e i, In e es -> ~ RM nsmall (exp_route e) i) ->
  Permutation (routes_of nbig) (filter (is_exp es) (routes_of nbig) ++ routes_of nsmall).
Proof.
  intros Wb Ws Hsame Hfree.
  eapply Permutation_trans; [apply (filter_split_perm (is_exp es))|]. apply Permutation_app_head.
  apply NoDup_Permutation; [apply NoDup_filter, NoDup_of_fst, routes_nodup, Wb|apply NoDup_of_fst, routes_nodup, Ws|].
  intros [r0 i]. rewrite filter_In. split.
  - intros [Hin Hf]. apply Bool.negb_true_iff in Hf. rewrite is_exp_false in Hf. cbn [fst] in Hf.
    apply (Hsame r0 i Hf). exact Hin.
  - intros Hin. assert (Hf : forall e, In e es -> r0 <> exp_route e).
    { intros e He ->. apply (Hfree e i He Hin). }
    split; [apply (Hsame r0 i Hf); exact Hin|]. apply Bool.negb_true_iff. apply is_exp_false. exact Hf.
Qed.

(* C06 at operation level: an insert is invisible to every path that none of its expansions fits *)
Theorem rinsert_noninterference chk r t d r' p :
  RInv r -> rinsert r t d = (r', ROk tt) ->
  (forall es e vs, parse t = Ret es -> In e es -> ~ fits chk (exp_route e) p vs) ->
  rsearch chk r' p = rsearch chk r p.
Proof.
  intros HR H Hnf. pose proof (rinsert_inv r t d HR) as HR'. rewrite H in HR'. cbn [fst] in HR'.
  destruct (rinsert_ok_routes r t d r' HR H) as (es & Ep & Hfree & _ & Hother & _).
  destruct HR as [W T]. destruct HR' as [W' T']. unfold rsearch.
  apply (search_noninterference chk (r_root r) (r_root r') (filter (is_exp es) (routes_of (r_root r')))).
  - apply wf_tidy_inv; assumption.
  - apply wf_tidy_inv; assumption.
  - apply split_off_perm; assumption.
  - apply routes_nodup; exact W'.
  - intros r0 i vs Hin Hf. apply filter_In in Hin as [_ Hx]. apply is_exp_true in Hx as (e & He & Heq). cbn [fst] in Heq. subst r0.
    apply (Hnf es e vs Ep He Hf).
Qed.

(* ... and so is a delete *)
Theorem rdelete_noninterference chk r t d r' p :
  RInv r -> rdelete r t = (r', ROk d) ->
  (forall es e vs, parse t = Ret es -> In e es -> ~ fits chk (exp_route e) p vs) ->
  rsearch chk r' p = rsearch chk r p.
Proof.
  intros HR H Hnf. pose proof (rdelete_inv r t HR) as HR'. rewrite H in HR'. cbn [fst] in HR'.
  destruct (rdelete_ok_routes r t d r' HR H) as (es & Ep & _ & Hgone & Hother & _).
  destruct HR as [W T]. destruct HR' as [W' T']. unfold rsearch. symmetry.
  apply (search_noninterference chk (r_root r') (r_root r) (filter (is_exp es) (routes_of (r_root r)))).
  - apply wf_tidy_inv; assumption.
  - apply wf_tidy_inv; assumption.
  - apply split_off_perm; try assumption. intros r0 i Hn. symmetry. apply Hother. exact Hn.
  - apply routes_nodup; exact W.
  - intros r0 i vs Hin Hf. apply filter_In in Hin as [_ Hx]. apply is_exp_true in Hx as (e & He & Heq). cbn [fst] in Heq. subst r0.
    apply (Hnf es e vs Ep He Hf).
Qed.

(* C10 second half: insert then delete gives back the route set, hence every search result *)
Theorem insert_delete_roundtrip r t d r1 r2 d' :
  RInv r -> rinsert r t d = (r1, ROk tt) -> rdelete r1 t = (r2, ROk d') ->
  d' = d /\ r_constraints r2 = r_constraints r
  /\ (forall r0 i, RM (r_root r2) r0 i <-> RM (r_root r) r0 i)
  /\ (forall chk p, rsearch chk r2 p = rsearch chk r p).
Proof.
  intros HR Hi Hd.
  pose proof (rinsert_inv r t d HR) as HR1. rewrite Hi in HR1. cbn [fst] in HR1.
  pose proof (rdelete_inv r1 t HR1) as HR2. rewrite Hd in HR2. cbn [fst] in HR2.
  destruct (rinsert_ok_routes r t d r1 HR Hi) as (es & Ep & Hfree & Hnew & Hother & Hprov).
  destruct (rdelete_ok_routes r1 t d' r2 HR1 Hd) as (es' & Ep' & _ & Hgone & Hother' & _ & (e & i & He & Hi' & Hdi)).
  rewrite Ep in Ep'. inversion Ep'; subst es'. clear Ep'.
  assert (Hsame : forall r0 i0, RM (r_root r2) r0 i0 <-> RM (r_root r) r0 i0).
  { intros r0 i0. destruct (is_exp es (r0, i0)) eqn:Ex.
    - apply is_exp_true in Ex as (e0 & He0 & Heq). cbn [fst] in Heq. subst r0. split; intros Hx.
      + destruct (Hgone e0 i0 He0 Hx).
      + destruct (Hfree e0 i0 He0 Hx).
    - rewrite is_exp_false in Ex. cbn [fst] in Ex. rewrite (Hother' r0 i0 Ex). apply Hother. exact Ex. }
  split; [|split; [|split; [exact Hsame|]]].
  - destruct (Hnew e He) as (j & Hj & _ & Hjd). destruct HR1 as [W1 _].
    rewrite <- (RM_unique _ _ _ _ W1 Hi' Hj) in Hjd. congruence.
  - rewrite rinsert_unfold in Hi. rewrite Ep in Hi. destruct (first_some _ es); [inversion Hi|]. cbv zeta in Hi.
    destruct (filter_map _ es); inversion Hi; subst. clear Hi.
    rewrite rdelete_unfold in Hd. rewrite Ep in Hd. destruct (first_some _ es); [inversion Hd|].
    destruct (existsb _ es); [inversion Hd|]. destruct (snd (del_all _ _)); inversion Hd. reflexivity.
  - intros chk p. apply same_RM_search; assumption.
Qed.

(* the delete after a successful insert cannot be refused, as long as the template has an expansion at all *)
Theorem insert_then_delete_succeeds r t d r1 :
  RInv r -> rinsert r t d = (r1, ROk tt) -> (forall es, parse t = Ret es -> es <> []) ->
  exists r2, rdelete r1 t = (r2, ROk d).
Proof.
  intros HR Hi Hne.
  pose proof (rinsert_inv r t d HR) as HR1. rewrite Hi in HR1. cbn [fst] in HR1.
  destruct (rinsert_ok_routes r t d r1 HR Hi) as (es & Ep & Hfree & Hnew & Hother & Hprov).
  destruct (rdelete r1 t) as [r2 [d'| e | s]] eqn:Hd.
  - destruct (insert_delete_roundtrip r t d r1 r2 d' HR Hi Hd) as (-> & _). eauto.
  - exfalso. pose proof (parse_parts_wf t es Ep) as Hok. pose proof (parse_parts_norm t es Ep) as Hnorm.
    rewrite Forall_forall in Hok, Hnorm.
    destruct e as [te|t'|t' ins].
    + rewrite rdelete_unfold, Ep in Hd. destruct (first_some _ es); [inversion Hd|]. destruct (existsb _ es); [inversion Hd|].
      destruct (snd (del_all _ _)); inversion Hd.
    + destruct (rdelete_notfound_spec r1 t r2 t' HR1 Hd) as (es' & Ep' & [Hnil|(e & He & Hno)]).
      * subst es'. apply (Hne [] Ep'). reflexivity.
      * rewrite Ep in Ep'. inversion Ep'; subst es'. destruct (Hnew e He) as (j & Hj & _). apply (Hno j Hj).
    + destruct (rdelete_mismatch_spec r1 t r2 t' ins HR1 Hd) as (Hneq & es' & e & i & Ep' & He & Hi' & Hit).
      rewrite Ep in Ep'. inversion Ep'; subst es'. destruct (Hnew e He) as (j & Hj & Hjt & _). destruct HR1 as [W1 _].
      rewrite <- (RM_unique _ _ _ _ W1 Hi' Hj) in Hjt. congruence.
  - exfalso. rewrite rdelete_unfold, Ep in Hd. destruct (first_some _ es); [inversion Hd|]. destruct (existsb _ es); [inversion Hd|].
    destruct (snd (del_all _ _)); inversion Hd.
Qed.

From WF Require Import Proofs.ExpandP.

Corollary insert_then_delete r t d r1 :
  RInv r -> rinsert r t d = (r1, ROk tt) -> exists r2, rdelete r1 t = (r2, ROk d).
Proof. intros HR Hi. apply (insert_then_delete_succeeds r t d r1 HR Hi). intros es Ep. apply (parse_nonempty t es Ep). Qed.

(* which outcome an insert has, once the template parses and its constraints are known *)
Definition unknown_constraint (r : router) (es : list expansion) : option bytes :=
  first_some (fun e : expansion =>
     first_some (fun p => match part_constraint p with
                          | Some c => if registered r c then None else Some c
                          | None => None end) (rev (snd e))) es.

Theorem rinsert_outcome r t d es :
  RInv r -> parse t = Ret es -> unknown_constraint r es = None ->
  ((exists e i, In e es /\ RM (r_root r) (exp_route e) i) -> exists cs, rinsert r t d = (r, RErr (IEConflict t cs)))
  /\ ((forall e i, In e es -> ~ RM (r_root r) (exp_route e) i) -> exists r', rinsert r t d = (r', ROk tt)).
Proof.
  intros HR Ep Hu. rewrite rinsert_unfold, Ep. unfold unknown_constraint in Hu. rewrite Hu. cbv zeta.
  pose proof (parse_parts_wf t es Ep) as Hok. pose proof (parse_parts_norm t es Ep) as Hnorm.
  rewrite Forall_forall in Hok, Hnorm.
  destruct (filter_map _ es) as [|c0 cl] eqn:Ec; split.
  - intros (e & i & He & Hi). exfalso.
    apply (find_is_membership r e i HR (Hok e He) (Hnorm e He)) in Hi.
    assert (Hin : In (i_template i) (filter_map (fun e0 : expansion => option_map i_template (find_node (ops_fuel (snd e0)) (r_root r) (snd e0))) es)).
    { apply filter_map_in. exists e. split; [exact He|]. rewrite Hi. reflexivity. }
    rewrite Ec in Hin. destruct Hin.
  - intros _. eauto.
  - intros _. eauto.
  - intros Hfree. exfalso.
    assert (Hin : In c0 (filter_map (fun e0 : expansion => option_map i_template (find_node (ops_fuel (snd e0)) (r_root r) (snd e0))) es))
      by (rewrite Ec; left; reflexivity).
    apply filter_map_in in Hin as (e & He & Hf).
    destruct (find_node (ops_fuel (snd e)) (r_root r) (snd e)) as [i|] eqn:Ef; [|discriminate].
    apply (find_is_membership r e i HR (Hok e He) (Hnorm e He)) in Ef. apply (Hfree e i He Ef).
Qed.

(* which outcome a delete has *)
Theorem rdelete_outcome r t es :
  RInv r -> parse t = Ret es ->
  ((forall e, In e es -> exists i, RM (r_root r) (exp_route e) i /\ i_template i = t) ->
      exists r' d, rdelete r t = (r', ROk d))
  /\ ((exists e i, In e es /\ RM (r_root r) (exp_route e) i /\ i_template i <> t) ->
      exists ins, rdelete r t = (r, RErr (DEMismatch t ins)))
  /\ ((forall e i, In e es -> RM (r_root r) (exp_route e) i -> i_template i = t) ->
      (exists e, In e es /\ forall i, ~ RM (r_root r) (exp_route e) i) ->
      rdelete r t = (r, RErr (DENotFound t))).
Proof.
  intros HR Ep.
  pose proof (parse_parts_wf t es Ep) as Hok. pose proof (parse_parts_norm t es Ep) as Hnorm.
  rewrite Forall_forall in Hok, Hnorm.
  assert (Hmis : forall x, first_some (fun e : expansion =>
            match find_node (ops_fuel (snd e)) (r_root r) (snd e) with
            | Some found => if beqb (i_template found) t then None else Some (i_template found)
            | None => None end) es = Some x ->
            exists e i, In e es /\ RM (r_root r) (exp_route e) i /\ i_template i <> t).
  { intros x Hx. apply first_some_some in Hx as (e & He & Hf).
    destruct (find_node (ops_fuel (snd e)) (r_root r) (snd e)) as [i|] eqn:Ef; [|discriminate].
    destruct (beqb (i_template i) t) eqn:Eb; [discriminate|].
    exists e, i. split; [exact He|]. split; [apply (find_is_membership r e i HR (Hok e He) (Hnorm e He)); exact Ef|].
    intros Heq. rewrite Heq, beqb_refl in Eb. discriminate. }
  assert (Hnf : existsb (fun e : expansion =>
           match find_node (ops_fuel (snd e)) (r_root r) (snd e) with Some _ => false | None => true end) es = true ->
           exists e, In e es /\ forall i, ~ RM (r_root r) (exp_route e) i).
  { intros Hx. apply existsb_exists in Hx as (e & He & Hf). exists e. split; [exact He|]. intros i Hi.
    apply (find_is_membership r e i HR (Hok e He) (Hnorm e He)) in Hi. rewrite Hi in Hf. discriminate. }
  split; [|split].
  - intros Hall. destruct (rdelete r t) as [r' [d|e|s]] eqn:Hd; [eauto| |].
    + exfalso. destruct e as [te|t'|t' ins].
      * rewrite rdelete_unfold, Ep in Hd. destruct (first_some _ es); [inversion Hd|]. destruct (existsb _ es); [inversion Hd|].
        destruct (snd (del_all _ _)); inversion Hd.
      * destruct (rdelete_notfound_spec r t r' t' HR Hd) as (es' & Ep' & [Hnil|(e & He & Hno)]).
        -- subst es'. apply (parse_nonempty t [] Ep'). reflexivity.
        -- rewrite Ep in Ep'. inversion Ep'; subst es'. destruct (Hall e He) as (j & Hj & _). apply (Hno j Hj).
      * destruct (rdelete_mismatch_spec r t r' t' ins HR Hd) as (Hneq & es' & e & i & Ep' & He & Hi' & Hit).
        rewrite Ep in Ep'. inversion Ep'; subst es'. destruct (Hall e He) as (j & Hj & Hjt). destruct HR as [W1 _].
        rewrite <- (RM_unique _ _ _ _ W1 Hi' Hj) in Hjt. congruence.
    + exfalso. rewrite rdelete_unfold, Ep in Hd. destruct (first_some _ es); [inversion Hd|]. destruct (existsb _ es); [inversion Hd|].
      destruct (snd (del_all _ _)); inversion Hd.
  - intros (e & i & He & Hi & Hne). rewrite rdelete_unfold, Ep.
    destruct (first_some _ es) as [x|] eqn:Em; [eauto|]. exfalso.
    pose proof (proj1 (first_some_none _ _) Em e He) as Hn. cbv beta in Hn.
    apply (find_is_membership r e i HR (Hok e He) (Hnorm e He)) in Hi. rewrite Hi in Hn.
    destruct (beqb (i_template i) t) eqn:Eb; [apply beqb_eq in Eb; contradiction|discriminate].
  - intros Hown Habs. rewrite rdelete_unfold, Ep.
    destruct (first_some _ es) as [x|] eqn:Em.
    { exfalso. destruct (Hmis x eq_refl) as (e & i & He & Hi & Hne). apply Hne. apply (Hown e i He Hi). }
    destruct (existsb _ es) eqn:Ex; [reflexivity|]. exfalso.
    destruct Habs as (e & He & Hno).
    destruct (rdelete_validated r t es HR Ep Em Ex e He) as (i & Hi & _). apply (Hno i Hi).
Qed.

(* ---- exactly which infos an accepted template stores ---- *)
Definition tinfo (t : bytes) (d : N) (es : list expansion) (r0 : route) : option info :=
  fold_info (mk_info t (match es with _ :: _ :: _ => true | _ => false end) d) es r0 None.

Lemma tinfo_some t d es r0 i : tinfo t d es r0 = Some i ->
  exists e, In e es /\ exp_route e = r0 /\ i_template i = t /\ i_data i = d.
Proof.
  intros H. apply fold_info_some in H as [H|(e & He & Hr & ->)]; [discriminate|]. exists e. repeat split; auto.
Qed.

Theorem rinsert_ok_exact r t d r' :
  RInv r -> rinsert r t d = (r', ROk tt) ->
  exists es, parse t = Ret es
    /\ forall r0 i, RM (r_root r') r0 i <-> (RM (r_root r) r0 i \/ tinfo t d es r0 = Some i).
Proof.
  intros HR H. destruct (rinsert_ok_routes r t d r' HR H) as (es & Ep & Hfree & _ & Hother & _).
  exists es. split; [exact Ep|].
  rewrite rinsert_unfold, Ep in H. destruct (first_some _ es); [inversion H|]. cbv zeta in H.
  destruct (filter_map _ es); inversion H; subst. clear H. cbn [r_root] in *.
  destruct HR as [Hwf Ht]. pose proof (tidy_disc _ Ht) as Hd.
  pose proof (parse_parts_wf t es Ep) as Hok.
  set (mk := mk_info t (match es with _ :: _ :: _ => true | _ => false end) d) in *.
  assert (Hex : forall r0 i, (exists e, In e es /\ exp_route e = r0) ->
              (RM (optimize (ins_all mk es (r_root r))) r0 i <-> tinfo t d es r0 = Some i)).
  { intros r0 i (e & He & <-). rewrite (optimize_routes (ins_all mk es (r_root r)) (exp_route e) i). unfold tinfo. fold mk.
    apply (ins_all_exact mk es (r_root r) (exp_route e) None Hok Hwf Hd).
    intros o. split; [intros Ho; destruct (Hfree e o He Ho)|discriminate]. }
  intros r0 i. destruct (is_exp es (r0, i)) eqn:Ex.
  - apply is_exp_true in Ex as (e & He & Heq). cbn [fst] in Heq.
    rewrite (Hex r0 i) by (exists e; auto). split; [auto|]. intros [Hold|Hn]; [|exact Hn].
    subst r0. destruct (Hfree e i He Hold).
  - rewrite is_exp_false in Ex. cbn [fst] in Ex. rewrite (Hother r0 i Ex). split; [auto|].
    intros [Hold|Hn]; [exact Hold|]. apply tinfo_some in Hn as (e & He & Hr & _). destruct (Ex e He (eq_sym Hr)).
Qed.

Lemma tinfo_single t d e r0 :
  tinfo t d [e] r0 = if route_eq_dec (exp_route e) r0 then Some (mk_info t false d e) else None.
Proof. unfold tinfo. cbn [fold_info]. destruct (route_eq_dec (exp_route e) r0); reflexivity. Qed.

