(* Consequences of [fits] and the C01 corollary of the refinement theorem. *)
From Coq Require Import Lia.
From WF Require Import Base.Bytes Base.Utf8 Spec.Route Spec.Walk Model.Tree Spec.Inv.
From WF Require Import Proofs.BytesP Proofs.WalkP Proofs.WalkFuelP Proofs.RefineP.

Fixpoint subst_route (r : route) (vs : list bytes) : option bytes :=
  match r with
  | [] => match vs with [] => Some [] | _ => None end
  | AB b :: r' => option_map (cons b) (subst_route r' vs)
  | _ :: r' => match vs with
               | v :: vs' => option_map (app v) (subst_route r' vs')
               | [] => None
               end
  end.

Definition params_of (r : route) : list atom :=
  filter (fun a => match a with AB _ => false | _ => true end) r.

Lemma fits_subst chk r p vs : fits chk r p vs -> subst_route r vs = Some p.
Proof.
  induction 1; cbn; [reflexivity| | |]; rewrite IHfits; reflexivity.
Qed.

Lemma fits_values chk r p vs : fits chk r p vs ->
  Forall2 (fun (a : atom) (v : bytes) =>
             v <> [] /\ utf8_valid v = true
             /\ match a with
                | AD _ c => ~ In SL v /\ copt chk c v = true
                | AW _ c => copt chk c v = true
                | AB _ => False
                end) (params_of r) vs.
Proof.
  induction 1; cbn; auto.
Qed.

Theorem search_genuine chk t p i ps :
  inv_b t = true -> search chk t p = Some (i, ps) ->
  exists r, In (r, i) (routes_of t) /\ map fst ps = param_names r /\ fits chk r p (map snd ps).
Proof.
  intros Hinv H. rewrite (search_refines_W chk t p Hinv) in H. unfold W in H.
  eapply walk_sound; eauto.
Qed.
