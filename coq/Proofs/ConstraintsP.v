(* C13 (a)(b) at history level: the registration in force for a name is the FIRST one; no later call changes it;
   a template naming an unregistered constraint is refused without any change. *)
From Coq Require Import List NArith Lia.
From WF Require Import Base.Bytes Spec.Route Spec.Walk Model.Tree Model.Parser Model.Router Model.Constraints.
From WF Require Import Proofs.BytesP Proofs.ReachP Proofs.RouterRoutesP.
Import ListNotations.

Definition in_force (r : router) (name : bytes) : option (bytes * bytes) :=
  List.find (fun nt : bytes * bytes => beqb (fst nt) name) (r_constraints r).

Lemma find_app_some {A} (f : A -> bool) l1 l2 x : find f l1 = Some x -> find f (l1 ++ l2) = Some x.
Proof. induction l1 as [|a l1 IH]; [discriminate|]. cbn [find app]. destruct (f a); [auto|exact IH]. Qed.

Lemma find_app_none {A} (f : A -> bool) l1 l2 : find f l1 = None -> find f (l1 ++ l2) = find f l2.
Proof. induction l1 as [|a l1 IH]; [reflexivity|]. cbn [find app]. destruct (f a); [discriminate|exact IH]. Qed.

(* the three outcomes of a registration *)
Theorem rconstraint_outcome r name ty :
  match in_force r name with
  | Some (_, old) => rconstraint r name ty = (r, RErr (CEDuplicateName name old ty))
  | None => rconstraint r name ty = (Router (r_root r) (r_constraints r ++ [(name, ty)]), ROk tt)
  end.
Proof. unfold in_force, rconstraint. destruct (find _ (r_constraints r)) as [[a b]|]; reflexivity. Qed.

Theorem rconstraint_registers r name ty r' :
  rconstraint r name ty = (r', ROk tt) -> in_force r name = None /\ in_force r' name = Some (name, ty) /\ r_root r' = r_root r.
Proof.
  unfold rconstraint, in_force. destruct (find _ (r_constraints r)) as [[a b]|] eqn:E; intros H; inversion H; subst.
  cbn [r_constraints r_root]. split; [reflexivity|]. split; [|reflexivity].
  rewrite (find_app_none _ _ _ E). cbn [find fst]. rewrite (proj2 (beqb_eq name name) eq_refl). reflexivity.
Qed.

Lemma rinsert_constraints r t d : r_constraints (fst (rinsert r t d)) = r_constraints r.
Proof.
  rewrite rinsert_unfold. destruct (parse t) as [es| | |]; try reflexivity.
  destruct (first_some _ es); [reflexivity|]. destruct (filter_map _ es); reflexivity.
Qed.

Lemma rdelete_constraints r t : r_constraints (fst (rdelete r t)) = r_constraints r.
Proof.
  rewrite rdelete_unfold. destruct (parse t) as [es| | |]; try reflexivity.
  destruct (first_some _ es); [reflexivity|]. destruct (existsb _ es); [reflexivity|].
  destruct (snd (del_all _ _)); reflexivity.
Qed.

(* once a name is registered, no call - successful or refused - changes what is in force under it *)
Theorem in_force_step r o name x : in_force r name = Some x -> in_force (step r o) name = Some x.
Proof.
  intros H. destruct o as [t d|t|n ty]; cbn [step]; unfold in_force in *.
  - rewrite rinsert_constraints. exact H.
  - rewrite rdelete_constraints. exact H.
  - unfold rconstraint. destruct (find (fun nt : bytes * bytes => beqb (fst nt) n) (r_constraints r)) as [[a b]|]; cbn [fst]; [exact H|].
    cbn [r_constraints]. apply find_app_some. exact H.
Qed.

Theorem in_force_forever b ops ops' name x :
  in_force (run b ops) name = Some x -> in_force (run b (ops ++ ops')) name = Some x.
Proof.
  unfold run. rewrite fold_left_app. generalize (fold_left step ops (new_router b)) as r.
  induction ops' as [|o ops' IH]; intros r H; [exact H|]. cbn [fold_left]. apply IH, in_force_step, H.
Qed.

(* and the check function the search uses for that name is the function of that registration *)
Theorem cfun_in_force cons name v :
  cfun_of cons name v = match List.find (fun nt : bytes * bytes => beqb (fst nt) name) cons with
                        | Some (_, ty) => tfun ty v | None => false end.
Proof. reflexivity. Qed.

Corollary cfun_forever b ops ops' name x v :
  in_force (run b ops) name = Some x ->
  cfun_of (r_constraints (run b (ops ++ ops'))) name v = cfun_of (r_constraints (run b ops)) name v.
Proof.
  intros H. pose proof (in_force_forever b ops ops' name x H) as H'. unfold in_force in *. unfold cfun_of. rewrite H, H'. reflexivity.
Qed.

(* (b) an unregistered constraint: refused, nothing changes *)
Theorem unknown_constraint_refused r t d es c :
  parse t = Ret es -> unknown_constraint r es = Some c -> rinsert r t d = (r, RErr (IEUnknownConstraint c)).
Proof. intros Ep Hu. rewrite rinsert_unfold, Ep. unfold unknown_constraint in Hu. rewrite Hu. reflexivity. Qed.

Theorem unknown_constraint_iff r t d es :
  parse t = Ret es ->
  ((exists c, rinsert r t d = (r, RErr (IEUnknownConstraint c))) <-> unknown_constraint r es <> None).
Proof.
  intros Ep. split.
  - intros (c & H) Hn. rewrite rinsert_unfold, Ep in H. unfold unknown_constraint in Hn. rewrite Hn in H.
    destruct (filter_map _ es); discriminate.
  - intros Hn. destruct (unknown_constraint r es) as [c|] eqn:E; [|congruence]. exists c. apply (unknown_constraint_refused r t d es c Ep E).
Qed.

(* which constraint is unknown: some part of some expansion names it, and it is not registered *)
Lemma first_some_in {A B} (f : A -> option B) l b : first_some f l = Some b -> exists a, In a l /\ f a = Some b.
Proof.
  induction l as [|a l IH]; [discriminate|]. cbn [first_some]. destruct (f a) eqn:E.
  - intros H. inversion H; subst. exists a. split; [left; reflexivity|exact E].
  - intros H. destruct (IH H) as (a' & Hin & Hf). exists a'. split; [right; exact Hin|exact Hf].
Qed.

Theorem unknown_constraint_spec r es c :
  unknown_constraint r es = Some c ->
  registered r c = false /\ exists e p, In e es /\ In p (snd e) /\ part_constraint p = Some c.
Proof.
  unfold unknown_constraint. intros H. apply first_some_in in H as (e & He & H). apply first_some_in in H as (p & Hp & H).
  destruct (part_constraint p) as [c'|] eqn:Epc; [|discriminate]. destruct (registered r c') eqn:Er; [discriminate|].
  inversion H; subst c'. split; [exact Er|]. exists e, p. split; [exact He|]. split; [apply in_rev; exact Hp|exact Epc].
Qed.
