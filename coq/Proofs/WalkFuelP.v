(* Fuel irrelevance of the walk, and the collapse of a shared literal prefix. *)
From Coq Require Import Lia.
From WF Require Import Base.Bytes Base.Utf8 Spec.Route Spec.Walk Proofs.BytesP Proofs.WalkP.

Section F.
  Variable chk : bytes -> bytes -> bool.

  Lemma cands_shorter k p c : p <> [] -> In c (cands k p) -> length (snd c) < length p.
  Proof.
    intros Hp Hc. destruct c as [v r]. apply cands_spec in Hc as (Hv & -> & _); [|exact Hp].
    rewrite app_length. cbn. destruct v; [congruence|cbn; lia].
  Qed.

  Lemma walk_fuel : forall f1 f2 rs p, length p < f1 -> length p < f2 -> walk chk f1 rs p = walk chk f2 rs p.
  Proof.
    induction f1 as [|f1 IH]; intros f2 rs p H1 H2; [lia|].
    destruct f2 as [|f2]; [lia|].
    rewrite !walk_S. destruct p as [|b rest]; [reflexivity|]. cbn [length] in *.
    f_equal.
    - apply IH; lia.
    - apply first_some_ext. intros k _. apply first_some_ext. intros kg _.
      apply pick_ext. intros c Hc. apply cands_shorter in Hc; [|discriminate]. cbn [length] in Hc.
      apply IH; lia.
  Qed.

  Lemma W_walk f rs p : length p < f -> walk chk f rs p = W chk rs p.
  Proof. intros H. unfold W. apply walk_fuel; lia. Qed.
End F.

