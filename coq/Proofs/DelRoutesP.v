(* The routes of a tree after Node::delete: the deleted route is gone, every other route is
   untouched, and the value handed back is the info that was stored at the route. *)
From Coq Require Import Lia Arith PeanoNat Permutation.
From WF Require Import Base.Bytes Base.Utf8 Spec.Route Spec.Walk Model.Tree Model.Ops Spec.Inv.
From WF Require Import Proofs.BytesP Proofs.WalkP Proofs.GroupsP Proofs.RefineP Proofs.InvP Proofs.OptimizeP
     Proofs.OpsLemmasP Proofs.InsertP Proofs.DeleteP Proofs.RoutesP Proofs.InsRoutesP.

(* M' is M without route r0; res is what was stored there *)
Definition DelM (M M' : Mem) (r0 : route) (res : option info) : Prop :=
  (forall r i, r <> r0 -> (M' r i <-> M r i))
  /\ (forall i, ~ M' r0 i)
  /\ (forall i, res = Some i <-> M r0 i).

Lemma DelM_ext (M1 M2 M1' M2' : Mem) r0 res :
  (forall r i, M1 r i <-> M2 r i) -> (forall r i, M1' r i <-> M2' r i) -> DelM M1 M1' r0 res -> DelM M2 M2' r0 res.
Proof.
  intros H H' (Ha & Hb & Hc). split; [|split].
  - intros r i Hne. rewrite <- H, <- H'. apply Ha. exact Hne.
  - intros i Hi. apply (Hb i). apply H'. exact Hi.
  - intros i. rewrite (Hc i). apply H.
Qed.

(* nothing to delete: the route is not there *)
Lemma DelM_absent (M : Mem) r0 : (forall i, ~ M r0 i) -> DelM M M r0 None.
Proof.
  intros H. split; [intros; reflexivity|]. split; [exact H|].
  intros i. split; [discriminate|]. intros Hi. destruct (H i Hi).
Qed.

(* a deletion below the prefix [pre] lifts to the parent; X is everything outside the slot *)
Lemma DelM_lift (X C C' M M' : Mem) pre r0' res :
  (forall r i, M r i <-> X r i \/ exists r', r = pre ++ r' /\ C r' i) ->
  (forall r i, M' r i <-> X r i \/ exists r', r = pre ++ r' /\ C' r' i) ->
  (forall j, ~ X (pre ++ r0') j) ->
  DelM C C' r0' res -> DelM M M' (pre ++ r0') res.
Proof.
  intros HM HM' HX (Ha & Hb & Hc). split; [|split].
  - intros r i Hne. rewrite HM, HM'. split; intros [H|(r' & -> & H)]; auto; right; exists r'; split; auto;
      apply (Ha r' i); auto; intros ->; apply Hne; reflexivity.
  - intros i Hi. apply HM' in Hi as [Hi|(r' & E & Hi)]; [apply (HX i Hi)|].
    apply app_inv_head in E. subst r'. apply (Hb i Hi).
  - intros i. rewrite (Hc i), HM. split.
    + intros Hi. right. exists r0'. auto.
    + intros [Hi|(r' & E & Hi)]; [destruct (HX i Hi)|]. apply app_inv_head in E. subst r'. exact Hi.
Qed.

(* the slot disappears entirely (its node became empty) *)
Lemma DelM_lift_removed (X C M M' : Mem) pre r0' res :
  (forall r i, M r i <-> X r i \/ exists r', r = pre ++ r' /\ C r' i) ->
  (forall r i, M' r i <-> X r i) ->
  (forall j, ~ X (pre ++ r0') j) ->
  DelM C (fun _ _ => False) r0' res -> DelM M M' (pre ++ r0') res.
Proof.
  intros HM HM' HX HD. apply (DelM_lift X C (fun _ _ => False) M M' pre r0' res); auto.
  intros r i. rewrite HM'. split; [auto|]. intros [H|(r' & _ & [])]. exact H.
Qed.

(* ---- what lies outside a slot cannot spell the route through the slot ---- *)
Lemma StX_no_prefix n a x b r' j :
  wf n = true -> n_st n = a ++ x :: b ->
  ~ StX (n_data n) (fun k => kids k n) a b (map AB (fst (fst x)) ++ r') j.
Proof.
  intros Hwf Hs HX. pose proof (wf_unpack n Hwf) as W.
  assert (Hxin : In x (n_st n)) by (rewrite Hs; apply in_or_app; right; left; reflexivity).
  destruct (static_keys_nonempty _ _ (wn_static_keys n W) Hxin) as (b0 & k0 & Hk0 & _). rewrite Hk0 in HX.
  destruct HX as [[E _]|[(kc & r2 & Hkc & E & _)|(k & kc & r2 & _ & E & _)]].
  - discriminate.
  - assert (Hkcin : In kc (n_st n)) by (rewrite Hs; destruct Hkc; apply in_or_app; [left|right; right]; assumption).
    assert (Hne : kc <> x).
    { apply (NoDup_split_neq a x b); [|exact Hkc]. rewrite <- Hs. apply keys_nodup_NoDup. apply static_keys_nodup. apply (wn_static_keys n W). }
    destruct (static_first_differs _ kc x (wn_static_keys n W) Hkcin Hxin Hne) as (b1 & k1 & b2 & k2 & E1 & E2 & Hd).
    rewrite E1 in E. rewrite Hk0 in E2. inversion E2; subst. cbn in E. inversion E. congruence.
  - cbn in E. destruct k; discriminate.
Qed.

Lemma KdX_no_head n k a x b r0' j :
  wf n = true -> kids k n = a ++ x :: b ->
  (is_end k = true -> r0' = []) -> (is_end k = false -> is_dyn k = false -> r0' <> []) ->
  ~ KdX (n_data n) (n_st n) (fun k => kids k n) k a b ([head_atom k (fst x)] ++ r0') j.
Proof.
  intros Hwf Hs Hend Hmid HX. pose proof (wf_unpack n Hwf) as W.
  assert (Hxin : In x (kids k n)) by (rewrite Hs; apply in_or_app; right; left; reflexivity).
  pose proof (key_ok_kind _ _ (wn_key n W k x Hxin)) as Kx.
  destruct HX as [[E _]|[(kc & r2 & Hkc & E & _)|(k' & kc & r2 & Hkc & E & Hr)]].
  - discriminate.
  - destruct (static_keys_nonempty _ _ (wn_static_keys n W) Hkc) as (b0 & k0 & Hk0 & _). rewrite Hk0 in E.
    cbn in E. destruct k; discriminate.
  - cbn [app] in E. inversion E as [[Eh Et]]. subst r2.
    destruct Hkc as [[Hne Hkc]|[-> Hkc]].
    + pose proof (key_ok_kind _ _ (wn_key n W k' kc Hkc)) as Kc.
      apply head_atom_inj in Eh as [Hdy Hky]; auto. rewrite Hky in Kx.
      apply Hne. symmetry. apply (kind_of_key k k' (fst kc)); auto.
      destruct (is_end k) eqn:Ee1, (is_end k') eqn:Ee2; try reflexivity; exfalso.
      * rewrite (Hend eq_refl) in Hr. unfold kid_routes in Hr. rewrite Ee2 in Hr.
        destruct (wn_mid n W k' kc Ee2 Hkc) as (_ & Hnd & _ & Hw).
        apply nil_route_data in Hr; [|apply wf_unpack in Hw; apply (wn_static_keys _ Hw)].
        assert (Hd2 : is_dyn k' = false) by (destruct k, k'; cbn in *; congruence).
        specialize (Hnd Hd2). unfold has_data in Hnd. rewrite Hr in Hnd. discriminate.
      * apply kid_routes_end in Hr; [|exact Ee2].
        assert (Hd1 : is_dyn k = false) by (destruct k, k'; cbn in *; congruence).
        apply (Hmid eq_refl Hd1). exact Hr.
    + assert (Hkcin : In kc (kids k n)) by (rewrite Hs; destruct Hkc; apply in_or_app; [left|right; right]; assumption).
      pose proof (key_ok_kind _ _ (wn_key n W k kc Hkcin)) as Kc.
      apply head_atom_inj in Eh as [_ Hky]; auto.
      assert (Hne : kc <> x).
      { apply (NoDup_split_neq a x b); [|exact Hkc]. rewrite <- Hs. apply keys_nodup_NoDup. apply (wn_nodup n W k). }
      apply Hne.
      pose proof (wn_nodup n W k) as Hnd. apply keys_nodup_spec in Hnd.
      clear -Hkcin Hxin Hky Hnd. induction (kids k n) as [|z l IHl]; [destruct Hxin|].
      cbn [map] in Hnd. apply NoDup_cons_iff in Hnd as [Hz Hnd].
      destruct Hkcin as [<-|Ha], Hxin as [<-|Hb]; auto.
      * exfalso. apply Hz. apply in_map_iff. exists x. auto.
      * exfalso. apply Hz. apply in_map_iff. exists kc. auto.
Qed.

(* ---- membership after removing a slot ---- *)
Lemma mem_kind_removed n n' k a x b :
  kids k n = a ++ x :: b -> kids k n' = a ++ b ->
  n_data n' = n_data n -> n_st n' = n_st n -> (forall k', k' <> k -> kids k' n' = kids k' n) ->
  forall r i, In (r, i) (routes_of n') <-> KdX (n_data n) (n_st n) (fun k => kids k n) k a b r i.
Proof.
  intros Hk Hk' Hd Hs Ho r i. rewrite in_routes_of, Hd, Hs. unfold KdX. split.
  - intros [H|[H|(k' & kc & r' & Hkc & Hr)]]; auto. right; right. exists k', kc, r'. split; [|exact Hr].
    destruct (kind_eq_dec k' k) as [->|Hne].
    + right. split; [reflexivity|]. rewrite Hk' in Hkc. apply in_app_or in Hkc. exact Hkc.
    + left. split; [exact Hne|]. rewrite (Ho k' Hne) in Hkc. exact Hkc.
  - intros [H|[H|(k' & kc & r' & Hkc & Hr)]]; auto. right; right. exists k', kc, r'. split; [|exact Hr].
    destruct Hkc as [[Hne Hkc]|[-> Hkc]].
    + rewrite (Ho k' Hne). exact Hkc.
    + rewrite Hk'. apply in_or_app. exact Hkc.
Qed.

Lemma mem_static_removed n n' a x b :
  n_st n = a ++ x :: b -> n_st n' = a ++ b -> n_data n' = n_data n -> (forall k, kids k n' = kids k n) ->
  forall r i, In (r, i) (routes_of n') <-> StX (n_data n) (fun k => kids k n) a b r i.
Proof.
  intros Hs Hs' Hd Hk r i. rewrite in_routes_of, Hd, Hs'. unfold StX. split.
  - intros [H|[(kc & r' & Hkc & Hr)|(k & kc & r' & Hkc & Hr)]]; auto.
    + right; left. exists kc, r'. split; [apply in_app_or in Hkc; exact Hkc|exact Hr].
    + right; right. exists k, kc, r'. rewrite Hk in Hkc. auto.
  - intros [H|[(kc & r' & Hkc & Hr)|(k & kc & r' & Hkc & Hr)]]; auto.
    + right; left. exists kc, r'. split; [apply in_or_app; exact Hkc|exact Hr].
    + right; right. exists k, kc, r'. rewrite Hk. auto.
Qed.

Lemma routes_set_dirty b n : routes_of (set_dirty b n) = routes_of n.
Proof. destruct n; reflexivity. Qed.

Lemma is_empty_routes c : is_empty c = true -> routes_of c = [].
Proof.
  unfold is_empty, no_kids. destruct c as [d st dc dy wc wi ec en f1 f2 f3]. cbn.
  destruct d; [discriminate|]. destruct st, dc, dy, wc, wi, ec, en; try discriminate. reflexivity.
Qed.

Lemma compressible_routes c mk m :
  is_compressible c = true -> n_st c = [(mk, m)] ->
  forall r i, In (r, i) (routes_of c) <-> exists r', r = map AB (fst mk) ++ r' /\ In (r', i) (routes_of m).
Proof.
  unfold is_compressible. destruct c as [d st dc dy wc wi ec en f1 f2 f3]. cbn [n_data n_st n_dc n_dy n_wc n_wi n_ec n_en].
  destruct d; [discriminate|]. destruct st as [|s0 [|? ?]]; try discriminate.
  destruct dc, dy, wc, wi, ec, en; try discriminate. intros _ E. inversion E; subst. intros r i.
  rewrite in_routes_of. cbn [n_data n_st]. split.
  - intros [[_ H]|[(kc & r' & [<-|[]] & -> & Hr)|(k & kc & r' & Hkc & _)]]; [discriminate|eauto|destruct k; destruct Hkc].
  - intros (r' & -> & Hr). right; left. exists (mk, m), r'. cbn. auto.
Qed.

Lemma split_at_find_none {A} (pred : A -> bool) l : split_at pred l = None -> List.find pred l = None.
Proof.
  intros H. pose proof (split_at_none _ _ H) as Hn. induction l as [|x l IH]; [reflexivity|].
  cbn [find]. rewrite (Hn x (or_introl eq_refl)). apply IH.
  - cbn [split_at] in H. rewrite (Hn x (or_introl eq_refl)) in H. destruct (split_at pred l) as [[[? ?] ?]|]; [discriminate|reflexivity].
  - intros y Hy. apply Hn. right; exact Hy.
Qed.

Lemma head_of_part k ky p ps' :
  part_kind p ps' = Some (k, ky) -> atoms_of_part p = [head_atom k ky].
Proof.
  destruct p as [s|n c|n c]; cbn [part_kind]; [discriminate| |].
  - destruct c; intros H; inversion H; reflexivity.
  - destruct c, ps'; intros H; inversion H; reflexivity.
Qed.

Definition DelSpec (n : node) (res : node * option info) (r0 : route) : Prop :=
  DelM (RM n) (RM (fst res)) r0 (snd res).

(* absent routes, via find *)
Lemma absent_by_find fuel n ps b :
  parts_size ps < fuel -> wf n = true -> parts_wf b ps = true -> parts_norm ps = true ->
  find_node fuel n ps = None -> forall i, ~ RM n (atoms_of ps) i.
Proof.
  intros Hf Hwf Hps Hn Hfind i Hi. apply (proj1 (find_ok fuel) n ps i b Hf Hwf Hps Hn) in Hi. congruence.
Qed.

Lemma absent_by_find_static fuel n p ps :
  length p + parts_size ps < fuel -> p <> [] -> wf n = true -> parts_wf false ps = true -> parts_norm ps = true ->
  no_ps_head ps = true ->
  find_static fuel n p ps = None -> forall i, ~ RM n (map AB p ++ atoms_of ps) i.
Proof.
  intros Hf Hp Hwf Hps Hn Hh Hfind i Hi. apply (proj2 (find_ok fuel) n p ps i Hf Hp Hwf Hps Hn Hh) in Hi. congruence.
Qed.

Definition del_param (f : nat) (n : node) (p0 : part) (ps' : list part) : node * option info :=
  match part_kind p0 ps' with
  | None => (n, None)
  | Some (k, ky) =>
    match split_at (fun kc : key * node => keqb (fst kc) ky) (kids k n) with
    | None => (n, None)
    | Some (a, kc, b) =>
      if is_end k then
        match n_data (snd kc) with
        | None => (set_kids k (a ++ b) n, None)
        | Some d => (set_dirty true (set_kids k (a ++ b) n), Some d)
        end
      else
        let '(c', r) := delete f (snd kc) ps' in
        if is_empty c' then (set_dirty true (set_kids k (a ++ b) n), r)
        else (set_kids k (a ++ (fst kc, c') :: b) n, r)
    end
  end.

Lemma delete_routes_param f
  (IHd : forall n ps b, parts_size ps < f -> wf n = true -> parts_wf b ps = true -> parts_norm ps = true ->
                        DelSpec n (delete f n ps) (atoms_of ps))
  n p0 ps' b :
  (match p0 with PS _ => False | _ => True end) ->
  parts_size (p0 :: ps') < S f -> wf n = true -> parts_wf b (p0 :: ps') = true -> parts_norm (p0 :: ps') = true ->
  DelSpec n (del_param f n p0 ps') (atoms_of_part p0 ++ atoms_of ps').
Proof.
  intros Hparam Hfuel Hwf Hps Hnorm. pose proof (wf_unpack n Hwf) as W.
  assert (Hfuel' : parts_size ps' < f) by (destruct p0; cbn [parts_size] in Hfuel; [destruct Hparam| |]; lia).
  assert (Hps' : parts_wf true ps' = true).
  { destruct p0; cbn [parts_wf] in Hps; [destruct Hparam| |]; apply andb_true_iff in Hps; apply Hps. }
  assert (Hnorm' : parts_norm ps' = true) by (eapply parts_norm_tail; eauto).
  unfold del_param, DelSpec.
  destruct (part_kind p0 ps') as [[k ky]|] eqn:Epk.
  2:{ destruct p0 as [s|nm c|nm c]; [destruct Hparam|destruct c; discriminate|destruct c, ps'; discriminate]. }
  rewrite (head_of_part k ky p0 ps' Epk).
  assert (Hkind : key_kind_ok k ky = true /\ (is_end k = true -> ps' = [])
                  /\ (is_end k = false -> is_dyn k = false -> ps' <> [])).
  { destruct p0 as [s|nm c|nm c]; [destruct Hparam| |].
    - destruct (part_kind_dyn _ _ _ _ _ Epk) as (-> & Hkk & He & Hdy). repeat split; auto; congruence.
    - destruct (part_kind_wild _ _ _ _ _ Epk) as (-> & Hkk & Hdy & Hne). repeat split; auto.
      intros Hx. destruct c, ps'; inversion Epk; subst; try discriminate; reflexivity. }
  destruct Hkind as (Hkk & Hend & Hmid).
  (* the same search as find *)
  assert (Hfind : find_node (S f) n (p0 :: ps') =
                  match List.find (fun kc : key * node => keqb (fst kc) ky) (kids k n) with
                  | Some kc => find_node f (snd kc) ps' | None => None end).
  { rewrite find_node_S. destruct p0; [destruct Hparam| |]; rewrite Epk; reflexivity. }
  assert (Hatoms : atoms_of (p0 :: ps') = [head_atom k ky] ++ atoms_of ps').
  { rewrite atoms_of_cons, (head_of_part k ky p0 ps' Epk). reflexivity. }
  destruct (split_at _ (kids k n)) as [[[a kc] bb]|] eqn:Es; cbn [fst snd].
  2:{ apply DelM_absent. rewrite <- Hatoms.
      apply (absent_by_find (S f) n (p0 :: ps') b); auto.
      rewrite Hfind, (split_at_find_none _ _ Es). reflexivity. }
  apply split_at_some in Es as (Hl & Hkey & _). apply keqb_eq in Hkey. subst ky.
  assert (Hkcin : In kc (kids k n)) by (rewrite Hl; apply in_or_app; right; left; reflexivity).
  assert (HX : forall j, ~ KdX (n_data n) (n_st n) (fun k0 => kids k0 n) k a bb ([head_atom k (fst kc)] ++ atoms_of ps') j).
  { intros j. apply KdX_no_head; auto.
    - intros He. rewrite (Hend He). reflexivity.
    - intros He Hdy. apply (parts_wf_atoms_nonempty true ps' Hps'). apply Hmid; auto. }
  assert (HM : forall r i, RM n r i <->
             KdX (n_data n) (n_st n) (fun k0 => kids k0 n) k a bb r i
             \/ exists r', r = [head_atom k (fst kc)] ++ r' /\ mem_of (kid_routes k (snd kc)) r' i).
  { intros r i. unfold RM, mem_of. apply (mem_kind_slot n k a kc bb Hl). }
  assert (Hrem : forall dm res,
            DelM (mem_of (kid_routes k (snd kc))) (fun _ _ => False) (atoms_of ps') res ->
            DelM (RM n) (RM (mark dm (set_kids k (a ++ bb) n))) ([head_atom k (fst kc)] ++ atoms_of ps') res).
  { intros dm res HD. apply (DelM_lift_removed _ _ _ _ _ _ _ HM); auto.
    intros r i. unfold RM, mem_of. apply (mem_kind_removed n _ k a kc bb Hl).
    - rewrite mark_kids. apply kids_set_kids_same.
    - rewrite mark_data. apply data_set_kids.
    - rewrite mark_st. apply st_set_kids.
    - intros k' Hne. rewrite mark_kids. apply kids_set_kids_other. congruence. }
  destruct (is_end k) eqn:He.
  - (* catch-all: the whole child goes *)
    rewrite (Hend eq_refl) in *. cbn [atoms_of flat_map] in *.
    assert (HD : DelM (mem_of (kid_routes k (snd kc))) (fun _ _ => False) [] (n_data (snd kc))).
    { unfold kid_routes, mem_of. rewrite He. split; [|split].
      - intros r i Hne. split; [intros []|]. destruct (n_data (snd kc)); [|intros []]. intros [H|[]]. congruence.
      - intros i [].
      - intros i. destruct (n_data (snd kc)); split; try discriminate.
        + intros E; inversion E; left; reflexivity.
        + intros [H|[]]. inversion H; reflexivity.
        + intros []. }
    destruct (n_data (snd kc)) eqn:Edk; cbn [fst snd].
    + apply (Hrem true (Some i)). exact HD.
    + apply (Hrem false None). exact HD.
  - (* dynamic / mid-route wildcard *)
    destruct (wn_mid n W k kc He Hkcin) as (_ & _ & _ & Hwc).
    pose proof (IHd (snd kc) ps' true Hfuel' Hwc Hps' Hnorm') as HI. unfold DelSpec in HI.
    destruct (delete f (snd kc) ps') as [c' r] eqn:Edel. cbn [fst snd] in HI.
    assert (Hkr : forall r0 i, mem_of (kid_routes k (snd kc)) r0 i <-> RM (snd kc) r0 i).
    { intros r0 i. unfold kid_routes. rewrite He. reflexivity. }
    destruct (is_empty c') eqn:Eem; cbn [fst snd].
    + apply (Hrem true r). eapply DelM_ext; [| |exact HI].
      * intros r0 i. symmetry. apply Hkr.
      * intros r0 i. unfold RM, mem_of. rewrite (is_empty_routes c' Eem). reflexivity.
    + apply (DelM_lift (KdX (n_data n) (n_st n) (fun k0 => kids k0 n) k a bb) (RM (snd kc)) (RM c')).
      * intros r0 i. rewrite (HM r0 i).
        split; intros [H|(r' & Hr & Hin)]; auto; right; exists r'; split; auto; apply Hkr; exact Hin.
      * intros r0 i. unfold RM, mem_of.
        rewrite (mem_kind_slot (set_kids k (a ++ (fst kc, c') :: bb) n) k a (fst kc, c') bb (kids_set_kids_same _ _ _)).
        cbn [fst snd]. unfold kid_routes. rewrite He, data_set_kids, st_set_kids.
        rewrite (KdX_ext _ _ (fun k0 => kids k0 n) (fun k0 => kids k0 (set_kids k (a ++ (fst kc, c') :: bb) n))); [reflexivity|].
        intros k' Hne. apply kids_set_kids_other. congruence.
      * exact HX.
      * exact HI.
Qed.

Lemma starts_with_prefix k p : (exists rest, starts_with k p = Some rest) <-> exists rest, p = k ++ rest.
Proof.
  split; intros (rest & H); exists rest; apply starts_with_spec; exact H.
Qed.

Lemma delete_routes_static f
  (IHd : forall n ps b, parts_size ps < f -> wf n = true -> parts_wf b ps = true -> parts_norm ps = true ->
                        DelSpec n (delete f n ps) (atoms_of ps))
  (IHs : forall n p ps, length p + parts_size ps < f -> p <> [] -> wf n = true -> parts_wf false ps = true ->
                        parts_norm ps = true -> no_ps_head ps = true ->
                        DelSpec n (delete_static f n p ps) (map AB p ++ atoms_of ps)) :
  forall n p ps, length p + parts_size ps < S f -> p <> [] -> wf n = true -> parts_wf false ps = true ->
                 parts_norm ps = true -> no_ps_head ps = true ->
                 DelSpec n (delete_static (S f) n p ps) (map AB p ++ atoms_of ps).
Proof.
  intros n p ps Hfuel Hp Hwf Hps Hnorm Hhead. unfold DelSpec. rewrite delete_static_S.
  pose proof (wf_unpack n Hwf) as W.
  assert (Hlenp : 1 <= length p) by (destruct p; [congruence|cbn; lia]).
  assert (Hpsz : 1 <= parts_size ps) by (destruct ps as [|[?|? ?|? ?] ?]; cbn; lia).
  destruct (split_at _ (n_st n)) as [[[a kc] bb]|] eqn:Es.
  2:{ cbn [fst snd]. apply DelM_absent.
      apply (absent_by_find_static (S f) n p ps); auto.
      rewrite find_static_S.
      assert (Hn : first_some (find_step f p ps) (n_st n) = None).
      { apply first_some_none. intros kc Hkc. unfold find_step.
        destruct (same_first (fst (fst kc)) p); [|reflexivity].
        destruct (Nat.leb (length (fst (fst kc))) (lcp p (fst (fst kc)))) eqn:El; [|reflexivity].
        exfalso. apply Nat.leb_le in El. apply lcp_full_prefix in El as [Hx _].
        pose proof (split_at_none _ _ Es kc Hkc) as Hno. cbn beta in Hno.
        rewrite Hx, starts_with_app in Hno. discriminate. }
      rewrite Hn. reflexivity. }
  apply split_at_some in Es as (Hl & Hpre & _).
  assert (Hkcin : In kc (n_st n)) by (rewrite Hl; apply in_or_app; right; left; reflexivity).
  destruct (wn_static n W kc Hkcin) as [_ Hwc].
  destruct (static_keys_nonempty _ _ (wn_static_keys n W) Hkcin) as (b0 & k0' & Hk0 & Hcn).
  destruct kc as [[k kcn] c0]. cbn [fst snd] in *. subst kcn. cbv zeta. cbn [fst snd].
  destruct (starts_with k p) as [rem|] eqn:Esw; [|discriminate]. apply starts_with_spec in Esw.
  assert (Hskip : skipn (length k) p = rem) by (rewrite Esw, skipn_app, skipn_all, Nat.sub_diag; reflexivity).
  rewrite Hskip.
  assert (Hlen : length p = length k + length rem) by (rewrite Esw, app_length; reflexivity).
  assert (Hk1 : 1 <= length k) by (rewrite Hk0; cbn; lia).
  set (c := set_dirty true c0).
  assert (Hwc' : wf c = true) by (unfold c; rewrite wf_set_dirty; exact Hwc).
  assert (HRc : forall r i, RM c r i <-> RM c0 r i) by (intros r i; unfold RM, c; rewrite routes_set_dirty; reflexivity).
  (* the recursive call and its route *)
  set (r0' := map AB rem ++ atoms_of ps).
  assert (Hroute : map AB p ++ atoms_of ps = map AB k ++ r0').
  { unfold r0'. rewrite Esw, map_app, <- app_assoc. reflexivity. }
  rewrite Hroute.
  assert (HI : DelSpec c (match rem with [] => delete f c ps | _ :: _ => delete_static f c rem ps end) r0').
  { unfold r0'. destruct rem as [|y rem].
    - cbn [map app]. apply (IHd c ps false); auto. cbn [length] in Hlen. lia.
    - apply IHs; auto; [cbn [length] in *; lia|discriminate]. }
  destruct (match rem with [] => delete f c ps | _ :: _ => delete_static f c rem ps end) as [c' r] eqn:Edel.
  unfold DelSpec in HI. cbn [fst snd] in HI.
  assert (HI' : DelM (RM c0) (RM c') r0' r).
  { eapply DelM_ext; [exact HRc|intros; reflexivity|exact HI]. }
  assert (HM : forall r1 i, RM n r1 i <->
             StX (n_data n) (fun k0 => kids k0 n) a bb r1 i \/ exists r', r1 = map AB k ++ r' /\ RM c0 r' i).
  { intros r1 i. unfold RM, mem_of. apply (mem_static_slot n a ((k, None), c0) bb Hl). }
  assert (HX : forall j, ~ StX (n_data n) (fun k0 => kids k0 n) a bb (map AB k ++ r0') j).
  { intros j. apply (StX_no_prefix n a ((k, None), c0) bb r0' j Hwf Hl). }
  destruct (is_empty c') eqn:Eem; cbn [fst snd].
  - apply (DelM_lift_removed _ _ _ _ _ _ _ HM); auto.
    + intros r1 i. unfold RM, mem_of. apply (mem_static_removed n _ a ((k, None), c0) bb Hl).
      * rewrite st_set_dirty, st_set_st. reflexivity.
      * rewrite data_set_dirty, data_set_st. reflexivity.
      * intros k1. rewrite kids_set_dirty, kids_set_st. reflexivity.
    + eapply DelM_ext; [intros; reflexivity| |exact HI'].
      intros r1 i. unfold RM, mem_of. rewrite (is_empty_routes c' Eem). reflexivity.
  - destruct (is_compressible c') eqn:Ecomp.
    + destruct (n_st c') as [|[mk m] [|? ?]] eqn:Est; cbn [fst snd].
      * exfalso. unfold is_compressible in Ecomp. rewrite Est in Ecomp. destruct (n_data c'); discriminate.
      * (* merged with its only literal child *)
        apply (DelM_lift _ _ (RM c') _ _ _ _ _ HM); auto.
        intros r1 i. unfold RM, mem_of.
        rewrite (mem_static_slot (set_st (a ++ ((k ++ fst mk, None), set_dirty true m) :: bb) n) a ((k ++ fst mk, None), set_dirty true m) bb (st_set_st _ _)).
        cbn [fst snd]. rewrite data_set_st, routes_set_dirty.
        rewrite (StX_ext _ (fun k0 => kids k0 n) (fun k0 => kids k0 (set_st (a ++ ((k ++ fst mk, None), set_dirty true m) :: bb) n))) by (intros k1; apply kids_set_st).
        split; (intros [H|(r' & Hr & Hin)]; [left; exact H|right]).
        -- exists (map AB (fst mk) ++ r'). split; [rewrite Hr, map_app, <- app_assoc; reflexivity|].
           apply (compressible_routes c' mk m Ecomp Est). eauto.
        -- apply (compressible_routes c' mk m Ecomp Est) in Hin as (r2 & -> & Hin). exists r2. split; [|exact Hin].
           rewrite Hr, map_app, <- app_assoc. reflexivity.
      * exfalso. unfold is_compressible in Ecomp. rewrite Est in Ecomp. destruct (n_data c'); discriminate.
    + apply (DelM_lift _ _ (RM c') _ _ _ _ _ HM); auto.
      intros r1 i. unfold RM, mem_of.
      rewrite (mem_static_slot (set_st (a ++ ((k, None), c') :: bb) n) a ((k, None), c') bb (st_set_st _ _)).
      cbn [fst snd]. rewrite data_set_st.
      rewrite (StX_ext _ (fun k0 => kids k0 n) (fun k0 => kids k0 (set_st (a ++ ((k, None), c') :: bb) n))) by (intros k1; apply kids_set_st).
      reflexivity.
Qed.

Lemma delete_routes : forall fuel,
  (forall n ps b, parts_size ps < fuel -> wf n = true -> parts_wf b ps = true -> parts_norm ps = true ->
                  DelSpec n (delete fuel n ps) (atoms_of ps))
  /\ (forall n p ps, length p + parts_size ps < fuel -> p <> [] -> wf n = true -> parts_wf false ps = true ->
                     parts_norm ps = true -> no_ps_head ps = true ->
                     DelSpec n (delete_static fuel n p ps) (map AB p ++ atoms_of ps)).
Proof.
  induction fuel as [|f [IHd IHs]]; [split; intros; lia|].
  split.
  - intros n ps b Hfuel Hwf Hps Hnorm. unfold DelSpec. rewrite delete_S. pose proof (wf_unpack n Hwf) as W.
    destruct ps as [|p0 ps'].
    + (* the data at this node *)
      cbn [atoms_of flat_map].
      destruct (n_data n) as [d0|] eqn:Ed; cbn [fst snd].
      * split; [|split].
        -- intros r i Hne. unfold RM, mem_of. rewrite !in_routes_of.
           rewrite st_set_dirty, st_set_data, data_set_dirty, data_set_data.
           split; intros [[E _]|[H|(k & kc & r' & Hkc & Hr)]]; try congruence; auto; right; right; exists k, kc, r'.
           ++ rewrite kids_set_dirty, kids_set_data in Hkc. auto.
           ++ rewrite kids_set_dirty, kids_set_data. auto.
        -- intros i Hi. unfold RM, mem_of in Hi. apply nil_route_data in Hi.
           ++ rewrite data_set_dirty, data_set_data in Hi. discriminate.
           ++ rewrite st_set_dirty, st_set_data. apply (wn_static_keys n W).
        -- intros i. unfold RM, mem_of. split.
           ++ intros E. inversion E; subst. apply in_routes_data. exact Ed.
           ++ intros Hi. apply nil_route_data in Hi; [congruence|apply (wn_static_keys n W)].
      * apply DelM_absent. intros i Hi. unfold RM, mem_of in Hi. apply nil_route_data in Hi; [congruence|apply (wn_static_keys n W)].
    + rewrite atoms_of_cons.
      destruct p0 as [s|nm c|nm c].
      * cbn [parts_wf parts_size atoms_of_part] in *. apply andb_true_iff in Hps as [Hs Hps].
        apply IHs; auto; [lia|destruct s; discriminate|eapply parts_norm_tail; eauto|eapply parts_norm_ps; eauto].
      * apply (delete_routes_param f IHd n (PD nm c) ps' b); auto.
      * apply (delete_routes_param f IHd n (PW nm c) ps' b); auto.
  - apply (delete_routes_static f IHd IHs).
Qed.
