(* Token-level parsing of harness trace lines (tab/space separated, byte strings hex-encoded). *)
From Coq Require Import Ascii String.
From WF Require Import Base.Bytes.

Definition tok := bytes.
Definition w (s : string) : bytes := map N_of_ascii (list_ascii_of_string s).

(* split on spaces (rev_append: the library's rev is quadratic, and a token can be tens of kilobytes long) *)
Fixpoint split_sp (s : bytes) (cur : bytes) : list tok :=
  match s with
  | [] => match cur with [] => [] | _ => [rev_append cur []] end
  | c :: s' => if N.eqb c 32 then (match cur with [] => split_sp s' [] | _ => rev_append cur [] :: split_sp s' [] end)
               else split_sp s' (c :: cur)
  end.
Definition tokens (line : bytes) : list tok := split_sp line [].

Definition P (A : Type) := list tok -> option (A * list tok).
Definition pret {A} (a : A) : P A := fun ts => Some (a, ts).
Definition pbind {A B} (p : P A) (f : A -> P B) : P B :=
  fun ts => match p ts with Some (a, ts') => f a ts' | None => None end.
Notation "'let*' x := p 'in' k" := (pbind p (fun x => k)) (at level 200, x pattern, p at level 100, k at level 200).
Definition pfail {A} : P A := fun _ => None.
Definition ptok : P tok := fun ts => match ts with t :: ts' => Some (t, ts') | [] => None end.

Local Open Scope N_scope.
Definition hexval (c : N) : option N :=
  if (48 <=? c) && (c <=? 57) then Some (c - 48)
  else if (97 <=? c) && (c <=? 102) then Some (c - 87)
  else None.
Fixpoint unhex (s : bytes) : option bytes :=
  match s with
  | [] => Some []
  | a :: b :: s' =>
    match hexval a, hexval b, unhex s' with
    | Some x, Some y, Some r => Some (x * 16 + y :: r)
    | _, _, _ => None
    end
  | _ => None
  end.
Definition phex : P bytes :=
  let* t := ptok in
  match t with
  | 120 :: h => match unhex h with Some b => pret b | None => pfail end     (* 'x' *)
  | _ => pfail
  end.
Fixpoint decval (acc : N) (s : bytes) : option N :=
  match s with
  | [] => Some acc
  | c :: s' => if (48 <=? c) && (c <=? 57) then decval (acc * 10 + (c - 48)) s' else None
  end.
Definition pnum : P N :=
  let* t := ptok in
  match t with [] => pfail | _ => match decval 0 t with Some n => pret n | None => pfail end end.
Definition pnat : P nat := let* n := pnum in pret (N.to_nat n).
Definition pbool : P bool := let* n := pnum in pret (negb (N.eqb n 0)).
Definition popt {A} (p : P A) : P (option A) :=
  let* t := ptok in
  if beqb t [78] then pret None                          (* N *)
  else if beqb t [83] then (let* a := p in pret (Some a))   (* S *)
  else pfail.
Fixpoint prep {A} (n : nat) (p : P A) : P (list A) :=
  match n with
  | O => pret []
  | S n' => let* a := p in let* r := prep n' p in pret (a :: r)
  end.
Definition plist {A} (p : P A) : P (list A) := let* n := pnat in prep n p.
