(* The observations the harness records about the real crate, and their line format. *)
From Coq Require Import Ascii String.
From WF Require Import Base.Bytes Spec.Route Spec.Walk Model.Tree Model.Parser Model.Router Model.Arcs Check.Tokens.

(* real search result: template, expanded, data, parameters *)
Definition sres := option (bytes * option bytes * N * params).

Inductive rsearch_res := SPanic | SRes (r : sres).

Inductive event :=
| EvNew (rid : N)
| EvNewPanic (rid : N)
| EvClone (src dst : N)
| EvConstraint (rid : N) (name type_name : bytes) (r : result constraint_err unit) (rendered : bytes)
| EvInsert (rid : N) (t : bytes) (d : N) (r : result insert_err unit) (rendered : bytes) (dump : node) (disp : bytes)
| EvDelete (rid : N) (t : bytes) (r : result delete_err N) (rendered : bytes) (dump : node) (disp : bytes)
| EvSearch (rid : N) (path : bytes) (r : rsearch_res)
| EvDumpOf (rid : N) (dump : node) (disp : bytes)
| EvSame (a b : N)
| EvParse (t : bytes) (r : out (list expansion)) (rendered : bytes)
| EvBuiltin (name value : bytes) (routed fromstr : bool)
| EvOci (method : bytes) (url : bytes) (r : option (bytes * params))   (* handler name, parameters *)
| EvArcs (v : aview)      (* the shared-data view of the whole family, read after a mutating call *)
| EvEnd.

Local Open Scope N_scope.

Definition pterr : P terr :=
  let* t := ptok in
  match t with
  | [101; d] =>      (* 'e' digit *)
    match d - 48 with
    | 0 => pret EEmpty
    | 1 => let* x := phex in pret (EMissingLeadingSlash x)
    | 2 => let* x := phex in let* p := pnat in pret (EEmptyBraces x p)
    | 3 => let* x := phex in let* p := pnat in pret (EUnbalancedBrace x p)
    | 4 => let* x := phex in let* p := pnat in pret (EEmptyParentheses x p)
    | 5 => let* x := phex in let* p := pnat in pret (EUnbalancedParenthesis x p)
    | 6 => let* x := phex in let* s := pnat in let* l := pnat in pret (EEmptyParameter x s l)
    | 7 => let* x := phex in let* n := phex in let* s := pnat in let* l := pnat in pret (EInvalidParameter x n s l)
    | 8 => let* x := phex in let* n := phex in let* f := pnat in let* fl := pnat in
           let* s := pnat in let* sl := pnat in pret (EDuplicateParameter x n f fl s sl)
    | 9 => let* x := phex in let* s := pnat in let* l := pnat in pret (EEmptyWildcard x s l)
    | _ => pfail
    end
  | [101; 49; d] =>  (* 'e' '1' digit *)
    match d - 48 with
    | 0 => let* x := phex in let* s := pnat in let* l := pnat in pret (EEmptyConstraint x s l)
    | 1 => let* x := phex in let* n := phex in let* s := pnat in let* l := pnat in pret (EInvalidConstraint x n s l)
    | 2 => let* x := phex in let* s := pnat in let* l := pnat in pret (ETouchingParameters x s l)
    | _ => pfail
    end
  | _ => pfail
  end.

Definition pinsert_res : P (result insert_err unit) :=
  let* t := ptok in
  if beqb t (w "ok") then pret (ROk tt)
  else if beqb t (w "panic") then pret (RPanic 0)
  else if beqb t (w "terr") then (let* e := pterr in pret (RErr (IETemplate e)))
  else if beqb t (w "conflict") then (let* x := phex in let* cs := plist phex in pret (RErr (IEConflict x cs)))
  else if beqb t (w "unknown") then (let* c := phex in pret (RErr (IEUnknownConstraint c)))
  else pfail.

Definition pdelete_res : P (result delete_err N) :=
  let* t := ptok in
  if beqb t (w "ok") then (let* d := pnum in pret (ROk d))
  else if beqb t (w "panic") then pret (RPanic 0)
  else if beqb t (w "terr") then (let* e := pterr in pret (RErr (DETemplate e)))
  else if beqb t (w "notfound") then (let* x := phex in pret (RErr (DENotFound x)))
  else if beqb t (w "mismatch") then (let* x := phex in let* i := phex in pret (RErr (DEMismatch x i)))
  else pfail.

Definition pconstraint_res : P (result constraint_err unit) :=
  let* t := ptok in
  if beqb t (w "ok") then pret (ROk tt)
  else if beqb t (w "panic") then pret (RPanic 0)
  else if beqb t (w "dup") then
    (let* n := phex in let* e := phex in let* nw := phex in pret (RErr (CEDuplicateName n e nw)))
  else pfail.

Definition pparam : P (bytes * bytes) := let* n := phex in let* v := phex in pret (n, v).

Definition psearch_res : P rsearch_res :=
  let* t := ptok in
  if beqb t (w "none") then pret (SRes None)
  else if beqb t (w "panic") then pret SPanic
  else if beqb t (w "some") then
    (let* tm := phex in let* ex := popt phex in let* d := pnum in let* ps := plist pparam in
     pret (SRes (Some (tm, ex, d, ps))))
  else pfail.

Definition pdata : P (option info) :=
  let* t := ptok in
  if beqb t [78] then pret None
  else if beqb t [68] then       (* D data template expanded depth length *)
    (let* d := pnum in let* tm := phex in let* ex := popt phex in let* dp := pnum in let* ln := pnum in
     pret (Some (Info tm ex dp ln d)))
  else pfail.

(* n DATA dflag wflag dirty  then 7 lists of (key constraint NODE) *)
Fixpoint pnode (fuel : nat) : P node :=
  match fuel with
  | O => pfail
  | S f =>
    let pkid : P (key * node) :=
      let* k := phex in let* c := popt phex in let* n := pnode f in pret ((k, c), n) in
    let* t := ptok in
    if beqb t [110] then
      (let* d := pdata in let* df := pbool in let* wf := pbool in let* dirty := pbool in
       let* st := plist pkid in let* dc := plist pkid in let* dy := plist pkid in
       let* wc := plist pkid in let* wi := plist pkid in let* ec := plist pkid in let* en := plist pkid in
       pret (Node d st dc dy wc wi ec en df wf dirty))
    else pfail
  end.

Definition ppart : P part :=
  let* t := ptok in
  if beqb t [115] then (let* x := phex in pret (PS x))
  else if beqb t [100] then (let* n := phex in let* c := popt phex in pret (PD n c))
  else if beqb t [119] then (let* n := phex in let* c := popt phex in pret (PW n c))
  else pfail.

Definition pexpansion : P expansion := let* raw := phex in let* ps := plist ppart in pret (raw, ps).

Definition pparse_res : P (out (list expansion)) :=
  let* t := ptok in
  if beqb t (w "ok") then (let* es := plist pexpansion in pret (Ret es))
  else if beqb t (w "panic") then pret (Panic 0)
  else if beqb t (w "terr") then (let* e := pterr in pret (Err e))
  else pfail.

Definition pevent (fuel : nat) : P event :=
  let* t := ptok in
  if beqb t (w "new") then (let* r := pnum in pret (EvNew r))
  else if beqb t (w "newpanic") then (let* r := pnum in pret (EvNewPanic r))
  else if beqb t (w "clone") then (let* a := pnum in let* b := pnum in pret (EvClone a b))
  else if beqb t (w "constraint") then
    (let* r := pnum in let* n := phex in let* ty := phex in let* res := pconstraint_res in let* rd := phex in
     pret (EvConstraint r n ty res rd))
  else if beqb t (w "insert") then
    (let* r := pnum in let* tm := phex in let* d := pnum in let* res := pinsert_res in let* rd := phex in
     let* dump := pnode fuel in let* disp := phex in pret (EvInsert r tm d res rd dump disp))
  else if beqb t (w "delete") then
    (let* r := pnum in let* tm := phex in let* res := pdelete_res in let* rd := phex in
     let* dump := pnode fuel in let* disp := phex in pret (EvDelete r tm res rd dump disp))
  else if beqb t (w "search") then
    (let* r := pnum in let* p := phex in let* res := psearch_res in pret (EvSearch r p res))
  else if beqb t (w "dumpof") then
    (let* r := pnum in let* dump := pnode fuel in let* disp := phex in pret (EvDumpOf r dump disp))
  else if beqb t (w "same") then (let* a := pnum in let* b := pnum in pret (EvSame a b))
  else if beqb t (w "parse") then
    (let* tm := phex in let* res := pparse_res in let* rd := phex in pret (EvParse tm res rd))
  else if beqb t (w "builtin") then
    (let* n := phex in let* v := phex in let* a := pbool in let* b := pbool in pret (EvBuiltin n v a b))
  else if beqb t (w "oci") then
    (let* m := phex in let* u := phex in
     let* r := popt (let* h := phex in let* ps := plist pparam in pret (h, ps)) in pret (EvOci m u r))
  else if beqb t (w "arcs") then
    (let* v := plist (let* s := pnum in let* tm := phex in let* i := pnum in let* c := pnat in pret (AN s tm i c)) in
     pret (EvArcs v))
  else if beqb t (w "end") then pret EvEnd
  else pfail.

Definition parse_line (line : bytes) : option event :=
  let ts := tokens line in
  match pevent (S (length ts)) ts with
  | Some (e, []) => Some e
  | _ => None
  end.
