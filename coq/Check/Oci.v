(* Checker for the OCI example (C17): judges what the example's route table did with a URL against
   the endpoint specification, and replays it on model routers built from the regenerated table. *)
From Coq Require Import Ascii String.
From WF Require Import Base.Bytes Spec.Route Spec.Walk Spec.Oracles Spec.OciSpec.
From WF Require Import Model.Tree Model.Router Check.Tokens Check.Events Check.Checker Gen.Oci.

Definition NAME_C : bytes := Tokens.w "name".

(* constraint function of the example: the name grammar (the regex is tied to it by `ociname` lines) *)
Definition oci_chk (c v : bytes) : bool := if beqb c NAME_C then name_ok v else false.

Definition methods : list bytes := map Tokens.w ["GET"; "POST"; "PUT"; "DELETE"; "HEAD"; "OPTIONS"; "CONNECT"; "PATCH"; "TRACE"]%string.

(* model routers: one per method, routes inserted in table order; data = index into the table *)
Definition oci_router (m : bytes) : router :=
  let fix go (l : list (bytes * bytes * bytes)) (idx : N) (r : router) : router :=
    match l with
    | [] => r
    | (me, t, _) :: l' =>
      go l' (idx + 1)%N (if beqb me m then fst (rinsert r t idx) else r)
    end in
  go oci_routes 0%N (Router empty_node [(NAME_C, NAME_C)]).

Definition oci_routers : list (bytes * router) := map (fun m => (m, oci_router m)) methods.

Definition handler_of (idx : N) : bytes :=
  match nth_error oci_routes (N.to_nat idx) with Some (_, _, h) => h | None => [] end.

Definition expected_params (name : bytes) (sh : shape) (last : option bytes) : params :=
  match sh with
  | ShRoot => []
  | _ => (NAME_C, name) ::
         match last_param_name sh, last with Some n, Some v => [(n, v)] | _, _ => [] end
  end.

Definition shape_tag (sh : shape) : bytes :=
  Tokens.w match sh with
           | ShRoot => "/v2" | ShBlob => "/v2/<name>/blobs/<digest>" | ShManifest => "/v2/<name>/manifests/<reference>"
           | ShUploads => "/v2/<name>/blobs/uploads" | ShUpload => "/v2/<name>/blobs/uploads/<reference>"
           | ShTags => "/v2/<name>/tags/list" end%string.

Definition check_oci (method url : bytes) (real : option (bytes * params)) : list finding :=
  let rds := filter_map (fun x : shape * bytes * option bytes =>
               match spec_handler method (fst (fst x)) with
               | Some h => Some (x, h)
               | None => None end) (readings url) in
  let f_spec :=
    match real with
    | Some (h, ps) =>
      if existsb (fun xh : (shape * bytes * option bytes) * bytes =>
           beqb (snd xh) h
           && params_eqb ps (expected_params (snd (fst (fst xh))) (fst (fst (fst xh))) (snd (fst xh)))) rds
      then [] else [(FOci, [Tokens.w "wrong-handler-or-parameters"; method; url])]
    | None =>
      match rds with
      | [] => []
      | (x, _) :: _ => [(FOci, [Tokens.w "not-routed"; method; shape_tag (fst (fst x)); url])]
      end
    end in
  let f_model :=
    match List.find (fun mr : bytes * router => beqb (fst mr) method) oci_routers with
    | Some (_, r) =>
      let m := option_map (fun ip : info * params => (handler_of (i_data (fst ip)), snd ip)) (rsearch oci_chk r url) in
      match m, real with
      | None, None => []
      | Some (h, ps), Some (h', ps') => fl (beqb h h' && params_eqb ps ps') FOciModel [method; url]
      | _, _ => [(FOciModel, [method; url])]
      end
    | None => match real with None => [] | Some _ => [(FOciModel, [method; url])] end
    end in
  f_spec ++ f_model.

Definition poci : P (list finding) :=
  let* t := ptok in
  if beqb t (Tokens.w "oci") then
    (let* m := phex in let* u := phex in
     let* r := popt (let* h := phex in let* ps := plist pparam in pret (h, ps)) in
     pret (check_oci m u r))
  else if beqb t (Tokens.w "e2e") then
    (* end to end through the example's own server: a bare 404/405 (no content type) is the ROUTER's "no route";
       every handler answers with another status or a JSON error body *)
    (let* m := ptok in let* u := phex in let* status := pnum in let* ct := pbool in let* _ := pnum in
     let real_routed := negb (((N.eqb status 404%N) || (N.eqb status 405%N)) && negb ct) in
     let model_routed :=
       match List.find (fun mr : bytes * router => beqb (fst mr) m) oci_routers with
       | Some (_, r) => match rsearch oci_chk r u with Some _ => true | None => false end
       | None => false
       end in
     pret (fl (Bool.eqb real_routed model_routed) FOciE2E [m; u]))
  else if beqb t (Tokens.w "e2e-fail") then
    (let* m := ptok in let* u := phex in pret [(FOciE2E, [m; u])])
  else if beqb t (Tokens.w "e2e-skip") then (let* _ := ptok in let* _ := phex in pret [])
  else if beqb t (Tokens.w "ociname") then
    (let* v := phex in let* b := pbool in pret (fl (Bool.eqb b (name_ok v)) FOciName [v]))
  else pfail.

Definition oci_step (line : bytes) : list finding :=
  match poci (tokens line) with
  | Some (fs, []) => fs
  | _ => [(FBadLine, [line])]
  end.

(* obligations on the regenerated table *)
Definition oci_table_wf : bool :=
  Nat.eqb oci_route_calls (length oci_routes)
  && match oci_constraint_name with Some n => beqb n NAME_C | None => false end
  && oci_check_is_regex_match
  && forallb (fun mth : bytes * bytes * bytes => existsb (beqb (fst (fst mth))) methods) oci_routes.
