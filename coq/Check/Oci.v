(* placeholder for the OCI checker, filled in later *)
From WF Require Import Base.Bytes Check.Checker.
Definition oci_step (line : bytes) : list finding := [].
