(* The checker: replays every recorded observation on the model (one step from the real
   pre-state), and judges the implementation's outputs with the specification oracles. *)
From Coq Require Import Ascii String.
From WF Require Import Base.Bytes Base.Utf8 Spec.Route Spec.Walk Spec.Grammar Spec.Oracles Spec.Registry Spec.Inv.
From WF Require Import Model.Tree Model.Parser Model.Ops Model.Router Model.Display Model.Render Model.Constraints Model.Arcs Model.SearchC Model.OpsC.
From WF Require Import Check.Tokens Check.Events.

Inductive fkind :=
| FBadLine | FPanic
| FOpsInsert | FOpsDelete | FOpsConstraint | FOpsSearch | FTree | FFlags | FDisplay
| FRenderInsert | FRenderDelete | FRenderConstraint | FRenderParse | FRenderField
| FParse | FGrammar | FErrOk
| FInv | FCanonical | FRoutes
| FWalkGenuine | FWalkMissed | FWalkPriority | FGreedy
| FSpecInsert | FSpecDelete | FSpecConstraint
| FNoop | FRoundtrip | FInterfere | FNotRouted | FSame | FDumpOf
| FBuiltin | FOci | FOciModel | FOciName | FUnknownRouter | FArcs | FSplitChar | FIndexSearch | FOciE2E | FIndexOps.

Definition finding := (fkind * list bytes)%type.

(* ---- structural equality ---- *)
Definition oinfo_eqb (a b : option info) : bool :=
  match a, b with
  | None, None => true
  | Some x, Some y => info_eqb x y
  | _, _ => false
  end.

Fixpoint node_eqb (a b : node) {struct a} : bool :=
  let kids_eqb :=
    fix go (l : list (key * node)) (m : list (key * node)) : bool :=
      match l, m with
      | [], [] => true
      | x :: l', y :: m' => keqb (fst x) (fst y) && node_eqb (snd x) (snd y) && go l' m'
      | _, _ => false
      end in
  oinfo_eqb (n_data a) (n_data b)
  && kids_eqb (n_st a) (n_st b) && kids_eqb (n_dc a) (n_dc b) && kids_eqb (n_dy a) (n_dy b)
  && kids_eqb (n_wc a) (n_wc b) && kids_eqb (n_wi a) (n_wi b)
  && kids_eqb (n_ec a) (n_ec b) && kids_eqb (n_en a) (n_en b).

Fixpoint flags_eqb (a b : node) {struct a} : bool :=
  let kids_eqb :=
    fix go (l : list (key * node)) (m : list (key * node)) : bool :=
      match l, m with
      | [], [] => true
      | x :: l', y :: m' => flags_eqb (snd x) (snd y) && go l' m'
      | _, _ => false
      end in
  Bool.eqb (n_dflag a) (n_dflag b) && Bool.eqb (n_wflag a) (n_wflag b) && Bool.eqb (n_dirty a) (n_dirty b)
  && kids_eqb (n_st a) (n_st b) && kids_eqb (n_dc a) (n_dc b) && kids_eqb (n_dy a) (n_dy b)
  && kids_eqb (n_wc a) (n_wc b) && kids_eqb (n_wi a) (n_wi b)
  && kids_eqb (n_ec a) (n_ec b) && kids_eqb (n_en a) (n_en b).

Definition nat_list_eqb (a b : list nat) : bool :=
  (fix go (a b : list nat) := match a, b with
     | [], [] => true | x :: a', y :: b' => Nat.eqb x y && go a' b' | _, _ => false end) a b.

Definition terr_key (e : terr) : N * list bytes * list nat :=
  match e with
  | EEmpty => (0, [], [])
  | EMissingLeadingSlash t => (1, [t], [])
  | EEmptyBraces t p => (2, [t], [p])
  | EUnbalancedBrace t p => (3, [t], [p])
  | EEmptyParentheses t p => (4, [t], [p])
  | EUnbalancedParenthesis t p => (5, [t], [p])
  | EEmptyParameter t s l => (6, [t], [s; l])
  | EInvalidParameter t n s l => (7, [t; n], [s; l])
  | EDuplicateParameter t n f fl s sl => (8, [t; n], [f; fl; s; sl])
  | EEmptyWildcard t s l => (9, [t], [s; l])
  | EEmptyConstraint t s l => (10, [t], [s; l])
  | EInvalidConstraint t n s l => (11, [t; n], [s; l])
  | ETouchingParameters t s l => (12, [t], [s; l])
  end%N.
Definition key3_eqb (a b : N * list bytes * list nat) : bool :=
  N.eqb (fst (fst a)) (fst (fst b)) && list_beqb (snd (fst a)) (snd (fst b)) && nat_list_eqb (snd a) (snd b).
Definition terr_eqb (a b : terr) : bool := key3_eqb (terr_key a) (terr_key b).

Definition ierr_eqb (a b : insert_err) : bool :=
  match a, b with
  | IETemplate x, IETemplate y => terr_eqb x y
  | IEConflict t cs, IEConflict t' cs' => beqb t t' && list_beqb cs cs'
  | IEUnknownConstraint c, IEUnknownConstraint c' => beqb c c'
  | _, _ => false
  end.
Definition derr_eqb (a b : delete_err) : bool :=
  match a, b with
  | DETemplate x, DETemplate y => terr_eqb x y
  | DENotFound t, DENotFound t' => beqb t t'
  | DEMismatch t i, DEMismatch t' i' => beqb t t' && beqb i i'
  | _, _ => false
  end.
Definition cerr_eqb (a b : constraint_err) : bool :=
  match a, b with
  | CEDuplicateName n e t, CEDuplicateName n' e' t' => beqb n n' && beqb e e' && beqb t t'
  end.
Definition result_eqb {E A} (ee : E -> E -> bool) (ae : A -> A -> bool) (a b : result E A) : bool :=
  match a, b with
  | ROk x, ROk y => ae x y
  | RErr x, RErr y => ee x y
  | RPanic _, RPanic _ => true
  | _, _ => false
  end.

Definition part_eqb (a b : part) : bool :=
  match a, b with
  | PS x, PS y => beqb x y
  | PD n c, PD m d => beqb n m && obeqb c d
  | PW n c, PW m d => beqb n m && obeqb c d
  | _, _ => false
  end.
Fixpoint parts_eqb (a b : list part) : bool :=
  match a, b with
  | [], [] => true
  | x :: a', y :: b' => part_eqb x y && parts_eqb a' b'
  | _, _ => false
  end.
Fixpoint exps_eqb (a b : list expansion) : bool :=
  match a, b with
  | [], [] => true
  | x :: a', y :: b' => beqb (fst x) (fst y) && parts_eqb (snd x) (snd y) && exps_eqb a' b'
  | _, _ => false
  end.
Definition out_eqb (a b : out (list expansion)) : bool :=
  match a, b with
  | Ret x, Ret y => exps_eqb x y
  | Err x, Err y => terr_eqb x y
  | Panic _, Panic _ => true
  | _, _ => false
  end.

Definition params_eqb (a b : params) : bool :=
  list_beqb (map fst a) (map fst b) && list_beqb (map snd a) (map snd b).

Definition sres_of (r : res) : sres :=
  option_map (fun ip : info * params => (i_template (fst ip), i_expanded (fst ip), i_data (fst ip), snd ip)) r.
Definition sres_eqb (a b : sres) : bool :=
  match a, b with
  | None, None => true
  | Some (t, e, d, ps), Some (t', e', d', ps') => beqb t t' && obeqb e e' && N.eqb d d' && params_eqb ps ps'
  | _, _ => false
  end.

(* is [needle] an infix of [hay] *)
Fixpoint infix_b (needle hay : bytes) : bool :=
  match starts_with needle hay with
  | Some _ => true
  | None => match hay with [] => false | _ :: hay' => infix_b needle hay' end
  end.

(* routes as a set with infos: every route of a occurs in b with the same info and conversely *)
Definition routes_sub (a b : routes) : bool :=
  forallb (fun x : route * info =>
    existsb (fun y : route * info => route_eqb (fst x) (fst y) && info_eqb (snd x) (snd y)) b) a.
Definition routes_same (a b : routes) : bool :=
  Nat.eqb (length a) (length b) && routes_sub a b && routes_sub b a.

(* ---- C14: the error names a fault that is really present ---- *)
Definition slice_b (s : bytes) (a l : nat) : option bytes :=
  if Nat.leb (a + l) (length s) then Some (firstn l (skipn a s)) else None.

(* positions of unmatched parentheses (escape aware) *)
Fixpoint unmatched_parens (fuel : nat) (s : bytes) (pos : nat) (stack : list nat) : list nat :=
  match fuel with
  | O => []
  | S f =>
    match s with
    | [] => stack
    | c :: s' =>
      if N.eqb c BSL then match s' with _ :: s'' => unmatched_parens f s'' (pos + 2) stack | [] => stack end
      else if N.eqb c LP then unmatched_parens f s' (S pos) (pos :: stack)
      else if N.eqb c RP then
        match stack with
        | _ :: st' => unmatched_parens f s' (S pos) st'
        | [] => pos :: unmatched_parens f s' (S pos) []
        end
      else unmatched_parens f s' (S pos) stack
    end
  end.

(* is position pos (a parenthesis) outside every escape pair *)
Fixpoint unescaped_at (fuel : nat) (s : bytes) (cur pos : nat) : bool :=
  match fuel with
  | O => false
  | S f =>
    match s with
    | [] => false
    | c :: s' =>
      if Nat.eqb cur pos then true
      else if N.eqb c BSL then match s' with _ :: s'' => if Nat.eqb (S cur) pos then false else unescaped_at f s'' (cur + 2) pos | [] => false end
      else unescaped_at f s' (S cur) pos
    end
  end.

(* first brace fault of an expansion: scan literal text escape-aware, skip matched brace pairs *)
Fixpoint first_brace_fault (fuel : nat) (s : bytes) (pos : nat) : option nat :=
  match fuel with
  | O => None
  | S f =>
    match s with
    | [] => None
    | c :: s' =>
      if N.eqb c BSL then match s' with _ :: s'' => first_brace_fault f s'' (pos + 2) | [] => None end
      else if N.eqb c RB then Some pos
      else if N.eqb c LB then
        match brace_content s' 0 with
        | None => Some pos
        | Some (content, rest) => first_brace_fault f rest (pos + 2 + length content)
        end
      else first_brace_fault f s' (S pos)
    end
  end.

(* the brace-delimited parameter starting at position a: (its length, content) *)
Definition param_at (s : bytes) (a : nat) : option (nat * bytes) :=
  match skipn a s with
  | c :: s' => if N.eqb c LB then
                 match brace_content s' 0 with
                 | Some (content, _) => Some (2 + length content, content)
                 | None => None end
               else None
  | [] => None
  end.
Definition content_name (content : bytes) : bytes :=
  let n := fst (split_colon content) in if hd_is STAR n then tl n else n.

Definition err_ok_b (input : bytes) (e : terr) : bool :=
  let is_exp (t : bytes) := match expansions_spec input with Some es => existsb (beqb t) es | None => false end in
  match e with
  | EEmpty => is_nil input
  | EMissingLeadingSlash t => is_exp t && negb (hd_is SL t)
  | EEmptyBraces t p => is_exp t && match slice_b t p 2 with Some s => beqb s [LB; RB] | None => false end
  | EUnbalancedBrace t p =>
    is_exp t && match first_brace_fault (S (length t)) t 0 with Some q => Nat.eqb p q | None => false end
  | EEmptyParentheses t p =>
    beqb t input && match slice_b t p 2 with Some s => beqb s [LP; RP] | None => false end
    && unescaped_at (S (length t)) t 0 p
  | EUnbalancedParenthesis t p =>
    beqb t input && existsb (Nat.eqb p) (unmatched_parens (S (length t)) t 0 [])
  | EEmptyParameter t s l =>
    is_exp t && match param_at t s with
                | Some (l', content) => Nat.eqb l l' && is_nil (fst (split_colon content)) && negb (is_nil content)
                | None => false end
  | EInvalidParameter t n s l =>
    is_exp t && match param_at t s with
                | Some (l', content) => Nat.eqb l l' && beqb (content_name content) n && existsb invalid_name_char n
                | None => false end
  | EDuplicateParameter t n f fl s sl =>
    is_exp t && Nat.leb (f + fl) s
    && match param_at t f, param_at t s with
       | Some (l1, c1), Some (l2, c2) =>
         Nat.eqb l1 fl && Nat.eqb l2 sl && beqb (content_name c1) n && beqb (content_name c2) n
       | _, _ => false end
  | EEmptyWildcard t s l =>
    is_exp t && match param_at t s with
                | Some (l', content) => Nat.eqb l l' && beqb (fst (split_colon content)) [STAR]
                | None => false end
  | EEmptyConstraint t s l =>
    is_exp t && match param_at t s with
                | Some (l', content) => Nat.eqb l l' && match snd (split_colon content) with Some [] => true | _ => false end
                | None => false end
  | EInvalidConstraint t n s l =>
    is_exp t && match param_at t s with
                | Some (l', content) =>
                  Nat.eqb l l' && match snd (split_colon content) with Some c => beqb c n && existsb invalid_name_char n | None => false end
                | None => false end
  | ETouchingParameters t s l =>
    is_exp t && match param_at t s with
                | Some (l1, _) => match param_at t (s + l1) with
                                  | Some (l2, _) => Nat.eqb l (l1 + l2)
                                  | None => false end
                | None => false end
  end.

(* fields every rendered template error must show: the template and a caret line *)
Definition terr_template (e : terr) : bytes :=
  match e with
  | EEmpty => []
  | EMissingLeadingSlash t | EEmptyBraces t _ | EUnbalancedBrace t _ | EEmptyParentheses t _
  | EUnbalancedParenthesis t _ | EEmptyParameter t _ _ | EInvalidParameter t _ _ _
  | EDuplicateParameter t _ _ _ _ _ | EEmptyWildcard t _ _ | EEmptyConstraint t _ _
  | EInvalidConstraint t _ _ _ | ETouchingParameters t _ _ => t
  end.
Definition TEMPLATE_LABEL : bytes := w "    Template: ".
Definition CARET_INDENT : bytes := w "              ".
Definition terr_caret (e : terr) : option (nat * nat) :=
  match e with
  | EEmptyBraces _ p | EEmptyParentheses _ p => Some (p, 2)
  | EUnbalancedBrace _ p | EUnbalancedParenthesis _ p => Some (p, 1)
  | EEmptyParameter _ s l | EInvalidParameter _ _ s l | EEmptyWildcard _ s l
  | EEmptyConstraint _ s l | EInvalidConstraint _ _ s l | ETouchingParameters _ s l => Some (s, l)
  | _ => None
  end.
(* the rendered message shows "Template: <t>" and, on the next line, exactly pos spaces and len carets *)
Definition terr_render_ok (e : terr) (rendered : bytes) : bool :=
  match e with
  | EEmpty => true
  | _ =>
    let t := terr_template e in
    match terr_caret e with
    | Some (p, l) =>
      infix_b (TEMPLATE_LABEL ++ t ++ NL ++ CARET_INDENT ++ repeat 32%N p ++ repeat 94%N l) rendered
      && negb (infix_b (TEMPLATE_LABEL ++ t ++ NL ++ CARET_INDENT ++ repeat 32%N p ++ repeat 94%N (S l)) rendered)
    | None => infix_b (TEMPLATE_LABEL ++ t) rendered
    end
  end.

(* ---- per-router checker state ---- *)
Record rst := Rst {
  rs_dump : node;                       (* last dump of the real tree *)
  rs_disp : bytes;                      (* last real Display *)
  rs_cons : list (bytes * bytes);       (* registered constraints: name, type name *)
  rs_live : live;                       (* live templates by the specified semantics *)
  rs_undo : option (bytes * node * bytes);      (* last op: successful insert of t; dump, display before it *)
  rs_before : option (bool * bytes * list (bytes * sres)); (* last successful mutation (insert?, t) and the searches before it *)
  rs_searches : list (bytes * sres);    (* searches since the last mutation *)
  rs_same : option (bool * list (bytes * sres)) }.
  (* answers this state must reproduce: (true, searches before an insert that has just been deleted again)
     or (false, searches before a call that returned an error) *)

Definition state := list (N * rst).

Fixpoint get_r (s : state) (rid : N) : option rst :=
  match s with
  | [] => None
  | (r, x) :: s' => if N.eqb r rid then Some x else get_r s' rid
  end.
Fixpoint set_r (s : state) (rid : N) (x : rst) : state :=
  match s with
  | [] => [(rid, x)]
  | (r, y) :: s' => if N.eqb r rid then (rid, x) :: s' else (r, y) :: set_r s' rid x
  end.

Definition BUILTIN_NAMES : list bytes :=
  map w ["u8"; "u16"; "u32"; "u64"; "u128"; "usize"; "i8"; "i16"; "i32"; "i64"; "i128"; "isize";
         "f32"; "f64"; "bool"; "ipv4"; "ipv6"]%string.
Definition BUILTIN_TYPES : list bytes :=
  map w ["u8"; "u16"; "u32"; "u64"; "u128"; "usize"; "i8"; "i16"; "i32"; "i64"; "i128"; "isize";
         "f32"; "f64"; "bool"; "core::net::ip_addr::Ipv4Addr"; "core::net::ip_addr::Ipv6Addr"]%string.
Definition new_rst : rst := Rst empty_node [] (combine BUILTIN_NAMES BUILTIN_TYPES) [] None None [] None.

Definition fl (c : bool) (k : fkind) (d : list bytes) : list finding := if c then [] else [(k, d)].

Definition registered_b (cons : list (bytes * bytes)) (c : bytes) : bool :=
  existsb (fun nt : bytes * bytes => beqb (fst nt) c) cons.

(* checks on a post-state dump that do not depend on the operation *)
(* C15: printed label paths (Display decodes every literal key on its own) that differ from the stored bytes *)
Definition split_char_paths (dump : node) : list bytes :=
  map fst (filter (fun pr : bytes * bytes => negb (beqb (fst pr) (snd pr)))
                  (combine (map fst (spell node_label dump [])) (map fst (spell raw_label dump [])))).

Definition check_dump (lv : live) (dump : node) (disp : bytes) : list finding :=
  fl (inv_b dump) FInv []
  ++ fl (wf dump && tidy dump) FInv []
  ++ fl (canonical_b dump) FCanonical []
  ++ fl (routes_same (routes_of dump) (live_routes lv)) FRoutes []
  ++ fl (beqb (display dump) disp) FDisplay [display dump; disp]
  ++ match split_char_paths dump with [] => [] | x :: _ => [(FSplitChar, [x])] end.

Definition single_group_free (lv : live) : option route :=
  match lv with
  | [(t, d)] => match template_routes t d with Some [(r, _)] => Some r | _ => None end
  | _ => None
  end.

Definition check_search (x : rst) (path : bytes) (r : sres) : list finding :=
  let m := sres_of (search (cfun_of (rs_cons x)) (rs_dump x) path) in
  let wres := W (cfun_of (rs_cons x)) (live_routes (rs_live x)) path in
  let wr := sres_of wres in
  fl (sres_eqb m r) FOpsSearch [path]
  (* the index-level search (Model/SearchC.v) on the real tree: same answer, no out-of-range index, slice or unwrap *)
  ++ fl (match search_c (rs_cons x) (rs_dump x) path with Ret mc => sres_eqb (sres_of mc) r | _ => false end) FIndexSearch [path]
  ++ (if sres_eqb wr r then [] else
      match r with
      | Some (t, e, d, ps) =>
        if existsb (fun ri : route * info =>
             beqb (i_template (snd ri)) t && obeqb (i_expanded (snd ri)) e && N.eqb (i_data (snd ri)) d
             && list_beqb (param_names (fst ri)) (map fst ps)
             && fits_with (cfun_of (rs_cons x)) (fst ri) path (map snd ps)) (live_routes (rs_live x))
        then [(FWalkPriority, [path])] else [(FWalkGenuine, [path])]
      | None => if any_fits_b (cfun_of (rs_cons x)) (live_routes (rs_live x)) path then [(FWalkMissed, [path])]
                else [(FWalkPriority, [path])]
      end)
  ++ (match single_group_free (rs_live x), r with
      | Some route, Some (_, _, _, ps) => fl (leftmost_longest_b (cfun_of (rs_cons x)) route path (map snd ps)) FGreedy [path]
      | _, _ => []
      end)
  ++ (match rs_before x with
      | Some (ins, t, olds) =>
        match List.find (fun pr : bytes * sres => beqb (fst pr) path) olds with
        | Some (_, old) =>
          if tfits_b (cfun_of (rs_cons x)) t path
          then (if ins then fl (match r with Some _ => true | None => false end) FNotRouted [t; path] else [])
          else fl (sres_eqb old r) FInterfere [t; path]
        | None => []
        end
      | None => []
      end)
  ++ (match rs_same x with
      | Some (rt, olds) =>
        match List.find (fun pr : bytes * sres => beqb (fst pr) path) olds with
        | Some (_, old) => fl (sres_eqb old r) (if rt then FRoundtrip else FNoop) [path]
        | None => []
        end
      | None => []
      end).

Definition check_insert (x : rst) (t : bytes) (d : N) (r : result insert_err unit) (rendered : bytes)
           (dump : node) (disp : bytes) : rst * list finding :=
  let pre := Router (rs_dump x) (rs_cons x) in
  let '(m', mres) := rinsert pre t d in
  let spec := insert_spec (rs_live x) (registered_b (rs_cons x)) t in
  let ok := match r with ROk _ => true | _ => false end in
  let lv' := if ok then rs_live x ++ [(t, d)] else rs_live x in
  let f_spec :=
    match spec, r with
    | ISMalformed, RErr (IETemplate _) => []
    | ISUnknown cs, RErr (IEUnknownConstraint c) => fl (existsb (beqb c) cs) FSpecInsert [t]
    | ISConflict cs, RErr (IEConflict t' cs') => fl (beqb t t' && list_beqb cs cs') FSpecInsert [t]
    | ISOk, ROk _ => []
    | _, RPanic _ => []
    | _, _ => [(FSpecInsert, [t])]
    end in
  let f_render :=
    match r with
    | RErr e =>
      fl (beqb (render_insert_err e) rendered) FRenderInsert [rendered]
      ++ match e with
         | IETemplate te => fl (terr_render_ok te rendered) FRenderField [rendered]
         | IEConflict t' cs => fl (infix_b t' rendered && forallb (fun c => infix_b c rendered) cs) FRenderField [rendered]
         | IEUnknownConstraint c => fl (infix_b c rendered) FRenderField [rendered]
         end
      ++ match e with IETemplate te => fl (err_ok_b t te) FErrOk [t] | _ => [] end
    | _ => []
    end in
  let fs :=
    match r with RPanic _ => [(FPanic, [t])] | _ => [] end
    ++ fl (result_eqb ierr_eqb (fun _ _ => true) mres r) FOpsInsert [t]
    ++ (let '(mc', mcres) := rinsert_c pre t d in
        fl (result_eqb ierr_eqb (fun _ _ => true) mcres r && node_eqb (r_root mc') dump && flags_eqb (r_root mc') dump) FIndexOps [t])
    ++ f_spec ++ f_render
    ++ fl (node_eqb (r_root m') dump) FTree [t]
    ++ fl (flags_eqb (r_root m') dump) FFlags [t]
    ++ check_dump lv' dump disp
    ++ (if ok then [] else fl (node_eqb (rs_dump x) dump && beqb (rs_disp x) disp) FNoop [t]) in
  (Rst dump disp (rs_cons x) lv'
       (if ok then Some (t, rs_dump x, rs_disp x) else None)
       (if ok then Some (true, t, rs_searches x) else rs_before x)
       (if ok then [] else rs_searches x)
       (if ok then None else Some (false, rs_searches x)), fs).

Definition check_delete (x : rst) (t : bytes) (r : result delete_err N) (rendered : bytes)
           (dump : node) (disp : bytes) : rst * list finding :=
  let pre := Router (rs_dump x) (rs_cons x) in
  let '(m', mres) := rdelete pre t in
  let spec := delete_spec (rs_live x) t in
  let ok := match r with ROk _ => true | _ => false end in
  let lv' := if ok then live_remove (rs_live x) t else rs_live x in
  let f_spec :=
    match spec, r with
    | DSMalformed, RErr (DETemplate _) => []
    | DSOk d, ROk d' => fl (N.eqb d d') FSpecDelete [t]
    | DSMismatch os, RErr (DEMismatch t' i) => fl (beqb t t' && existsb (beqb i) os) FSpecDelete [t]
    | DSNotFound, RErr (DENotFound t') => fl (beqb t t') FSpecDelete [t]
    | _, RPanic _ => []
    | _, _ => [(FSpecDelete, [t])]
    end in
  let f_render :=
    match r with
    | RErr e =>
      fl (beqb (render_delete_err e) rendered) FRenderDelete [rendered]
      ++ match e with
         | DETemplate te => fl (terr_render_ok te rendered) FRenderField [rendered]
         | DENotFound t' => fl (infix_b t' rendered) FRenderField [rendered]
         | DEMismatch t' i => fl (infix_b t' rendered && infix_b i rendered) FRenderField [rendered]
         end
      ++ match e with DETemplate te => fl (err_ok_b t te) FErrOk [t] | _ => [] end
    | _ => []
    end in
  let f_round :=
    match rs_undo x, ok with
    | Some (t0, d0, s0), true =>
      if beqb t0 t then fl (node_eqb d0 dump && beqb s0 disp) FRoundtrip [t] else []
    | _, _ => []
    end in
  let fs :=
    match r with RPanic _ => [(FPanic, [t])] | _ => [] end
    ++ fl (result_eqb derr_eqb N.eqb mres r) FOpsDelete [t]
    ++ (let '(mc', mcres) := rdelete_c pre t in
        fl (result_eqb derr_eqb N.eqb mcres r && node_eqb (r_root mc') dump && flags_eqb (r_root mc') dump) FIndexOps [t])
    ++ f_spec ++ f_render ++ f_round
    ++ fl (node_eqb (r_root m') dump) FTree [t]
    ++ fl (flags_eqb (r_root m') dump) FFlags [t]
    ++ check_dump lv' dump disp
    ++ (if ok then [] else fl (node_eqb (rs_dump x) dump && beqb (rs_disp x) disp) FNoop [t]) in
  (Rst dump disp (rs_cons x) lv' None
       (if ok then Some (false, t, rs_searches x) else rs_before x)
       (if ok then [] else rs_searches x)
       (if ok
        then match rs_undo x, rs_before x with
             | Some (t0, _, _), Some (true, t1, olds) => if beqb t0 t && beqb t1 t then Some (true, olds) else None
             | _, _ => None
             end
        else Some (false, rs_searches x)), fs).

Definition check_constraint (x : rst) (name ty : bytes) (r : result constraint_err unit) (rendered : bytes)
  : rst * list finding :=
  let pre := Router (rs_dump x) (rs_cons x) in
  let '(m', mres) := rconstraint pre name ty in
  let fs :=
    match r with RPanic _ => [(FPanic, [name])] | _ => [] end
    ++ fl (result_eqb cerr_eqb (fun _ _ => true) mres r) FOpsConstraint [name]
    ++ match r with
       | RErr (CEDuplicateName n e nw as ce) =>
         fl (registered_b (rs_cons x) name && beqb n name && beqb nw ty
             && existsb (fun nt : bytes * bytes => beqb (fst nt) name && beqb (snd nt) e) (rs_cons x)) FSpecConstraint [name]
         ++ fl (beqb (render_constraint_err ce) rendered) FRenderConstraint [rendered]
         ++ fl (infix_b n rendered && infix_b e rendered && infix_b nw rendered) FRenderField [rendered]
       | ROk _ => fl (negb (registered_b (rs_cons x) name)) FSpecConstraint [name]
       | RPanic _ => []
       end in
  (Rst (rs_dump x) (rs_disp x) (match r with ROk _ => rs_cons x ++ [(name, ty)] | _ => rs_cons x end)
       (rs_live x) (rs_undo x) (rs_before x) (rs_searches x) None, fs).

Definition check_parse (t : bytes) (r : out (list expansion)) (rendered : bytes) : list finding :=
  let m := parse t in
  match r with Panic _ => [(FPanic, [t])] | _ => [] end
  ++ fl (out_eqb m r) FParse [t]
  ++ match r, template_spec t with
     | Ret es, Some sp => fl (exps_eqb es sp) FGrammar [t]
     | Err _, None => []
     | Panic _, _ => []
     | _, _ => [(FGrammar, [t])]
     end
  ++ match r with
     | Err e => fl (err_ok_b t e) FErrOk [t]
                ++ fl (beqb (render_terr e) rendered) FRenderParse [rendered]
                ++ fl (terr_render_ok e rendered) FRenderField [rendered]
     | _ => []
     end.

Definition step (s : state) (e : event) : state * list finding :=
  match e with
  | EvNew rid => (set_r s rid new_rst, [])
  | EvNewPanic rid => (s, [(FPanic, [])])         (* Router::new() unwound *)
  | EvClone a b =>
    match get_r s a with
    | Some x => (set_r s b x, [])
    | None => (s, [(FUnknownRouter, [])])
    end
  | EvConstraint rid n ty r rd =>
    match get_r s rid with
    | Some x => let '(x', fs) := check_constraint x n ty r rd in (set_r s rid x', fs)
    | None => (s, [(FUnknownRouter, [])])
    end
  | EvInsert rid t d r rd dump disp =>
    match get_r s rid with
    | Some x => let '(x', fs) := check_insert x t d r rd dump disp in (set_r s rid x', fs)
    | None => (s, [(FUnknownRouter, [])])
    end
  | EvDelete rid t r rd dump disp =>
    match get_r s rid with
    | Some x => let '(x', fs) := check_delete x t r rd dump disp in (set_r s rid x', fs)
    | None => (s, [(FUnknownRouter, [])])
    end
  | EvSearch rid p r =>
    match get_r s rid with
    | Some x =>
      match r with
      | SPanic => (s, [(FPanic, [p])])
      | SRes r =>
        (set_r s rid (Rst (rs_dump x) (rs_disp x) (rs_cons x) (rs_live x) (rs_undo x) (rs_before x)
                          ((p, r) :: rs_searches x) (rs_same x)),
         check_search x p r)
      end
    | None => (s, [(FUnknownRouter, [])])
    end
  | EvDumpOf rid dump disp =>
    match get_r s rid with
    | Some x => (s, fl (node_eqb (rs_dump x) dump && flags_eqb (rs_dump x) dump && beqb (rs_disp x) disp) FDumpOf [])
    | None => (s, [(FUnknownRouter, [])])
    end
  | EvSame a b =>
    match get_r s a, get_r s b with
    | Some x, Some y =>
      let sub (a b : live) := forallb (fun td : bytes * N => existsb (fun td' : bytes * N => beqb (fst td) (fst td') && N.eqb (snd td) (snd td')) b) a in
      if sub (rs_live x) (rs_live y) && sub (rs_live y) (rs_live x)
      then (s, fl (node_eqb (rs_dump x) (rs_dump y) && beqb (rs_disp x) (rs_disp y)) FSame [rs_disp x; rs_disp y])
      else (s, [])
    | _, _ => (s, [(FUnknownRouter, [])])
    end
  | EvParse t r rd => (s, check_parse t r rd)
  | EvBuiltin n v a b => (s, fl (Bool.eqb a b) FBuiltin [n; v])
  | EvOci _ _ _ => (s, [])
  | EvArcs _ => (s, [])
  | EvEnd => ([], [])
  end.

(* ---- the family level: reference counts of the shared data (Model/Arcs.v) ---- *)
Record fstate := FSt {
  fs_routers : state;
  fs_arcs : aview;              (* the implementation's last view *)
  fs_pending : aop;             (* what the call since then does to it, by the model *)
  fs_ret : option bool }.       (* for a delete that reached the removal loop: did it hand the data back? *)
Definition init_fstate : fstate := FSt [] [] ANop None.

Definition shared_nodes (t : bytes) (n : node) : nat :=
  length (filter (fun ri : route * info =>
                    beqb (i_template (snd ri)) t && match i_expanded (snd ri) with Some _ => true | None => false end)
                 (routes_of n)).

Definition pending_of (s : state) (e : event) : option (aop * option bool) :=
  match e with
  | EvNew rid => Some (ANew rid, None)
  | EvClone a b => Some (AClone a b, None)
  | EvInsert rid t _ r _ dump _ =>
    Some (match r with
          | ROk _ => match shared_nodes t dump with O => ANop | k => AIns rid t k end
          | _ => ANop
          end, None)
  | EvDelete rid t r _ _ _ =>
    match get_r s rid with
    | Some x =>
      match delete_spec (rs_live x) t with
      | DSOk _ => Some (ADel rid t, Some (match r with ROk _ => true | _ => false end))
      | _ => Some (ANop, None)
      end
    | None => Some (ANop, None)
    end
  | _ => None
  end.

Definition check_arcs (pre : aview) (o : aop) (ret : option bool) (post : aview) : list finding :=
  fl (same_shape (astep pre o) post) FArcs []
  ++ fl (own_b post) FArcs []
  ++ match o, ret with
     | ADel s t, Some real =>
       if existsb (at_tmpl s t) pre then fl (Bool.eqb (a_del_returns s t pre) real) FArcs [t] else []
     | _, _ => []
     end.

Definition step2 (S : fstate) (e : event) : fstate * list finding :=
  match e with
  | EvArcs post => (FSt (fs_routers S) post ANop None, check_arcs (fs_arcs S) (fs_pending S) (fs_ret S) post)
  | EvEnd => (init_fstate, [])
  | _ =>
    let pend := pending_of (fs_routers S) e in
    let '(s', fs) := step (fs_routers S) e in
    (match pend with
     | Some (o, r) => FSt s' (fs_arcs S) o r
     | None => FSt s' (fs_arcs S) (fs_pending S) (fs_ret S)
     end, fs)
  end.

Definition step_line (S : fstate) (line : bytes) : fstate * list finding :=
  match parse_line line with
  | Some e => step2 S e
  | None => (S, [(FBadLine, [line])])
  end.

(* statistics for the evidence: for a search line (number of live routes that fit, number of
   returned parameters, number of live templates) *)
Definition line_stats (S : fstate) (line : bytes) : option (N * N * N) :=
  let s := fs_routers S in
  match parse_line line with
  | Some (EvSearch rid p (SRes r)) =>
    match get_r s rid with
    | Some x =>
      Some (N.of_nat (length (filter (fun ri : route * info => fits_b (cfun_of (rs_cons x)) (fst ri) p) (live_routes (rs_live x)))),
            match r with Some (_, _, _, ps) => N.of_nat (length ps) | None => 0%N end,
            N.of_nat (length (rs_live x)))
    | None => None
    end
  | _ => None
  end.
