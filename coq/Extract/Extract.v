(* Extraction of the checker (model + specification oracles) to OCaml.
   ExtrOcamlBasic only: bool, option, list, prod, unit, sumbool map to OCaml's own types;
   N, positive, nat, Z, ascii, string stay Coq datatypes.  No Extract Constant. *)
From Coq Require Import Extraction ExtrOcamlBasic.
From WF Require Import Check.Checker Check.Oci.
Extraction Language OCaml.
Extraction "../ocaml/wf_model.ml" step_line line_stats oci_step init_fstate.
