(* C15 - the printed tree is the canonical compressed radix tree.  Statements only.
   Proved for every router the model reaches by any history: the canonical shape canonical_b of Spec/Inv.v
   (root without data holding at most one child, a literal starting with '/'; below it no empty node, every
   leaf marked, no compressible literal node, literal siblings with different first bytes, every sibling
   list strictly sorted), and "the routes of the tree are exactly the expansions of the live templates"
   (Properties/C05.v, C08.v: Abs).  Not proved: the printer itself (Display text = Model.display of the tree,
   kinds printed in the documented order); that is decided by the Display channel on every real dump. *)
From WF Require Import Base.Bytes Spec.Route Spec.Walk Model.Tree Model.Router Spec.Inv.
From WF Require Import Proofs.InvP Proofs.OptimizeP Proofs.ReachP.

Theorem C15_reachable_tree_is_ordered_and_alive :
  forall builtins (ops : list op),
    wf (r_root (run builtins ops)) = true /\ tidy (r_root (run builtins ops)) = true.
Proof. exact reachable_inv. Qed.
Print Assumptions C15_reachable_tree_is_ordered_and_alive.

(* what wf and tidy say, node by node *)
Theorem C15_shape_of_a_wf_tidy_node :
  forall n, wf n = true -> tidy n = true ->
    (* literal siblings: non-empty prefixes, pairwise different first bytes, strictly sorted *)
    static_keys_ok (n_st n) = true /\ strictly_sorted (n_st n) = true
    (* siblings of each parameter kind strictly sorted by (name, constraint) *)
    /\ (forall k, strictly_sorted (kids k n) = true)
    (* no empty node below: every child has data or children, so every leaf is marked *)
    /\ (forall kc, In kc (n_st n) -> alive (snd kc) = true)
    /\ (forall k kc, is_end k = false -> In kc (kids k n) -> alive (snd kc) = true)
    /\ (forall k kc, is_end k = true -> In kc (kids k n) -> has_data (snd kc) = true /\ no_kids_b (snd kc) = true).
Proof.
  intros n Hwf Ht. pose proof (wf_unpack n Hwf) as W. pose proof (tidy_unpack n Ht) as T.
  split; [apply (wn_static_keys n W)|]. split; [apply (tn_sorted_st n T)|].
  split; [apply (tn_sorted n T)|]. split; [intros kc Hkc; apply (wn_static n W kc Hkc)|].
  split; [intros k kc He Hkc; apply (wn_mid n W k kc He Hkc)|].
  intros k kc He Hkc. apply (wn_end n W k kc He Hkc).
Qed.
Print Assumptions C15_shape_of_a_wf_tidy_node.

(* ---- the canonical shape, for every history ---- *)
From WF Require Import Proofs.CompP Proofs.CanonP.
Print canonical_b.
Print canon_node.
Print compressible_b.

Theorem C15_reachable_tree_is_canonical :
  forall builtins (ops : list op), canonical_b (r_root (run builtins ops)) = true.
Proof. exact reachable_canonical. Qed.
Print Assumptions C15_reachable_tree_is_canonical.

(* in particular no literal node below the root is a data-less node whose only child is one literal node *)
Theorem C15_reachable_tree_is_compressed :
  forall builtins (ops : list op), comp (r_root (run builtins ops)) = true.
Proof. intros b ops. apply (reachable_cinv b ops). Qed.
Print Assumptions C15_reachable_tree_is_compressed.

(* ---- the canonical tree of a set of routes is unique ---- *)
From WF Require Import Model.Display Proofs.InsRoutesP Proofs.UniqueP Proofs.UniqueDisplayP.
Print Good.
Theorem C15_canonical_tree_is_unique :
  forall n1 n2, Good n1 -> Good n2 -> (forall r i, RM n1 r i <-> RM n2 r i) ->
    erase n1 = erase n2 /\ display n1 = display n2.
Proof. intros n1 n2 G1 G2 H. split; [apply canonical_unique|apply same_routes_same_display]; assumption. Qed.
Print Assumptions C15_canonical_tree_is_unique.

(* ---- "Display lists exactly the live routes" ---- *)
(* [spell lab n acc]: for every node with data (the nodes Display marks [*]), the concatenation of the labels
   from the root down to it.  raw_label: literal keys as stored, parameter keys as Display prints them. *)
From WF Require Import Model.Parser Proofs.RoutesP Proofs.RouterRoutesP Proofs.RegistryP Proofs.ReachOpsP Proofs.SpellP.
Print spell.
Print raw_label.
Print render_atom.
Print spelled.

(* the labels spell exactly the stored routes, each once, in Display order ... *)
Theorem C15_labels_spell_exactly_the_stored_routes :
  forall b (ops : list op),
    spell raw_label (r_root (run b ops)) [] = map (spelled []) (routes_of (r_root (run b ops)))
    /\ NoDup (map fst (routes_of (r_root (run b ops)))).
Proof.
  intros b ops. split; [apply reach_spell_raw|]. apply routes_nodup. destruct (reachable_inv b ops) as [W _]. exact W.
Qed.
Print Assumptions C15_labels_spell_exactly_the_stored_routes.

(* ... and the stored routes are exactly the expansions of the live templates (Print tinfo: which expansion's
   info a route carries when a template lists it twice) *)
Theorem C15_stored_routes_are_the_live_expansions :
  forall b (ops : list op) r0 i,
    In (r0, i) (routes_of (r_root (run b ops))) <->
    exists t d es, In (t, d) (live_of b ops) /\ parse t = Ret es /\ tinfo t d es r0 = Some i.
Proof. intros b ops r0 i. apply (abs_exact _ _ (reach_abs b ops)). Qed.
Print Assumptions C15_stored_routes_are_the_live_expansions.

(* the rendering of an expansion's route: literal parts verbatim (unescaped by the parser), parameters in braces *)
Theorem C15_rendering_of_an_expansion :
  forall e : expansion, render_route (exp_route e) = concat (map render_part (snd e)).
Proof. intros e. apply render_atoms_of. Qed.
Print Assumptions C15_rendering_of_an_expansion.

(* the PRINTED labels (each literal key decoded on its own by from_utf8_lossy) spell the same, provided every
   literal key is valid UTF-8 on its own ... *)
Theorem C15_printed_labels_spell_the_routes_partial :
  forall b (ops : list op),
    keys_utf8 (r_root (run b ops)) = true ->
    spell node_label (r_root (run b ops)) [] = map (spelled []) (routes_of (r_root (run b ops))).
Proof. exact reach_spell_printed. Qed.
Print Assumptions C15_printed_labels_spell_the_routes_partial.

(* ... and NOT in general: literal siblings that part inside a multi-byte character ("/é", "/ê") are printed with
   U+FFFD in place of the split character.  Known finding K2. *)
Theorem C15_printed_labels_refuted :
  let r := run [] [OInsert T_E_ACUTE 1; OInsert T_E_CIRC 2] in
  map fst (spell raw_label (r_root r) []) = [T_E_ACUTE; T_E_CIRC]
  /\ map fst (spell node_label (r_root r) []) = [[47; 239; 191; 189; 239; 191; 189]; [47; 239; 191; 189; 239; 191; 189]]%N.
Proof. exact printed_labels_refuted. Qed.
Print Assumptions C15_printed_labels_refuted.

(* ---- the printer's walk, REGENERATED from src/node/display.rs on this run (Gen/Shapes.v): the seven child lists in
        the order of kinds, every child through the same two statements, `count` the sum of the seven lengths ---- *)
From Coq Require Import String.
From WF Require Import Gen.Shapes Proofs.ShapesP.
Theorem C15_printer_walks_the_seven_lists_in_kind_order :
  bl_eqb gen_display_loops seven_lists = true
  /\ gen_display_for_count = 8
  /\ bl_eqb gen_display_count_terms (map (fun f => ("node." ++ f ++ ".len()")%string) seven_lists) = true.
Proof. exact display_shape. Qed.
Print Assumptions C15_printer_walks_the_seven_lists_in_kind_order.

(* ---- the printable key stored in every node, REGENERATED from src/state.rs on this run (Gen/Keys.v), is the label the
        model printer writes - for every name and every constraint ---- *)
From WF Require Import Gen.Keys Proofs.KeysP.
Theorem C15_stored_key_is_the_printed_label :
  forall (k : kind) (ky : key), key_shape k ky ->
  exists fmt, key_fmt k true = Some fmt
    /\ interp_key fmt (fst ky) (match snd ky with Some c => c | None => [] end) = node_label (Some k) ky.
Proof. exact stored_key_is_the_printed_label. Qed.
Print Assumptions C15_stored_key_is_the_printed_label.

Theorem C15_literal_key_is_lossy_text_and_paddings :
  key_StaticState = None /\ key_lossy_StaticState = true
  /\ padding_of_StaticState = Some [112; 114; 101; 102; 105; 120]%N
  /\ Forall (fun p => p = Some F_NAME)
       [padding_of_DynamicConstrainedState; padding_of_DynamicState; padding_of_WildcardConstrainedState;
        padding_of_WildcardState; padding_of_EndWildcardConstrainedState; padding_of_EndWildcardState]
  /\ (forall ky, node_label None ky = lossy (fst ky)).
Proof. exact literal_key_and_paddings. Qed.
Print Assumptions C15_literal_key_is_lossy_text_and_paddings.
