(* Non-vacuity: concrete histories, templates and paths that meet the hypotheses of the property theorems.
   Every fact here is closed by evaluating the model (vm_compute); none is part of a property proof. *)
From Coq Require Import List String Ascii NArith Lia. Import ListNotations.
From WF Require Import Base.Bytes Base.Utf8 Spec.Route Spec.Walk Spec.Grammar Spec.Inv Model.Tree Model.Parser Model.Router.
From WF Require Import Proofs.ReachP Proofs.RouterRoutesP Proofs.RegistryP Proofs.ReachOpsP Proofs.ErrP Proofs.UnmatchedP Proofs.UniqueP.
Local Open Scope string_scope.

Definition w (s : string) : bytes := map N_of_ascii (list_ascii_of_string s).

(* the constraint predicate used below: "even" accepts values of even length, every other name rejects *)
Definition chk0 (name v : bytes) : bool := if beqb name (w "even") then Nat.even (length v) else false.

(* a history with a grouped template, a wildcard, a constrained parameter, an inline parameter, a refused insert,
   a refused delete and a successful delete *)
Definition ops0 : list op :=
  [ OConstraint (w "even") (w "T");
    OInsert (w "/a(/{x})") 1;
    OInsert (w "/files/{*rest}") 2;
    OInsert (w "/u/{id:even}") 3;
    OInsert (w "/img-{n}.png") 4;
    OInsert (w "/a") 9;
    OInsert (w "/tmp") 5;
    ODelete (w "/zz");
    ODelete (w "/tmp") ].
Definition R0 : router := run [] ops0.

Example live0 : live_of [] ops0 = [(w "/img-{n}.png", 4%N); (w "/u/{id:even}", 3%N); (w "/files/{*rest}", 2%N); (w "/a(/{x})", 1%N)].
Proof. vm_compute. reflexivity. Qed.

(* C01/C02/C03/C12/C13: searches that hit, with a group expansion, a wildcard over several segments, a constraint
   that accepts, an inline parameter; and searches that miss because a constraint rejects *)
Example hit_group : exists i ps, rsearch chk0 R0 (w "/a/b") = Some (i, ps) /\ i_template i = w "/a(/{x})" /\ map snd ps = [w "b"].
Proof. vm_compute. eauto. Qed.
Example hit_wild : exists i ps, rsearch chk0 R0 (w "/files/x/y.txt") = Some (i, ps) /\ map snd ps = [w "x/y.txt"].
Proof. vm_compute. eauto. Qed.
Example hit_cons : exists i ps, rsearch chk0 R0 (w "/u/ab") = Some (i, ps) /\ i_data i = 3%N.
Proof. vm_compute. eauto. Qed.
Example hit_inline : exists i ps, rsearch chk0 R0 (w "/img-7.png") = Some (i, ps) /\ map snd ps = [w "7"].
Proof. vm_compute. eauto. Qed.
Example miss_cons : rsearch chk0 R0 (w "/u/abc") = None.
Proof. vm_compute. reflexivity. Qed.
Example root_has_inv : inv_b (r_root R0) = true.
Proof. vm_compute. reflexivity. Qed.

(* C04: a template with optional groups, two distinct expansions *)
Example grouped_parse : exists es, parse (w "/a(/{x})") = Ret es /\ 2 <= length es /\ NoDup (map exp_route es).
Proof.
  eexists. split; [vm_compute; reflexivity|]. split; [cbn [length]; lia|].
  vm_compute. repeat constructor; cbn; intuition discriminate.
Qed.
Example nested_groups : exists es, parse (w "/a(/b(/c))") = Ret es /\ length es = 3.
Proof. eexists. split; vm_compute; reflexivity. Qed.

(* C06/C08/C09/C10: every outcome of insert and delete occurs from a reachable router *)
Example insert_ok : exists r', rinsert R0 (w "/k/{v}") 7 = (r', ROk tt).
Proof. vm_compute. eauto. Qed.
Example insert_conflict : exists cs, rinsert R0 (w "/a") 7 = (R0, RErr (IEConflict (w "/a") cs)) /\ cs = [w "/a(/{x})"].
Proof. vm_compute. eauto. Qed.
Example insert_renamed_is_distinct : exists r', rinsert R0 (w "/a/{other}") 7 = (r', ROk tt).
Proof. vm_compute. eauto. Qed.
Example insert_unknown_constraint : exists e, rinsert R0 (w "/q/{v:nope}") 7 = (R0, RErr e).
Proof. vm_compute. eauto. Qed.
Example delete_ok : exists r', rdelete R0 (w "/a(/{x})") = (r', ROk 1%N).
Proof. vm_compute. eauto. Qed.
Example delete_mismatch : exists ins, rdelete R0 (w "/a") = (R0, RErr (DEMismatch (w "/a") ins)) /\ ins = w "/a(/{x})".
Proof. vm_compute. eauto. Qed.
Example delete_notfound : rdelete R0 (w "/zz") = (R0, RErr (DENotFound (w "/zz"))).
Proof. vm_compute. reflexivity. Qed.
Example constraint_duplicate : exists e, rconstraint R0 (w "even") (w "U") = (R0, RErr e).
Proof. vm_compute. eauto. Qed.

(* C05/C15: two different histories that leave the same templates live *)
Definition opsA : list op := [OInsert (w "/x/{a}") 1; OInsert (w "/x/y") 2; OInsert (w "/xyz") 3].
Definition opsB : list op := [OInsert (w "/xyz") 3; OInsert (w "/x/y") 2; OInsert (w "/xq") 8; OInsert (w "/x/{a}") 1; ODelete (w "/xq")].
Example same_live : forall x, In x (live_of [] opsA) <-> In x (live_of [] opsB).
Proof. vm_compute. intros x. tauto. Qed.
Example different_trees_same_print :
  r_root (run [] opsA) <> r_root (run [] opsB) /\ erase (r_root (run [] opsA)) = erase (r_root (run [] opsB)).
Proof. split; [vm_compute; discriminate|vm_compute; reflexivity]. Qed.

(* C12: a single group-free template live *)
Definition opsS : list op := [OInsert (w "/{a}-{b}") 1; OInsert (w "/other") 2; ODelete (w "/other")].
Example single_live : exists e i ps,
  live_of [] opsS = [(w "/{a}-{b}", 1%N)] /\ parse (w "/{a}-{b}") = Ret [e]
  /\ rsearch chk0 (run [] opsS) (w "/x-y-z") = Some (i, ps) /\ map snd ps = [w "x-y"; w "z"].
Proof. vm_compute. eexists _, _, _. repeat split. Qed.

(* C14: every kind of template error occurs; positions as computed by the model *)
Example err_empty : parse (w "") = Err EEmpty.  Proof. vm_compute. reflexivity. Qed.
Example err_slash : exists t, parse (w "a") = Err (EMissingLeadingSlash t).  Proof. vm_compute. eauto. Qed.
Example err_empty_parens : exists t, parse (w "/a()") = Err (EEmptyParentheses t 2).  Proof. vm_compute. eauto. Qed.
Example err_open_paren : exists t, parse (w "/a(b(c)") = Err (EUnbalancedParenthesis t 2).  Proof. vm_compute. eauto. Qed.
Example err_close_paren : exists t, parse (w "/a(b)c)d") = Err (EUnbalancedParenthesis t 6).  Proof. vm_compute. eauto. Qed.
Example err_empty_braces : exists t, parse (w "/{}") = Err (EEmptyBraces t 1).  Proof. vm_compute. eauto. Qed.
Example err_open_brace : exists t, parse (w "/{a}/{b") = Err (EUnbalancedBrace t 5).  Proof. vm_compute. eauto. Qed.
Example err_close_brace : exists t, parse (w "/{a}/b}") = Err (EUnbalancedBrace t 6).  Proof. vm_compute. eauto. Qed.
Example err_empty_param : exists t s l, parse (w "/{:c}") = Err (EEmptyParameter t s l).  Proof. vm_compute. eauto. Qed.
Example err_empty_wild : exists t s l, parse (w "/{*}") = Err (EEmptyWildcard t s l).  Proof. vm_compute. eauto. Qed.
Example err_empty_cons : exists t s l, parse (w "/{a:}") = Err (EEmptyConstraint t s l).  Proof. vm_compute. eauto. Qed.
Example err_invalid_param : exists t n s l, parse (w "/{a/b}") = Err (EInvalidParameter t n s l).  Proof. vm_compute. eauto. Qed.
Example err_invalid_cons : exists t n s l, parse (w "/{a:b/c}") = Err (EInvalidConstraint t n s l).  Proof. vm_compute. eauto. Qed.
Example err_duplicate : exists t n, parse (w "/{a}/x/{*a}") = Err (EDuplicateParameter t n 1 3 7 4) /\ n = w "a".
Proof. vm_compute. eauto. Qed.
Example err_touching : exists t s l, parse (w "/{a}{b}") = Err (ETouchingParameters t s l).  Proof. vm_compute. eauto. Qed.
Example err_in_expansion : exists t s l, parse (w "/x(/{a}){b}") = Err (ETouchingParameters t s l) /\ t = w "/x/{a}{b}".
Proof. vm_compute. eauto. Qed.

(* C16: a clone family with a grouped template: histories, and the Arc view *)
From WF Require Import Model.Arcs Proofs.FamilyP Proofs.ArcsP.
Definition fam0 : list fop :=
  [FOp 0 (OInsert (w "/a(/b)") 1); FOp 0 (OInsert (w "/c") 2); FClone 0 1; FOp 1 (ODelete (w "/a(/b)")); FOp 0 (OInsert (w "/d") 3)].
Example family_histories :
  hist fam0 0%N = [OInsert (w "/a(/b)") 1; OInsert (w "/c") 2; OInsert (w "/d") 3]
  /\ hist fam0 1%N = [OInsert (w "/a(/b)") 1; OInsert (w "/c") 2; ODelete (w "/a(/b)")].
Proof. vm_compute. split; reflexivity. Qed.
Example family_clone_then_delete_on_the_copy :
  exists i ps, rsearch chk0 (frun [] fam0 0%N) (w "/a/b") = Some (i, ps) /\ rsearch chk0 (frun [] fam0 1%N) (w "/a/b") = None.
Proof. vm_compute. eauto. Qed.
Example arcs_view_after_clone :
  let v := astep (astep [] (AIns 0 (w "/a(/b)") 2)) (AClone 0 1) in
  length v = 4 /\ own_b v = true /\ a_del_returns 1 (w "/a(/b)") v = true /\ a_del_returns 0 (w "/a(/b)") (astep v (ADel 1 (w "/a(/b)"))) = true.
Proof. vm_compute. repeat split. Qed.

(* C17: URLs of each shape are routed to the specified handler by the model routers of the regenerated table *)
From WF Require Import Spec.OciSpec Check.Oci Proofs.OciP Proofs.OciTableP Proofs.OciSemP.
Example oci_blob_pull : exists i ps,
  rsearch oci_chk (oci_router (w "GET")) (w "/v2/library/nginx/blobs/sha256:abc/") = Some (i, ps)
  /\ handler_of (i_data i) = w "blob::handle_blob_pull" /\ map snd ps = [w "library/nginx"; w "sha256:abc"].
Proof. vm_compute. eauto. Qed.
Example oci_shape_instance :
  url_shape ShManifest (w "a/b") (Some (w "latest")) false (w "/v2/a/b/manifests/latest").
Proof. cbn [url_shape]. eexists. split; [reflexivity|]. repeat split; try discriminate; try (vm_compute; reflexivity); vm_compute; intuition discriminate. Qed.
Example oci_patch_upload_not_routed : rsearch oci_chk (oci_router (w "PATCH")) (w "/v2/a/blobs/uploads/u1") = None.
Proof. vm_compute. reflexivity. Qed.
Example oci_bad_name_not_routed : rsearch oci_chk (oci_router (w "GET")) (w "/v2/A/tags/list") = None.
Proof. vm_compute. reflexivity. Qed.
