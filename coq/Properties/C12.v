(* C12 - captures are greedy, leftmost parameter first.  Statements only. *)
From WF Require Import Base.Bytes Base.Utf8 Spec.Route Spec.Walk Model.Tree Spec.Inv.
From WF Require Import Proofs.RefineP Proofs.WalkGreedyP.

(* LL chk r p vs (Proofs/WalkGreedyP.v): the values fit, and at every parameter, earlier values
   fixed, no strictly longer value admits a fit of the remaining route. *)
Print LL.

(* the documented walk over a single route returns the leftmost-longest assignment *)
Theorem C12_walk_leftmost_longest :
  forall (chk : bytes -> bytes -> bool) (r : route) (i : info) (p : bytes) (i' : info) (ps : params),
    W chk [(r, i)] p = Some (i', ps) -> LL chk r p (map snd ps).
Proof. exact W_singleton_greedy. Qed.
Print Assumptions C12_walk_leftmost_longest.

(* hence so does every tree that holds exactly one route (a router holding a single group-free
   template), whether its parameters occupy whole segments or share them with literal text, and
   whatever its shortcut flags say *)
Theorem C12_single_route_tree_leftmost_longest :
  forall chk t r i p i' ps,
    inv_b t = true -> routes_of t = [(r, i)] ->
    search chk t p = Some (i', ps) -> LL chk r p (map snd ps).
Proof.
  intros chk t r i p i' ps Hinv Hr H.
  rewrite (search_refines_W chk t p Hinv), Hr in H. eapply W_singleton_greedy; eauto.
Qed.
Print Assumptions C12_single_route_tree_leftmost_longest.

(* ---- for every history that leaves a single group-free template live ---- *)
From WF Require Import Model.Parser Model.Router Proofs.ReachP Proofs.RouterRoutesP Proofs.RegistryP Proofs.ReachOpsP.
Theorem C12_reachable_single_template_leftmost_longest :
  forall b (ops : list op) chk t d e p i ps,
    live_of b ops = [(t, d)] -> parse t = Ret [e] ->
    rsearch chk (run b ops) p = Some (i, ps) -> LL chk (exp_route e) p (map snd ps).
Proof. exact reach_single_template_greedy. Qed.
Print Assumptions C12_reachable_single_template_leftmost_longest.

(* ---- the eight parameter searches of src/node/search.rs as sequences of recognised statements, REGENERATED on this run
        (Gen/Loops.v): each has exactly the statements, in the order, of one of the loop shapes of Model/SearchC.v (grow in its
        three modes, dyn_segment), over the child list of its kind, with the constraint check exactly in the constrained ones,
        and no further continue / break / return ---- *)
From WF Require Import Gen.Loops Proofs.LoopsP.
Theorem C12_search_loops_have_the_model_shapes : loops_eqb gen_search_loops expected_loops = true.
Proof. exact search_loops_have_the_model_shapes. Qed.
Print Assumptions C12_search_loops_have_the_model_shapes.
