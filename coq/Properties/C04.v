(* C04 - a template with optional groups behaves exactly as the set of its expansions.  Statements only.
   Proved on the model: (i) for every valid UTF-8 template the parser returns exactly the documented expansions
   (Spec/Grammar.v: every keep/drop choice of every group, an inner group kept only with its parent, a completely
   empty result replaced by "/"), in the documented order, each decoded as documented; (ii) a successful insert
   stores exactly one route per distinct expansion, carrying the original template, the data, and the expansion text
   (None when the template has a single expansion) - nothing else changes; (iii) search is the documented walk over
   the stored routes (C03).  So a grouped template routes exactly as the set of its expansions does, and every match
   reports the original template and the expansion that matched.  The comparison with a router into which the
   expansions were inserted one by one is decided by the groups scenario (oracle W on both routers). *)
From WF Require Import Base.Bytes Base.Utf8 Spec.Route Spec.Walk Spec.Grammar Model.Tree Model.Parser Model.Router.
From WF Require Import Proofs.InsRoutesP Proofs.ReachP Proofs.RouterRoutesP Proofs.ParserSpecP Proofs.ExpandSpecP.

Print expansions_spec.
Print expand_items.
Print alts.

(* the scanner of the parser model enumerates the documented expansions, in order *)
Theorem C04_expansions_as_documented :
  forall t : bytes, to_opt (expand (S (length t)) t 0 (length t)) = denote (G t).
Proof. exact expand_spec. Qed.
Print Assumptions C04_expansions_as_documented.

Theorem C04_parser_returns_the_documented_expansions :
  forall t : bytes, utf8_valid t = true -> to_opt (parse t) = template_spec t.
Proof. exact parse_is_template_spec. Qed.
Print Assumptions C04_parser_returns_the_documented_expansions.

(* what a successful insert stores: for each expansion route the info built from (template, data, expansion) *)
Print tinfo.
Print mk_info.
Theorem C04_insert_stores_exactly_the_expansions :
  forall b (ops : list op) t d r',
    rinsert (run b ops) t d = (r', ROk tt) ->
    exists es, parse t = Ret es
      /\ forall r0 i, RM (r_root r') r0 i <-> (RM (r_root (run b ops)) r0 i \/ tinfo t d es r0 = Some i).
Proof. intros b ops t d r' H. apply (rinsert_ok_exact (run b ops) t d r' (reachable_inv b ops) H). Qed.
Print Assumptions C04_insert_stores_exactly_the_expansions.

(* every stored info of the template names the template, the data, and one of its expansions *)
Theorem C04_stored_info_reports_template_and_expansion :
  forall t d es r0 i, tinfo t d es r0 = Some i ->
    exists e, In e es /\ exp_route e = r0 /\ i_template i = t /\ i_data i = d.
Proof. exact tinfo_some. Qed.
Print Assumptions C04_stored_info_reports_template_and_expansion.

(* ---- side by side: the grouped template vs its expansions inserted one by one ----
   [one_by_one es d r] inserts, with the same data d, each expansion TEXT as a template of its own; [relabel t]
   turns an info reported for template t with expansion text e into the info the one-by-one router reports
   (template e, no expansion field; same depth, length, data).  Hypotheses: the template has optional groups
   (at least two expansions) and no two of its expansions have the same part sequence (otherwise the second
   one-by-one insert would be refused as a conflict). *)
From WF Require Import Proofs.WalkMapP Proofs.FlatP Proofs.GroupsEquivP.
Print one_by_one.
Print relabel.

Theorem C04_expansion_texts_are_group_free_templates :
  forall t es, parse t = Ret es -> forall e, In e es -> parse (fst e) = Ret [e].
Proof. exact parse_expansion_text. Qed.
Print Assumptions C04_expansion_texts_are_group_free_templates.

Theorem C04_grouped_template_equals_its_expansions :
  forall b (ops : list op) t d es r1 chk p,
    parse t = Ret es -> 2 <= length es -> NoDup (map exp_route es) ->
    rinsert (run b ops) t d = (r1, ROk tt) ->
    rsearch chk (one_by_one es d (run b ops)) p = resf (relabel t) (rsearch chk r1 p).
Proof. exact groups_side_by_side. Qed.
Print Assumptions C04_grouped_template_equals_its_expansions.
