(* C04 - a template with optional groups behaves exactly as the set of its expansions.  Statements only.
   Proved on the model: (i) for every valid UTF-8 template the parser returns exactly the documented expansions
   (Spec/Grammar.v: every keep/drop choice of every group, an inner group kept only with its parent, a completely
   empty result replaced by "/"), in the documented order, each decoded as documented; (ii) a successful insert
   stores exactly one route per distinct expansion, carrying the original template, the data, and the expansion text
   (None when the template has a single expansion) - nothing else changes; (iii) search is the documented walk over
   the stored routes (C03).  So a grouped template routes exactly as the set of its expansions does, and every match
   reports the original template and the expansion that matched.  The comparison with a router into which the
   expansions were inserted one by one is decided by the groups scenario (oracle W on both routers). *)
From WF Require Import Base.Bytes Base.Utf8 Spec.Route Spec.Walk Spec.Grammar Model.Tree Model.Parser Model.Router.
From WF Require Import Proofs.InsRoutesP Proofs.ReachP Proofs.RouterRoutesP Proofs.ParserSpecP Proofs.ExpandSpecP.

Print expansions_spec.
Print expand_items.
Print alts.

(* the scanner of the parser model enumerates the documented expansions, in order *)
Theorem C04_expansions_as_documented :
  forall t : bytes, to_opt (expand (S (length t)) t 0 (length t)) = denote (G t).
Proof. exact expand_spec. Qed.
Print Assumptions C04_expansions_as_documented.

Theorem C04_parser_returns_the_documented_expansions :
  forall t : bytes, utf8_valid t = true -> to_opt (parse t) = template_spec t.
Proof. exact parse_is_template_spec. Qed.
Print Assumptions C04_parser_returns_the_documented_expansions.

(* what a successful insert stores: for each expansion route the info built from (template, data, expansion) *)
Print tinfo.
Print mk_info.
Theorem C04_insert_stores_exactly_the_expansions :
  forall b (ops : list op) t d r',
    rinsert (run b ops) t d = (r', ROk tt) ->
    exists es, parse t = Ret es
      /\ forall r0 i, RM (r_root r') r0 i <-> (RM (r_root (run b ops)) r0 i \/ tinfo t d es r0 = Some i).
Proof. intros b ops t d r' H. apply (rinsert_ok_exact (run b ops) t d r' (reachable_inv b ops) H). Qed.
Print Assumptions C04_insert_stores_exactly_the_expansions.

(* every stored info of the template names the template, the data, and one of its expansions *)
Theorem C04_stored_info_reports_template_and_expansion :
  forall t d es r0 i, tinfo t d es r0 = Some i ->
    exists e, In e es /\ exp_route e = r0 /\ i_template i = t /\ i_data i = d.
Proof. exact tinfo_some. Qed.
Print Assumptions C04_stored_info_reports_template_and_expansion.
