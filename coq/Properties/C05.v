(* C05 - routing depends only on the set of live routes.  Statements only. *)
From Coq Require Import Permutation.
From WF Require Import Base.Bytes Base.Utf8 Spec.Route Spec.Walk Model.Tree Spec.Inv.
From WF Require Import Proofs.WalkPermP Proofs.TreeCorP.

(* two trees holding the same routes (in whatever shape and order history left them, with whatever
   stale flags) answer every path identically *)
Theorem C05_same_routes_same_answers :
  forall (chk : bytes -> bytes -> bool) (t1 t2 : node) (p : bytes),
    inv_b t1 = true -> inv_b t2 = true ->
    Permutation (routes_of t1) (routes_of t2) -> NoDup (map fst (routes_of t1)) ->
    search chk t1 p = search chk t2 p.
Proof. exact search_same_routes. Qed.
Print Assumptions C05_same_routes_same_answers.

Theorem C05_walk_order_independent :
  forall chk rs1 rs2 p, Permutation rs1 rs2 -> NoDup (map fst rs1) -> W chk rs1 p = W chk rs2 p.
Proof. exact W_perm. Qed.
Print Assumptions C05_walk_order_independent.

(* ---- for every pair of histories on the model router ---- *)
From WF Require Import Model.Router Proofs.ReachP.
Theorem C05_reachable_same_routes_same_answers :
  forall b1 b2 (ops1 ops2 : list op) chk p,
    Permutation (routes_of (r_root (run b1 ops1))) (routes_of (r_root (run b2 ops2))) ->
    NoDup (map fst (routes_of (r_root (run b1 ops1)))) ->
    rsearch chk (run b1 ops1) p = rsearch chk (run b2 ops2) p.
Proof.
  intros b1 b2 ops1 ops2 chk p Hp Hn. apply search_same_routes; auto using reachable_inv_b.
Qed.
Print Assumptions C05_reachable_same_routes_same_answers.

(* the same without side conditions: [RM n r i] says route r is stored in tree n with info i *)
From WF Require Import Proofs.InsRoutesP Proofs.ReachOpsP.
Theorem C05_reachable_same_route_sets_same_answers :
  forall b1 b2 (ops1 ops2 : list op) chk p,
    (forall r0 i, RM (r_root (run b1 ops1)) r0 i <-> RM (r_root (run b2 ops2)) r0 i) ->
    rsearch chk (run b1 ops1) p = rsearch chk (run b2 ops2) p.
Proof. exact reach_same_routes. Qed.
Print Assumptions C05_reachable_same_route_sets_same_answers.

(* the statement of the property itself (search half): [live_of b ops] is the list of (template, data) pairs that
   the history left live - a pair enters by a successful insert and leaves by a successful delete (Print lstep) *)
From WF Require Import Proofs.RegistryP.
Print lstep.
Theorem C05_same_live_templates_same_answers :
  forall b1 b2 (ops1 ops2 : list op) chk p,
    (forall x, In x (live_of b1 ops1) <-> In x (live_of b2 ops2)) ->
    rsearch chk (run b1 ops1) p = rsearch chk (run b2 ops2) p.
Proof. exact reach_same_live. Qed.
Print Assumptions C05_same_live_templates_same_answers.

(* ... and store the same routes with the same infos (template, expansion text, depth, length, data) *)
Theorem C05_same_live_templates_same_stored_routes :
  forall b1 b2 (ops1 ops2 : list op),
    (forall x, In x (live_of b1 ops1) <-> In x (live_of b2 ops2)) ->
    forall r0 i, RM (r_root (run b1 ops1)) r0 i <-> RM (r_root (run b2 ops2)) r0 i.
Proof. exact reach_same_live_routes. Qed.
Print Assumptions C05_same_live_templates_same_stored_routes.

(* ---- the printing half: the same live set prints the same tree ----
   [display] is the model of the Display implementation (Model/Display.v); [erase] forgets the shortcut flags and
   dirty marks, which Display does not print.  Proof: the canonical tree of a route set is unique
   (Proofs/UniqueP.v: canonical_unique). *)
From WF Require Import Model.Display Proofs.UniqueP Proofs.UniqueDisplayP.
Theorem C05_same_live_templates_print_identical_trees :
  forall b1 b2 (ops1 ops2 : list op),
    (forall x, In x (live_of b1 ops1) <-> In x (live_of b2 ops2)) ->
    display (r_root (run b1 ops1)) = display (r_root (run b2 ops2))
    /\ erase (r_root (run b1 ops1)) = erase (r_root (run b2 ops2)).
Proof. exact reach_same_live_display. Qed.
Print Assumptions C05_same_live_templates_print_identical_trees.

(* ---- Node::optimize, REGENERATED from src/node/optimize.rs on this run (Gen/Shapes.v): early return exactly on a clean
        node, recursion into all seven child lists, all seven sorted, both shortcut flags refreshed, dirty mark cleared ---- *)
From Coq Require Import String.
From WF Require Import Gen.Shapes Proofs.ShapesP.
Theorem C05_optimize_covers_every_list :
  bl_eqb gen_optimize_recursion seven_lists = true
  /\ bl_eqb gen_optimize_sorts seven_lists = true
  /\ gen_optimize_for_count = 7
  /\ bl_eqb gen_optimize_statements
       ["if !self.needs_optimization {"; "return"; "self.update_dynamic_children_shortcut()";
        "self.update_wildcard_children_shortcut()"; "self.needs_optimization = false"]%string = true.
Proof. exact optimize_shape. Qed.
Print Assumptions C05_optimize_covers_every_list.

(* ---- the two shortcut flags, REGENERATED from src/node/optimize.rs on this run (Gen/Shortcuts.v: each
        update_*_children_shortcut as checks `list.iter().all(|child| d1 || d2 || ..)` joined by `&&`): compiled and read
        over the model's nodes, they ARE the conditions Model/Ops.v optimize stores in the flags - on every node ---- *)
From WF Require Import Model.Ops Gen.Shortcuts Proofs.ShortcutsP.
Theorem C05_regenerated_shortcut_flags_are_the_model_conditions :
  exists cd cw,
    compiled_flag "dynamic_children_shortcut" = Some cd /\ compiled_flag "wildcard_children_shortcut" = Some cw
    /\ forall n, sem_flag cd n = dyn_cond n /\ sem_flag cw n = wild_cond n.
Proof. exact regenerated_shortcuts_are_the_model_conditions. Qed.
Print Assumptions C05_regenerated_shortcut_flags_are_the_model_conditions.
