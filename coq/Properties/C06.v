(* C06 - templates do not interfere.  Statements only. *)
From Coq Require Import Permutation.
From WF Require Import Base.Bytes Base.Utf8 Spec.Route Spec.Walk Model.Tree Spec.Inv.
From WF Require Import Proofs.WalkNonintP Proofs.TreeCorP.

(* t' holds the routes of t plus the routes [new] (insert), or read from right to left: t holds the
   routes of t' minus [new] (delete).  A path none of the new routes fits keeps its answer. *)
Theorem C06_unrelated_paths_unchanged :
  forall (chk : bytes -> bytes -> bool) (t t' : node) (new : routes) (p : bytes),
    inv_b t = true -> inv_b t' = true ->
    Permutation (routes_of t') (new ++ routes_of t) -> NoDup (map fst (routes_of t')) ->
    (forall r i vs, In (r, i) new -> ~ fits chk r p vs) ->
    search chk t' p = search chk t p.
Proof. exact search_noninterference. Qed.
Print Assumptions C06_unrelated_paths_unchanged.

(* every path the new template fits is matched afterwards *)
Theorem C06_fitted_paths_matched :
  forall chk t' new p r i vs,
    inv_b t' = true -> (forall x, In x new -> In x (routes_of t')) ->
    In (r, i) new -> fits chk r p vs -> search chk t' p <> None.
Proof. exact search_new_route_matched. Qed.
Print Assumptions C06_fitted_paths_matched.
