(* C06 - templates do not interfere.  Statements only. *)
From Coq Require Import Permutation.
From WF Require Import Base.Bytes Base.Utf8 Spec.Route Spec.Walk Model.Tree Spec.Inv.
From WF Require Import Proofs.WalkNonintP Proofs.TreeCorP.

(* t' holds the routes of t plus the routes [new] (insert), or read from right to left: t holds the
   routes of t' minus [new] (delete).  A path none of the new routes fits keeps its answer. *)
Theorem C06_unrelated_paths_unchanged :
  forall (chk : bytes -> bytes -> bool) (t t' : node) (new : routes) (p : bytes),
    inv_b t = true -> inv_b t' = true ->
    Permutation (routes_of t') (new ++ routes_of t) -> NoDup (map fst (routes_of t')) ->
    (forall r i vs, In (r, i) new -> ~ fits chk r p vs) ->
    search chk t' p = search chk t p.
Proof. exact search_noninterference. Qed.
Print Assumptions C06_unrelated_paths_unchanged.

(* every path the new template fits is matched afterwards *)
Theorem C06_fitted_paths_matched :
  forall chk t' new p r i vs,
    inv_b t' = true -> (forall x, In x new -> In x (routes_of t')) ->
    In (r, i) new -> fits chk r p vs -> search chk t' p <> None.
Proof. exact search_new_route_matched. Qed.
Print Assumptions C06_fitted_paths_matched.

(* ---- at operation level, for every history on the model router ---- *)
From WF Require Import Model.Parser Model.Router Proofs.ReachP Proofs.RouterRoutesP Proofs.ReachOpsP.

(* [exp_route e] is the route (atom list) of expansion e of the template *)
Theorem C06_insert_changes_only_fitted_paths :
  forall b (ops : list op) chk t d r' p,
    rinsert (run b ops) t d = (r', ROk tt) ->
    (forall es e vs, parse t = Ret es -> In e es -> ~ fits chk (exp_route e) p vs) ->
    rsearch chk r' p = rsearch chk (run b ops) p.
Proof. exact reach_insert_nonint. Qed.
Print Assumptions C06_insert_changes_only_fitted_paths.

Theorem C06_insert_fitted_paths_matched :
  forall b (ops : list op) chk t d r' es e p vs,
    rinsert (run b ops) t d = (r', ROk tt) -> parse t = Ret es -> In e es -> fits chk (exp_route e) p vs ->
    rsearch chk r' p <> None.
Proof. exact reach_insert_matched. Qed.
Print Assumptions C06_insert_fitted_paths_matched.

Theorem C06_delete_changes_only_fitted_paths :
  forall b (ops : list op) chk t d r' p,
    rdelete (run b ops) t = (r', ROk d) ->
    (forall es e vs, parse t = Ret es -> In e es -> ~ fits chk (exp_route e) p vs) ->
    rsearch chk r' p = rsearch chk (run b ops) p.
Proof. exact reach_delete_nonint. Qed.
Print Assumptions C06_delete_changes_only_fitted_paths.
