(* C07 - no input makes the router panic; every failure is a returned error.  Statements only.
   The parser model is written in checked style: every index, slice and subtraction of src/parser.rs is an
   explicit operation yielding [Panic site] when out of range, loops and the recursion on nested groups run on
   fuel ([Fuel] when exhausted).  Proved: neither outcome occurs, for any byte string.  The tree operations of
   the model are total functions; for the three places where the Rust code indexes or unwraps (prefix[0] in
   insert_static / find_static, constraints.get(..).unwrap() in the search) the facts that make them safe are
   proved for every history.  Not expressible in the model: stack exhaustion, allocation failure, arithmetic
   on lengths beyond usize - decided by running the real crate under catch_unwind with overflow checks. *)
From WF Require Import Base.Bytes Spec.Route Spec.Walk Model.Tree Model.Parser Model.Ops Model.Router Spec.Inv.
From WF Require Import Proofs.InsertP Proofs.InsRoutesP Proofs.InvP Proofs.ReachP Proofs.ParserPartsP Proofs.ParserSafeP Proofs.ConsRegP.

(* every byte string is either parsed or rejected with a template error *)
Theorem C07_parser_total :
  forall t, (exists es, parse t = Ret es) \/ (exists e, parse t = Err e).
Proof. exact parse_total. Qed.
Print Assumptions C07_parser_total.

Theorem C07_insert_never_panics : forall r t d s, snd (rinsert r t d) <> RPanic s.
Proof. exact rinsert_never_panics. Qed.
Print Assumptions C07_insert_never_panics.

Theorem C07_delete_never_panics : forall r t s, snd (rdelete r t) <> RPanic s.
Proof. exact rdelete_never_panics. Qed.
Print Assumptions C07_delete_never_panics.

(* what the parser hands to the tree: literal parts and names are never empty (prefix[0] is in range) *)
Theorem C07_parts_well_formed :
  forall t es, parse t = Ret es -> Forall (fun e : expansion => parts_wf false (snd e) = true) es.
Proof. exact parse_parts_wf. Qed.
Print Assumptions C07_parts_well_formed.

(* in every reachable tree every literal child has a non-empty prefix (child.state.prefix[0] is in range) *)
Theorem C07_reachable_static_prefixes_nonempty :
  forall builtins (ops : list op), wf (r_root (run builtins ops)) = true.
Proof. intros b ops. apply (reachable_inv b ops). Qed.
Print Assumptions C07_reachable_static_prefixes_nonempty.

(* every constraint named in a stored route is registered (constraints.get(name).unwrap() cannot fail) *)
Theorem C07_reachable_constraints_registered :
  forall builtins (ops : list op) r0 i c,
    RM (r_root (run builtins ops)) r0 i -> In c (route_cons r0) -> registered (run builtins ops) c = true.
Proof. exact reachable_constraints_registered. Qed.
Print Assumptions C07_reachable_constraints_registered.

(* the only slicing in the error renderers: the two replace_range calls that draw the carets of a
   DuplicateParameter error on a line of template.len() ASCII spaces.  Both ranges lie inside that line, in order,
   for every such error the parser returns - for every input. *)
From WF Require Import Proofs.UnmatchedP.
Theorem C07_duplicate_carets_in_range :
  forall (t0 t n : bytes) f fl s sl,
    parse t0 = Err (EDuplicateParameter t n f fl s sl) ->
    f + fl <= length t /\ s + sl <= length t /\ f + fl <= s.
Proof. exact parse_dup_in_range. Qed.
Print Assumptions C07_duplicate_carets_in_range.

(* ---- the search, at the level of indices and slices (Model/SearchC.v: every `path[consumed]`, `&path[..consumed]`,
        `&path[consumed..]`, `&path[prefix.len()..]` and the `constraints.get(name).unwrap()` is an explicit operation
        that can return Panic; loops run on fuel) ---- *)
From WF Require Import Model.Constraints Model.SearchC Proofs.SearchCP.
Print grow.
Print dyn_segment.
Print check_c.

(* for every history and every path: the index-level search returns (no Panic, no fuel exhaustion) and returns exactly
   the answer of the functional search the routing theorems are about *)
Theorem C07_search_never_panics :
  forall b (ops : list op) (path : bytes),
    search_c (r_constraints (run b ops)) (r_root (run b ops)) path
    = Ret (search (cfun_of (r_constraints (run b ops))) (r_root (run b ops)) path).
Proof. exact reachable_search_c. Qed.
Print Assumptions C07_search_never_panics.

(* for every tree that meets the stated precondition (constraint names registered, catch-all children carry data) *)
Theorem C07_index_level_search_is_the_search :
  forall cons n path, sc_ok cons n = true -> search_c cons n path = Ret (search (cfun_of cons) n path).
Proof. exact search_c_refines. Qed.
Print Assumptions C07_index_level_search_is_the_search.

(* ---- insert, find and delete at the level of indices (Model/OpsC.v: every `prefix[0]`, `child.state.prefix[0]`,
        `prefix[common_prefix..]`, `child.state.prefix[..common_prefix]`, `static_children[1]`, `children[index]`,
        `children.remove(index)`, `static_children.remove(0)` and `&prefix[child.state.prefix.len()..]` is an explicit
        operation that can return Panic; the recursion runs on fuel and running out is the outcome Fuel) ---- *)
From WF Require Import Model.OpsC Proofs.OpsCP.
Print insert_static_c.
Print find_static_c.
Print delete_static_c.

(* node level: on every tree whose literal children have non-empty prefixes (PNE), for every well-formed part list and
   enough fuel, the checked operations return (no Panic, no Fuel) exactly what the functional operations compute *)
Theorem C07_index_level_insert_is_the_insert :
  forall fuel n ps d b, parts_size ps < fuel -> PNE n -> parts_wf b ps = true ->
    insert_c fuel n ps d = Ret (insert fuel n ps d).
Proof. intros fuel. exact (proj1 (insert_c_refines fuel)). Qed.
Print Assumptions C07_index_level_insert_is_the_insert.

Theorem C07_index_level_find_is_the_find :
  forall fuel n ps b, parts_size ps < fuel -> parts_wf b ps = true -> find_c fuel n ps = Ret (find_node fuel n ps).
Proof. intros fuel. exact (proj1 (find_c_refines fuel)). Qed.
Print Assumptions C07_index_level_find_is_the_find.

Theorem C07_index_level_delete_is_the_delete :
  forall fuel n ps b, parts_size ps < fuel -> PNE n -> parts_wf b ps = true ->
    delete_c fuel n ps = Ret (delete fuel n ps).
Proof. intros fuel. exact (proj1 (delete_c_refines fuel)). Qed.
Print Assumptions C07_index_level_delete_is_the_delete.

(* the precondition is met by every structurally well-formed tree *)
Theorem C07_wellformed_trees_have_nonempty_prefixes : forall n, wf n = true -> PNE n.
Proof. exact wf_PNE. Qed.
Print Assumptions C07_wellformed_trees_have_nonempty_prefixes.

(* router level, every history, every template string: Router::insert and Router::delete written over the checked
   parser and the checked tree operations are the functional ones - hence return Ok or an error value, never Panic
   (index, slice, remove out of range) and never run out of fuel *)
Theorem C07_index_level_router_insert :
  forall b (ops : list op) t d, rinsert_c (run b ops) t d = rinsert (run b ops) t d.
Proof. exact reachable_rinsert_c. Qed.
Print Assumptions C07_index_level_router_insert.

Theorem C07_index_level_router_delete :
  forall b (ops : list op) t, rdelete_c (run b ops) t = rdelete (run b ops) t.
Proof. exact reachable_rdelete_c. Qed.
Print Assumptions C07_index_level_router_delete.

Theorem C07_insert_delete_never_panic_at_index_level :
  forall b (ops : list op) t d s,
    snd (rinsert_c (run b ops) t d) <> RPanic s /\ snd (rdelete_c (run b ops) t) <> RPanic s.
Proof. exact reachable_ops_c_never_panic. Qed.
Print Assumptions C07_insert_delete_never_panic_at_index_level.

(* ---- Router::new: one `router.constraint::<T>().unwrap()` per built-in, in the order REGENERATED from src/router.rs;
        Router::constraint fails exactly on a name that is already registered.  Replayed on the model from the empty
        router, every one of these calls returns Ok (the names regenerated from src/constraints.rs are distinct) ---- *)
From WF Require Import Gen.Tables Proofs.BuiltinsP.
Theorem C07_router_new_unwraps_succeed :
  length new_router_registrations = length gen_builtin_registered
  /\ snd router_new_c = true
  /\ map fst (r_constraints (fst router_new_c)) = map fst new_router_registrations.
Proof. exact router_new_unwraps_ok. Qed.
Print Assumptions C07_router_new_unwraps_succeed.

(* ---- the tree printer at the level of its arithmetic (Model/DisplayC.v: the counter of children still to print,
        `count -= 1` before every child of the seven lists, is an explicit subtraction that can return Panic) ---- *)
From WF Require Import Model.Display Model.DisplayC Proofs.DisplayCP.
Print go_c.
Theorem C07_display_never_panics : forall n, display_c n = Ret (display n).
Proof. exact display_c_refines. Qed.
Print Assumptions C07_display_never_panics.

(* ---- the inventory: every expression of the sources that can panic by itself (REGENERATED from /repo on this run:
        Gen/Sites.v) is one the checked models and theorems above account for, by name (Proofs/SitesP.v) ---- *)
From WF Require Import Gen.Sites Proofs.SitesP.
Theorem C07_every_panic_capable_site_is_accounted_for :
  sites_eqb gen_panic_sites expected_panic_sites = true.
Proof. exact panic_sites_accounted_for. Qed.
Print Assumptions C07_every_panic_capable_site_is_accounted_for.
