(* C18 - searching is read-only; Send/Sync.  Statements only.
   The type-level clause (Router<T>: Send + Sync) is decided by rustc: harness/src/main.rs contains
   assert_send_sync::<Router<u32>>() and does not build otherwise.  The Coq part is deliberately
   small: the model's search is a function of (tree, path), and the regenerated inventory of
   src/ shows that there is no place where state could live between or during searches. *)
From WF Require Import Base.Bytes Spec.Route Spec.Walk Model.Tree Proofs.PurityP Gen.Purity.

Theorem C18_no_hidden_state :
  gen_impure_sites = [] /\ gen_forbid_unsafe = true /\ gen_constraint_send_sync = true.
Proof. exact purity_ok. Qed.
Print Assumptions C18_no_hidden_state.

(* any schedule of searches (thread id, path) in any order yields, for each entry, the sequential
   answer, and the tree is the same value afterwards *)
Definition run_schedule (chk : bytes -> bytes -> bool) (t : node) (sched : list (nat * bytes)) : node * list (nat * res) :=
  (t, map (fun tp : nat * bytes => (fst tp, search chk t (snd tp))) sched).

Theorem C18_schedule_independent :
  forall chk t sched,
    fst (run_schedule chk t sched) = t
    /\ forall th p, In (th, p) sched -> In (th, search chk t p) (snd (run_schedule chk t sched)).
Proof.
  intros chk t sched. split; [reflexivity|].
  intros th p Hin. unfold run_schedule. cbn [snd].
  apply in_map_iff. exists (th, p). split; [reflexivity|exact Hin].
Qed.
Print Assumptions C18_schedule_independent.
