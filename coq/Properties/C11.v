(* C11 - the parser accepts exactly the documented template language, decoded faithfully.  Statements only.
   The documented language is Spec/Grammar.v (written over lists, no cursor arithmetic): wellformed_exp for one
   expansion, template_spec for a whole template.  Proved: for every valid UTF-8 text, the cursor-based parser
   model of one expansion (parse_template) accepts iff wellformed_exp does and then returns exactly its parts;
   hence for every template without parentheses the whole parser computes template_spec.  Not proved: that the
   optional-group expansion (expand) enumerates expansions_spec; that half is decided by the Grammar oracle
   (every string of length <= 5/6 over the syntax alphabet, random templates). *)
From WF Require Import Base.Bytes Base.Utf8 Spec.Route Spec.Grammar Model.Parser.
From WF Require Import Proofs.ParserSafeP Proofs.ParserSpecP Proofs.ParserConstsP.

Print wellformed_exp.
Print exp_parts.
Print param_of_content.
Print static_text.

Theorem C11_one_expansion_parsed_as_documented :
  forall raw : bytes, raw <> [] -> utf8_valid raw = true ->
    to_opt (parse_template raw) = option_map (fun ps => (raw, ps)) (wellformed_exp raw).
Proof. exact parse_template_spec. Qed.
Print Assumptions C11_one_expansion_parsed_as_documented.

Theorem C11_one_expansion_accepted_iff_wellformed :
  forall (raw : bytes) ps, raw <> [] -> utf8_valid raw = true ->
    (parse_template raw = Ret (raw, ps) <-> wellformed_exp raw = Some ps).
Proof. exact parse_template_accepts. Qed.
Print Assumptions C11_one_expansion_accepted_iff_wellformed.

Theorem C11_one_expansion_rejected_iff_illformed :
  forall raw : bytes, raw <> [] -> utf8_valid raw = true ->
    ((exists e, parse_template raw = Err e) <-> wellformed_exp raw = None).
Proof. exact parse_template_rejects. Qed.
Print Assumptions C11_one_expansion_rejected_iff_illformed.

(* templates without '(' and ')' bytes: the whole parser is the documented language *)
Theorem C11_parenthesis_free_template_parsed_as_documented :
  forall t : bytes, plain t = true -> utf8_valid t = true -> to_opt (parse t) = template_spec t.
Proof. exact parse_plain_is_template_spec. Qed.
Print Assumptions C11_parenthesis_free_template_parsed_as_documented.
