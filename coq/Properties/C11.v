(* C11 - the parser accepts exactly the documented template language, decoded faithfully.  Statements only.
   The documented language is Spec/Grammar.v (written over lists, no cursor arithmetic): wellformed_exp for one
   expansion, template_spec for a whole template.  Proved: for every valid UTF-8 text, the cursor-based parser
   model of one expansion (parse_template) accepts iff wellformed_exp does and then returns exactly its parts;
   the optional-group scanner (expand) enumerates exactly expansions_spec, in order; hence for EVERY valid UTF-8
   string the whole parser computes template_spec: accepted iff in the documented language, decoded as documented. *)
From WF Require Import Base.Bytes Base.Utf8 Spec.Route Spec.Grammar Model.Parser.
From WF Require Import Proofs.ParserSafeP Proofs.ParserSpecP Proofs.ParserConstsP Proofs.ExpandSpecP.

Print wellformed_exp.
Print exp_parts.
Print param_of_content.
Print static_text.

Theorem C11_one_expansion_parsed_as_documented :
  forall raw : bytes, raw <> [] -> utf8_valid raw = true ->
    to_opt (parse_template raw) = option_map (fun ps => (raw, ps)) (wellformed_exp raw).
Proof. exact parse_template_spec. Qed.
Print Assumptions C11_one_expansion_parsed_as_documented.

Theorem C11_one_expansion_accepted_iff_wellformed :
  forall (raw : bytes) ps, raw <> [] -> utf8_valid raw = true ->
    (parse_template raw = Ret (raw, ps) <-> wellformed_exp raw = Some ps).
Proof. exact parse_template_accepts. Qed.
Print Assumptions C11_one_expansion_accepted_iff_wellformed.

Theorem C11_one_expansion_rejected_iff_illformed :
  forall raw : bytes, raw <> [] -> utf8_valid raw = true ->
    ((exists e, parse_template raw = Err e) <-> wellformed_exp raw = None).
Proof. exact parse_template_rejects. Qed.
Print Assumptions C11_one_expansion_rejected_iff_illformed.

(* templates without '(' and ')' bytes: the whole parser is the documented language *)
Theorem C11_parenthesis_free_template_parsed_as_documented :
  forall t : bytes, plain t = true -> utf8_valid t = true -> to_opt (parse t) = template_spec t.
Proof. exact parse_plain_is_template_spec. Qed.
Print Assumptions C11_parenthesis_free_template_parsed_as_documented.

(* ---- the whole parser, every valid UTF-8 string ---- *)
Print template_spec.
Print expansions_spec.
Print gparse.
Print expand_items.

Theorem C11_parser_is_the_documented_language :
  forall t : bytes, utf8_valid t = true -> to_opt (parse t) = template_spec t.
Proof. exact parse_is_template_spec. Qed.
Print Assumptions C11_parser_is_the_documented_language.

Theorem C11_accepted_iff_documented :
  forall (t : bytes) es, utf8_valid t = true -> (parse t = Ret es <-> template_spec t = Some es).
Proof. exact parse_accepts_iff. Qed.
Print Assumptions C11_accepted_iff_documented.

Theorem C11_rejected_iff_not_documented :
  forall t : bytes, utf8_valid t = true -> ((exists e, parse t = Err e) <-> template_spec t = None).
Proof. exact parse_rejects_iff. Qed.
Print Assumptions C11_rejected_iff_not_documented.
