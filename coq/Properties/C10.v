(* C10 - failed calls change nothing, and insert followed by delete is the identity (model level).
   Statements only. *)
From WF Require Import Base.Bytes Spec.Route Model.Tree Model.Parser Model.Router Proofs.RouterP.

Theorem C10_failed_insert_changes_nothing :
  forall r t d r' e, rinsert r t d = (r', RErr e) -> r' = r.
Proof. exact rinsert_error_noop. Qed.
Print Assumptions C10_failed_insert_changes_nothing.

Theorem C10_failed_constraint_changes_nothing :
  forall r n ty r' e, rconstraint r n ty = (r', RErr e) -> r' = r.
Proof. exact rconstraint_error_noop. Qed.
Print Assumptions C10_failed_constraint_changes_nothing.

(* delete: every error is returned before the first mutation, except the NotFound that follows the
   removal loop when nothing was handed back *)
Theorem C10_failed_delete_partial :
  forall r t r' e, rdelete r t = (r', RErr e) ->
    r' = r \/ (e = DENotFound t /\ exists root, r' = Router root (r_constraints r)).
Proof. exact rdelete_error_noop. Qed.
Print Assumptions C10_failed_delete_partial.

(* ---- for every router reachable by a history of operations ---- *)
From WF Require Import Spec.Walk Proofs.InsRoutesP Proofs.ReachP Proofs.ReachOpsP.

Theorem C10_failed_delete_changes_nothing :
  forall b (ops : list op) t r' e, rdelete (run b ops) t = (r', RErr e) -> r' = run b ops.
Proof. exact reach_delete_error_noop. Qed.
Print Assumptions C10_failed_delete_changes_nothing.

(* after a successful insert(t, d), delete(t) succeeds, returns d, and restores the set of stored routes with
   their infos, the constraint table, and the result of every search *)
Theorem C10_insert_then_delete_is_identity :
  forall b (ops : list op) t d r1,
    rinsert (run b ops) t d = (r1, ROk tt) ->
    exists r2, rdelete r1 t = (r2, ROk d)
      /\ r_constraints r2 = r_constraints (run b ops)
      /\ (forall r0 i, RM (r_root r2) r0 i <-> RM (r_root (run b ops)) r0 i)
      /\ (forall chk p, rsearch chk r2 p = rsearch chk (run b ops) p).
Proof. exact reach_roundtrip. Qed.
Print Assumptions C10_insert_then_delete_is_identity.

(* ... and the printed tree (the tree itself, up to the flags and dirty marks that Display does not print) *)
From WF Require Import Model.Display Proofs.UniqueP Proofs.UniqueDisplayP.
Theorem C10_insert_then_delete_restores_the_printed_tree :
  forall b (ops : list op) t d r1,
    rinsert (run b ops) t d = (r1, ROk tt) ->
    exists r2, rdelete r1 t = (r2, ROk d)
      /\ display (r_root r2) = display (r_root (run b ops))
      /\ erase (r_root r2) = erase (r_root (run b ops)).
Proof. exact reach_roundtrip_display. Qed.
Print Assumptions C10_insert_then_delete_restores_the_printed_tree.

(* ---- the order of steps in Router::insert and Router::delete, REGENERATED from src/router.rs on this run (Gen/Shapes.v):
        every validation (parse, unknown constraint, conflicts / mismatch, not found) returns before the first mutation;
        conflicts are sorted, then deduplicated; optimize runs after the mutation loop; a delete that removed nothing
        reports NotFound before optimize - the order Model/Router.v rinsert / rdelete follow ---- *)
From Coq Require Import String.
From WF Require Import Gen.Shapes Proofs.ShapesP.
Theorem C10_validation_precedes_mutation :
  bl_eqb gen_insert_steps
    ["parse"; "loop"; "loop"; "return"; "unknown-constraint"; "loop"; "find"; "push"; "if-conflicts"; "sort"; "dedup";
     "return"; "conflict"; "loop"; "insert"; "insert"; "optimize"; "ok"]%string = true
  /\ bl_eqb gen_delete_steps
    ["parse"; "loop"; "find"; "continue"; "continue"; "return"; "mismatch"; "loop"; "find"; "return"; "not-found";
     "loop"; "delete"; "return"; "not-found"; "optimize"; "ok"]%string = true.
Proof. exact router_steps_shape. Qed.
Print Assumptions C10_validation_precedes_mutation.
