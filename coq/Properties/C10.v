(* C10 - failed calls change nothing (model level); the round-trip half is decided by the
   correspondence/oracle path (FRoundtrip), no theorem yet.  Statements only. *)
From WF Require Import Base.Bytes Spec.Route Model.Tree Model.Parser Model.Router Proofs.RouterP.

Theorem C10_failed_insert_changes_nothing :
  forall r t d r' e, rinsert r t d = (r', RErr e) -> r' = r.
Proof. exact rinsert_error_noop. Qed.
Print Assumptions C10_failed_insert_changes_nothing.

Theorem C10_failed_constraint_changes_nothing :
  forall r n ty r' e, rconstraint r n ty = (r', RErr e) -> r' = r.
Proof. exact rconstraint_error_noop. Qed.
Print Assumptions C10_failed_constraint_changes_nothing.

(* delete: every error is returned before the first mutation, except the NotFound that follows the
   removal loop when nothing was handed back *)
Theorem C10_failed_delete_partial :
  forall r t r' e, rdelete r t = (r', RErr e) ->
    r' = r \/ (e = DENotFound t /\ exists root, r' = Router root (r_constraints r)).
Proof. exact rdelete_error_noop. Qed.
Print Assumptions C10_failed_delete_partial.
