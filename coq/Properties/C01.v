(* C01 - every match is genuine.  Statements only; proofs are in Proofs/. *)
From WF Require Import Base.Bytes Base.Utf8 Spec.Route Spec.Walk Model.Tree Spec.Inv.
From WF Require Import Proofs.WalkP Proofs.RefineP Proofs.FitsP.

(* substituting the values for the parameters of a route, in order *)
Check subst_route : route -> list bytes -> option bytes.

(* For every tree satisfying the structural invariant (checked on every dump of the real tree),
   every constraint predicate and every path: a match is one of the routes of the tree, its
   parameter names are those of the route in order, and the route fits the path with exactly the
   returned values. *)
Theorem C01_search_genuine :
  forall (chk : bytes -> bytes -> bool) (t : node) (p : bytes) (i : info) (ps : params),
    inv_b t = true ->
    search chk t p = Some (i, ps) ->
    exists r, In (r, i) (routes_of t)
              /\ map fst ps = param_names r
              /\ fits chk r p (map snd ps).
Proof. exact search_genuine. Qed.
Print Assumptions C01_search_genuine.

(* what "fits" entails, spelled out as in the property text *)
Theorem C01_fits_rebuilds_path :
  forall chk r p vs, fits chk r p vs -> subst_route r vs = Some p.
Proof. exact fits_subst. Qed.
Print Assumptions C01_fits_rebuilds_path.

Theorem C01_fits_values :
  forall chk r p vs, fits chk r p vs ->
    Forall2 (fun (a : atom) (v : bytes) =>
               v <> [] /\ utf8_valid v = true
               /\ match a with
                  | AD _ c => ~ In SL v /\ copt chk c v = true
                  | AW _ c => copt chk c v = true
                  | AB _ => False
                  end) (params_of r) vs.
Proof. exact fits_values. Qed.
Print Assumptions C01_fits_values.

(* the same statement for the reference walk alone *)
Theorem C01_walk_genuine :
  forall chk rs p i ps, W chk rs p = Some (i, ps) ->
    exists r, In (r, i) rs /\ map fst ps = param_names r /\ fits chk r p (map snd ps).
Proof. intros chk rs p i ps. apply walk_sound. Qed.
Print Assumptions C01_walk_genuine.

(* ---- for every history of operations on the model router ---- *)
From WF Require Import Model.Router Proofs.ReachP.

(* every router reachable from Router::new by any sequence of insert / delete / constraint calls
   (successful or failing) satisfies the invariant ... *)
Theorem C01_every_reachable_router_has_the_invariant :
  forall builtins (ops : list op), inv_b (r_root (run builtins ops)) = true.
Proof. exact reachable_inv_b. Qed.
Print Assumptions C01_every_reachable_router_has_the_invariant.

(* ... hence every match it ever returns is genuine *)
Theorem C01_reachable_search_genuine :
  forall builtins (ops : list op) (chk : bytes -> bytes -> bool) (p : bytes) (i : info) (ps : params),
    rsearch chk (run builtins ops) p = Some (i, ps) ->
    exists r, In (r, i) (routes_of (r_root (run builtins ops)))
              /\ map fst ps = param_names r
              /\ fits chk r p (map snd ps).
Proof.
  intros builtins ops chk p i ps H. eapply search_genuine; [apply reachable_inv_b|exact H].
Qed.
Print Assumptions C01_reachable_search_genuine.

(* ---- in terms of the live templates: [live_of b ops] is the list of (template, data) pairs the history left live ---- *)
From WF Require Import Model.Parser Proofs.RouterRoutesP Proofs.RegistryP Proofs.ReachOpsP.
Theorem C01_reachable_match_names_a_live_template :
  forall b (ops : list op) chk p i ps,
    rsearch chk (run b ops) p = Some (i, ps) ->
    In (i_template i, i_data i) (live_of b ops)
    /\ exists es e, parse (i_template i) = Ret es /\ In e es
         /\ map fst ps = param_names (exp_route e) /\ fits chk (exp_route e) p (map snd ps)
         /\ tinfo (i_template i) (i_data i) es (exp_route e) = Some i.
Proof. exact reach_match_is_live. Qed.
Print Assumptions C01_reachable_match_names_a_live_template.

(* ---- the eight parameter searches of src/node/search.rs as sequences of recognised statements, REGENERATED on this run
        (Gen/Loops.v): each has exactly the statements, in the order, of one of the loop shapes of Model/SearchC.v (grow in its
        three modes, dyn_segment), over the child list of its kind, with the constraint check exactly in the constrained ones,
        and no further continue / break / return ---- *)
From WF Require Import Gen.Loops Proofs.LoopsP.
Theorem C01_search_loops_have_the_model_shapes : loops_eqb gen_search_loops expected_loops = true.
Proof. exact search_loops_have_the_model_shapes. Qed.
Print Assumptions C01_search_loops_have_the_model_shapes.
