(* C09 - delete removes exactly the template named by the identical string (model level).  Statements only. *)
From WF Require Import Base.Bytes Spec.Route Spec.Walk Model.Tree Model.Parser Model.Router.
From WF Require Import Proofs.InsRoutesP Proofs.RouterP Proofs.ReachP Proofs.RouterRoutesP Proofs.RegistryP Proofs.ReachOpsP.

Print route_of_template.
Print lstep.

(* delete(t) succeeds with d iff (t, d) is live: the identical string, the data given at insertion *)
Theorem C09_delete_succeeds_iff_live :
  forall b (ops : list op) t d,
    (exists r', rdelete (run b ops) t = (r', ROk d)) <-> In (t, d) (live_of b ops).
Proof. exact reach_delete_ok_iff_live. Qed.
Print Assumptions C09_delete_succeeds_iff_live.

(* it then removes every expansion of t and nothing else *)
Theorem C09_delete_removes_exactly_the_expansions :
  forall b (ops : list op) t d r',
    rdelete (run b ops) t = (r', ROk d) ->
    exists es, parse t = Ret es
      /\ (forall e i, In e es -> ~ RM (r_root r') (exp_route e) i)
      /\ (forall r0 i, (forall e, In e es -> r0 <> exp_route e) ->
            (RM (r_root r') r0 i <-> RM (r_root (run b ops)) r0 i)).
Proof. exact reach_delete_removes. Qed.
Print Assumptions C09_delete_removes_exactly_the_expansions.

(* a mismatch names a live template that owns one of t's routes; t itself is not live *)
Theorem C09_mismatch_names_a_live_owner :
  forall b (ops : list op) t r' t' ins,
    rdelete (run b ops) t = (r', RErr (DEMismatch t' ins)) ->
    r' = run b ops /\ t' = t /\ ins <> t /\ (exists d, In (ins, d) (live_of b ops))
    /\ (forall d, ~ In (t, d) (live_of b ops))
    /\ exists r0, route_of_template t r0 /\ route_of_template ins r0.
Proof. exact reach_delete_mismatch. Qed.
Print Assumptions C09_mismatch_names_a_live_owner.

Theorem C09_notfound_means_no_live_owner :
  forall b (ops : list op) t r' t',
    rdelete (run b ops) t = (r', RErr (DENotFound t')) ->
    r' = run b ops /\ t' = t /\ (forall d, ~ In (t, d) (live_of b ops))
    /\ forall t0 d0 r0, In (t0, d0) (live_of b ops) -> route_of_template t r0 -> ~ route_of_template t0 r0.
Proof. exact reach_delete_notfound. Qed.
Print Assumptions C09_notfound_means_no_live_owner.

(* conversely, which of the two errors a parsable, non-live template gets *)
Theorem C09_not_live_error_choice :
  forall b (ops : list op) t es,
    parse t = Ret es -> (forall d, ~ In (t, d) (live_of b ops)) ->
    ((exists t0 d0 r0, In (t0, d0) (live_of b ops) /\ route_of_template t r0 /\ route_of_template t0 r0) ->
        exists ins, rdelete (run b ops) t = (run b ops, RErr (DEMismatch t ins)))
    /\ ((forall t0 d0 r0, In (t0, d0) (live_of b ops) -> route_of_template t r0 -> ~ route_of_template t0 r0) ->
        rdelete (run b ops) t = (run b ops, RErr (DENotFound t))).
Proof. exact reach_delete_not_live. Qed.
Print Assumptions C09_not_live_error_choice.

(* ---- the prune and merge tests of delete, REGENERATED from src/node/delete.rs on this run (Gen/Shapes.v) ---- *)
From Coq Require Import String.
From WF Require Import Gen.Shapes Proofs.ShapesP.
Theorem C09_prune_and_merge_tests_cover_every_list :
  bl_eqb gen_is_empty ("self.data.is_none()"%string :: map (fun f => ("self." ++ f ++ ".is_empty()")%string) seven_lists) = true
  /\ bl_eqb gen_is_compressible
       ("self.data.is_none()"%string :: "self.static_children.len() == 1"%string
        :: map (fun f => ("self." ++ f ++ ".is_empty()")%string) (tl seven_lists)) = true.
Proof. exact prune_tests_shape. Qed.
Print Assumptions C09_prune_and_merge_tests_cover_every_list.

(* the same tests compiled and read over the model's nodes: they ARE Model/Ops.v is_empty / is_compressible, on every node *)
From WF Require Import Model.Tree Model.Ops.
Theorem C09_regenerated_prune_tests_are_the_model_tests :
  (exists je jc, all_conj gen_is_empty = Some je /\ all_conj gen_is_compressible = Some jc
     /\ forall n, forallb (fun j => sem_conj j n) je = is_empty n /\ forallb (fun j => sem_conj j n) jc = is_compressible n).
Proof. exact regenerated_prune_tests_are_the_model_tests. Qed.
Print Assumptions C09_regenerated_prune_tests_are_the_model_tests.
