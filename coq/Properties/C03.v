(* C03 - the documented priority picks the winner.  Statements only.
   W (Spec/Walk.v) is the executable text of the documented walk over a plain list of routes. *)
From Coq Require Import Permutation.
From WF Require Import Base.Bytes Base.Utf8 Spec.Route Spec.Walk Model.Tree Spec.Inv.
From WF Require Import Proofs.RefineP Proofs.TreeCorP Proofs.OrderP.

Theorem C03_search_is_documented_walk :
  forall (chk : bytes -> bytes -> bool) (t : node) (p : bytes),
    inv_b t = true -> search chk t p = W chk (routes_of t) p.
Proof. exact search_refines_W. Qed.
Print Assumptions C03_search_is_documented_walk.

(* ... over any arrangement of the routes (e.g. the list induced by the live templates) *)
Theorem C03_search_is_walk_of_live_routes :
  forall chk rs t p,
    inv_b t = true -> Permutation (routes_of t) rs -> NoDup (map fst (routes_of t)) ->
    search chk t p = W chk rs p.
Proof. exact search_is_W_of. Qed.
Print Assumptions C03_search_is_walk_of_live_routes.

(* regenerated from src/node/search.rs on every run: the order of attempts and the flag gates *)
Check search_order_documented.
Check model_kind_order.

(* ---- for every history of operations on the model router ---- *)
From WF Require Import Model.Router Proofs.ReachP.
Theorem C03_reachable_search_is_documented_walk :
  forall builtins (ops : list op) chk p,
    rsearch chk (run builtins ops) p = W chk (routes_of (r_root (run builtins ops))) p.
Proof. exact reachable_search_is_W. Qed.
Print Assumptions C03_reachable_search_is_documented_walk.

(* ---- the order of siblings, REGENERATED from src/state.rs on this run (Gen/Keys.v): parameter nodes are ordered by name,
        constrained ones by name and then constraint, literal nodes by prefix, and every PartialOrd delegates to Ord;
        the model's order on keys (kcmp) is exactly that ---- *)
From Coq Require Import Ascii String.
From WF Require Import Base.Bytes Check.Tokens Gen.Keys Proofs.KeysP.
Theorem C03_sibling_order_is_name_then_constraint :
  (ord_StaticState = w "self.prefix.cmp(&other.prefix)"
   /\ Forall (fun o => o = w "self.name.cmp(&other.name)") [ord_DynamicState; ord_WildcardState; ord_EndWildcardState]
   /\ Forall (fun o => o = w "self.name.cmp(&other.name).then_with(||self.constraint.cmp(&other.constraint))")
        [ord_DynamicConstrainedState; ord_WildcardConstrainedState; ord_EndWildcardConstrainedState]
   /\ partial_ord_delegates = partial_ord_impls)
  /\ (forall a b : bytes, kcmp (a, None) (b, None) = bcmp a b)
  /\ (forall a b c d : bytes, kcmp (a, Some c) (b, Some d) = match bcmp a b with Eq => bcmp c d | o => o end).
Proof. split; [exact sibling_order_shape|]. split; [exact kcmp_unconstrained|exact kcmp_constrained]. Qed.
Print Assumptions C03_sibling_order_is_name_then_constraint.

(* ---- which of two successful candidates is kept, REGENERATED from src/node/search.rs on this run (Gen/Rankings.v): the
        closure of every `best_match.map_or(..)`, read over the model's route infos, is `better` of the documented walk -
        for every pair of infos -, the same in all six loops, and `best_match` is used nowhere else ---- *)
From WF Require Import Gen.Rankings Proofs.RankingsP.
Theorem C03_regenerated_ranking_is_the_documented_priority :
  (forall x, In x gen_rankings ->
     forall a best, sem_rank x a best = match best with None => true | Some b => better a b end)
  /\ map (fun x : bytes * bool * rarm * rarm * rarm => fst (fst (fst (fst x)))) gen_rankings = map w six_loops
  /\ gen_best_match_uses = length gen_rankings /\ gen_best_match_assignments = length gen_rankings.
Proof.
  split; [exact regenerated_rankings_are_better|].
  split; [exact (proj1 rankings_table)|exact (proj2 (proj2 rankings_table))].
Qed.
Print Assumptions C03_regenerated_ranking_is_the_documented_priority.
