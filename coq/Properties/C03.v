(* C03 - the documented priority picks the winner.  Statements only.
   W (Spec/Walk.v) is the executable text of the documented walk over a plain list of routes. *)
From Coq Require Import Permutation.
From WF Require Import Base.Bytes Base.Utf8 Spec.Route Spec.Walk Model.Tree Spec.Inv.
From WF Require Import Proofs.RefineP Proofs.TreeCorP Proofs.OrderP.

Theorem C03_search_is_documented_walk :
  forall (chk : bytes -> bytes -> bool) (t : node) (p : bytes),
    inv_b t = true -> search chk t p = W chk (routes_of t) p.
Proof. exact search_refines_W. Qed.
Print Assumptions C03_search_is_documented_walk.

(* ... over any arrangement of the routes (e.g. the list induced by the live templates) *)
Theorem C03_search_is_walk_of_live_routes :
  forall chk rs t p,
    inv_b t = true -> Permutation (routes_of t) rs -> NoDup (map fst (routes_of t)) ->
    search chk t p = W chk rs p.
Proof. exact search_is_W_of. Qed.
Print Assumptions C03_search_is_walk_of_live_routes.

(* regenerated from src/node/search.rs on every run: the order of attempts and the flag gates *)
Check search_order_documented.
Check model_kind_order.

(* ---- for every history of operations on the model router ---- *)
From WF Require Import Model.Router Proofs.ReachP.
Theorem C03_reachable_search_is_documented_walk :
  forall builtins (ops : list op) chk p,
    rsearch chk (run builtins ops) p = W chk (routes_of (r_root (run builtins ops))) p.
Proof. exact reachable_search_is_W. Qed.
Print Assumptions C03_reachable_search_is_documented_walk.
