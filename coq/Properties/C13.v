(* C13 - constraints.  Statements only. *)
From WF Require Import Base.Bytes Base.Utf8 Spec.Route Spec.Walk Model.Tree Model.Router Spec.Inv.
From WF Require Import Proofs.BuiltinsP Proofs.WalkCompleteP Proofs.TreeCorP Gen.Tables.

(* (a) a name already in use is refused and the registration list is unchanged *)
Theorem C13_duplicate_name_refused :
  forall r name ty old,
    List.find (fun nt : bytes * bytes => beqb (fst nt) name) (r_constraints r) = Some (name, old) ->
    rconstraint r name ty = (r, RErr (CEDuplicateName name old ty)).
Proof. intros r name ty old H. unfold rconstraint. rewrite H. reflexivity. Qed.
Print Assumptions C13_duplicate_name_refused.

(* (c) regenerated from src/constraints.rs and Router::new on every run: seventeen built-ins, each
   body is `part.parse::<Self>().is_ok()`, NAME = the type's own name (ipv4/ipv6 for the address
   types), all registered.  FromStr itself is std code outside the model (tied by the `builtin`
   channel: routed vs str::parse::<T>() called directly). *)
Check builtin_table_ok.

(* (d) a rejected value makes only that alternative fail: for ARBITRARY constraint predicates the
   search answers whenever some route fits (longer/shorter values and lower-priority routes are
   still tried) *)
Theorem C13_rejection_skips_one_alternative :
  forall (chk : bytes -> bytes -> bool) t p r i vs,
    inv_b t = true -> In (r, i) (routes_of t) -> fits chk r p vs -> search chk t p <> None.
Proof. exact search_complete. Qed.
Print Assumptions C13_rejection_skips_one_alternative.
