(* C13 - constraints.  Statements only. *)
From WF Require Import Base.Bytes Base.Utf8 Spec.Route Spec.Walk Model.Tree Model.Router Spec.Inv.
From WF Require Import Proofs.BuiltinsP Proofs.WalkCompleteP Proofs.TreeCorP Gen.Tables.

(* (a) a name already in use is refused and the registration list is unchanged *)
Theorem C13_duplicate_name_refused :
  forall r name ty old,
    List.find (fun nt : bytes * bytes => beqb (fst nt) name) (r_constraints r) = Some (name, old) ->
    rconstraint r name ty = (r, RErr (CEDuplicateName name old ty)).
Proof. intros r name ty old H. unfold rconstraint. rewrite H. reflexivity. Qed.
Print Assumptions C13_duplicate_name_refused.

(* (c) regenerated from src/constraints.rs and Router::new on every run: seventeen built-ins, each
   body is `part.parse::<Self>().is_ok()`, NAME = the type's own name (ipv4/ipv6 for the address
   types), all registered.  FromStr itself is std code outside the model (tied by the `builtin`
   channel: routed vs str::parse::<T>() called directly). *)
Check builtin_table_ok.

(* (d) a rejected value makes only that alternative fail: for ARBITRARY constraint predicates the
   search answers whenever some route fits (longer/shorter values and lower-priority routes are
   still tried) *)
Theorem C13_rejection_skips_one_alternative :
  forall (chk : bytes -> bytes -> bool) t p r i vs,
    inv_b t = true -> In (r, i) (routes_of t) -> fits chk r p vs -> search chk t p <> None.
Proof. exact search_complete. Qed.
Print Assumptions C13_rejection_skips_one_alternative.

(* ---- (a), (b) for every history (Proofs/ConstraintsP.v) ---- *)
From WF Require Import Model.Parser Model.Constraints Proofs.ReachP Proofs.RouterRoutesP Proofs.ConstraintsP.
Print in_force.

(* a registration either is refused (name in use: the router is returned unchanged, the error names the type in
   force) or appends the new pair *)
Theorem C13_registration_outcome :
  forall r name ty,
    match in_force r name with
    | Some (_, old) => rconstraint r name ty = (r, RErr (CEDuplicateName name old ty))
    | None => rconstraint r name ty = (Router (r_root r) (r_constraints r ++ [(name, ty)]), ROk tt)
    end.
Proof. exact rconstraint_outcome. Qed.
Print Assumptions C13_registration_outcome.

(* what is in force under a name never changes again, whatever is called afterwards - so the original stays in
   force after a refused duplicate, and the check function every later search uses for that name is its function *)
Theorem C13_original_stays_in_force :
  forall b (ops ops' : list op) name x,
    in_force (run b ops) name = Some x -> in_force (run b (ops ++ ops')) name = Some x.
Proof. exact in_force_forever. Qed.
Print Assumptions C13_original_stays_in_force.

Theorem C13_check_function_stays :
  forall b (ops ops' : list op) name x v,
    in_force (run b ops) name = Some x ->
    cfun_of (r_constraints (run b (ops ++ ops'))) name v = cfun_of (r_constraints (run b ops)) name v.
Proof. exact cfun_forever. Qed.
Print Assumptions C13_check_function_stays.

(* (b) a template that names an unregistered constraint is refused and nothing changes; and only then *)
Theorem C13_unknown_constraint_refused :
  forall r t d es,
    parse t = Ret es ->
    ((exists c, rinsert r t d = (r, RErr (IEUnknownConstraint c))) <-> unknown_constraint r es <> None).
Proof. exact unknown_constraint_iff. Qed.
Print Assumptions C13_unknown_constraint_refused.

Theorem C13_unknown_constraint_is_named_and_unregistered :
  forall r es c, unknown_constraint r es = Some c ->
    registered r c = false /\ exists e p, In e es /\ In p (snd e) /\ part_constraint p = Some c.
Proof. exact unknown_constraint_spec. Qed.
Print Assumptions C13_unknown_constraint_is_named_and_unregistered.

(* (d) for every history, with the check functions actually registered *)
Theorem C13_reachable_rejection_skips_one_alternative :
  forall b (ops : list op) p r i vs,
    In (r, i) (routes_of (r_root (run b ops))) ->
    fits (cfun_of (r_constraints (run b ops))) r p vs ->
    rsearch (cfun_of (r_constraints (run b ops))) (run b ops) p <> None.
Proof. intros b ops p r i vs. apply search_complete. apply reachable_inv_b. Qed.
Print Assumptions C13_reachable_rejection_skips_one_alternative.
