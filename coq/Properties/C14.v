(* C14 - template errors point at the real fault.  Statements only.
   Proved: the rendering half (caret line of exactly `position` spaces and `length` carets under the reported
   template) over the regenerated format strings; and, for every error the parser model returns on any input:
   the reported text is the input itself (group errors) or one of its documented expansions (all others), every
   position and length lies inside it, and the indicated bytes are "()" / a parenthesis / "{}" / a brace / the
   brace-delimited parameter(s) concerned; and for the five parameter errors the stated cause is the real one:
   with the text between the braces split at its first ':', the name is empty / is just '*' / (after a leading
   '*') is the reported name and holds a reserved character / the constraint is empty / is the reported one and
   holds a reserved character.  Not proved (decided by the oracle err_ok_b of Check/Checker.v on every error the
   crate produces - exhaustive over the syntax alphabet to length 5/6 plus random templates): that the two
   parameters of a duplicate error carry the reported name, that an unbalanced-parenthesis error points at an
   UNMATCHED one and an unbalanced-brace error at the FIRST brace fault. *)
From WF Require Import Base.Bytes Spec.Route Model.Parser Model.Render Model.Display Proofs.RenderP.

Theorem C14_render_caret_line :
  forall e : terr,
  match e with
  | EEmptyBraces t p | EEmptyParentheses t p =>
    Infix (t ++ CARET_MID ++ repeat SP p ++ repeat CARET 2) (render_terr e)
  | EUnbalancedBrace t p | EUnbalancedParenthesis t p =>
    Infix (t ++ CARET_MID ++ repeat SP p ++ repeat CARET 1) (render_terr e)
  | EEmptyParameter t s l | EInvalidParameter t _ s l | EEmptyWildcard t s l
  | EEmptyConstraint t s l | EInvalidConstraint t _ s l | ETouchingParameters t s l =>
    Infix (t ++ CARET_MID ++ repeat SP s ++ repeat CARET l) (render_terr e)
  | EMissingLeadingSlash t => Infix t (render_terr e)
  | EDuplicateParameter t n f fl s sl =>
    Infix (t ++ CARET_MID ++ set_carets (set_carets (repeat SP (length t)) f fl) s sl) (render_terr e)
    /\ Infix n (render_terr e)
  | EEmpty => True
  end.
Proof. exact render_terr_caret_line. Qed.
Print Assumptions C14_render_caret_line.

(* ---- the fault is present ---- *)
From WF Require Import Spec.Grammar Proofs.ErrP.
Print paren_err_ok.
Print tmpl_err_ok.
Print braced.

Theorem C14_error_names_a_present_fault :
  forall (t : bytes) (e : terr),
    parse t = Err e ->
    (e = EEmpty /\ t = [])
    \/ paren_err_ok t e
    \/ exists es raw, expansions_spec t = Some es /\ In raw es /\ tmpl_err_ok raw e.
Proof. exact parse_err_ok. Qed.
Print Assumptions C14_error_names_a_present_fault.

Theorem C14_group_errors_point_at_parentheses :
  forall (t : bytes) (e : terr),
    expand (S (length t)) t 0 (length t) = Err e -> paren_err_ok t e.
Proof. exact expand_err_ok. Qed.
Print Assumptions C14_group_errors_point_at_parentheses.

Theorem C14_expansion_errors_point_at_braces :
  forall (raw : bytes) (e : terr), parse_template raw = Err e -> tmpl_err_ok raw e.
Proof. exact parse_template_err. Qed.
Print Assumptions C14_expansion_errors_point_at_braces.

(* ---- and what is wrong between the braces ---- *)
Print cause_ok.
Print inside.
Theorem C14_error_states_the_actual_cause :
  forall (t : bytes) (e : terr),
    parse t = Err e ->
    (e = EEmpty /\ t = []) \/ paren_err_ok t e
    \/ exists es raw, expansions_spec t = Some es /\ In raw es /\ tmpl_err_ok raw e /\ cause_at raw e.
Proof. exact parse_err_cause. Qed.
Print Assumptions C14_error_states_the_actual_cause.

(* ---- duplicates: both reported spans carry exactly the reported name ---- *)
Print dup_ok.
Print name_inside.
Theorem C14_full :
  forall (t : bytes) (e : terr),
    parse t = Err e ->
    (e = EEmpty /\ t = []) \/ paren_err_ok t e
    \/ exists es raw, expansions_spec t = Some es /\ In raw es
         /\ tmpl_err_ok raw e /\ cause_at raw e /\ dup_ok raw e.
Proof. exact parse_err_full. Qed.
Print Assumptions C14_full.

(* ---- "the unmatched brace or parenthesis": everything before the reported byte is balanced, and it is a closer
        with nothing open or an opener that never closes (Print nest / bnest: escape pairs skipped) ---- *)
From WF Require Import Proofs.ExpandSpecP Proofs.UnmatchedP.
Print nest.
Print bnest.
Print split_close.
Print brace_content.
Print paren_unmatched.
Print brace_unmatched.
Theorem C14_complete :
  forall (t : bytes) (e : terr),
    parse t = Err e ->
    (e = EEmpty /\ t = [])
    \/ (paren_err_ok t e /\ paren_unmatched t e)
    \/ exists es raw, expansions_spec t = Some es /\ In raw es
         /\ tmpl_err_ok raw e /\ cause_at raw e /\ dup_ok raw e /\ brace_unmatched raw e.
Proof. exact parse_err_complete. Qed.
Print Assumptions C14_complete.

(* ---- which TemplateError each parser function can construct, in source order, REGENERATED from src/parser.rs on this
        run (Gen/ParserErrors.v): the seventeen sites of the parser model, every one of the thirteen variants, no other ---- *)
From WF Require Import Base.Bytes Check.Tokens Gen.ParserErrors Proofs.ParserErrorsP.
Theorem C14_parser_error_sites_are_the_models :
  pe_eqb gen_parser_errors expected_parser_errors = true
  /\ forallb (fun v => existsb (fun fv : bytes * bytes => beqb (snd fv) (w v)) gen_parser_errors) thirteen_variants = true
  /\ forallb (fun fv : bytes * bytes => existsb (fun v => beqb (snd fv) (w v)) thirteen_variants) gen_parser_errors = true.
Proof. exact parser_error_sites. Qed.
Print Assumptions C14_parser_error_sites_are_the_models.
