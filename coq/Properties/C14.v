(* C14 - template errors point at the real fault.  Statements only.
   Proved so far: the rendering half (caret line of exactly `position` spaces and `length` carets
   under the reported template) over the regenerated format strings.  The "fault really present"
   half is decided by the oracle err_ok_b (Check/Checker.v) on every error the crate produces
   (exhaustive over the syntax alphabet to length 5/6 plus random templates); no theorem yet. *)
From WF Require Import Base.Bytes Spec.Route Model.Parser Model.Render Model.Display Proofs.RenderP.

Theorem C14_render_caret_line :
  forall e : terr,
  match e with
  | EEmptyBraces t p | EEmptyParentheses t p =>
    Infix (t ++ CARET_MID ++ repeat SP p ++ repeat CARET 2) (render_terr e)
  | EUnbalancedBrace t p | EUnbalancedParenthesis t p =>
    Infix (t ++ CARET_MID ++ repeat SP p ++ repeat CARET 1) (render_terr e)
  | EEmptyParameter t s l | EInvalidParameter t _ s l | EEmptyWildcard t s l
  | EEmptyConstraint t s l | EInvalidConstraint t _ s l | ETouchingParameters t s l =>
    Infix (t ++ CARET_MID ++ repeat SP s ++ repeat CARET l) (render_terr e)
  | EMissingLeadingSlash t => Infix t (render_terr e)
  | EDuplicateParameter t n f fl s sl =>
    Infix (t ++ CARET_MID ++ set_carets (set_carets (repeat SP (length t)) f fl) s sl) (render_terr e)
    /\ Infix n (render_terr e)
  | EEmpty => True
  end.
Proof. exact render_terr_caret_line. Qed.
Print Assumptions C14_render_caret_line.
