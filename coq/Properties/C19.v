(* C19 - route-table errors carry and render the exact strings involved.  Statements only.
   The render theorems are about the format strings REGENERATED from src/errors/*.rs on every run. *)
From Coq Require Import Sorted.
From WF Require Import Base.Bytes Spec.Route Model.Tree Model.Parser Model.Router Model.Render.
From WF Require Import Proofs.RouterP Proofs.RenderP.

Theorem C19_conflict_names_the_template :
  forall r t d r' t' cs, rinsert r t d = (r', RErr (IEConflict t' cs)) -> t' = t.
Proof. exact rinsert_conflict_template. Qed.
Print Assumptions C19_conflict_names_the_template.

Theorem C19_conflicts_sorted_nonempty :
  forall r t d r' t' cs, rinsert r t d = (r', RErr (IEConflict t' cs)) -> StronglySorted blt cs /\ cs <> [].
Proof. exact rinsert_conflicts_sorted. Qed.
Print Assumptions C19_conflicts_sorted_nonempty.

Theorem C19_unknown_constraint_genuine :
  forall r t d r' c, rinsert r t d = (r', RErr (IEUnknownConstraint c)) ->
    registered r c = false /\
    exists es e p, parse t = Ret es /\ In e es /\ In p (snd e) /\ part_constraint p = Some c.
Proof. exact rinsert_unknown_genuine. Qed.
Print Assumptions C19_unknown_constraint_genuine.

Theorem C19_delete_errors_name_the_template :
  forall r t r' e, rdelete r t = (r', RErr e) ->
    match e with DENotFound t' => t' = t | DEMismatch t' _ => t' = t | DETemplate _ => True end.
Proof. exact rdelete_payload_template. Qed.
Print Assumptions C19_delete_errors_name_the_template.

Theorem C19_render_conflict :
  forall t cs, Infix t (render_insert_err (IEConflict t cs))
               /\ forall c, In c cs -> Infix c (render_insert_err (IEConflict t cs)).
Proof. exact render_conflict_contains. Qed.
Print Assumptions C19_render_conflict.

Theorem C19_render_unknown : forall c, Infix c (render_insert_err (IEUnknownConstraint c)).
Proof. exact render_unknown_contains. Qed.
Print Assumptions C19_render_unknown.

Theorem C19_render_notfound : forall t, Infix t (render_delete_err (DENotFound t)).
Proof. exact render_notfound_contains. Qed.
Print Assumptions C19_render_notfound.

Theorem C19_render_mismatch :
  forall t i, Infix t (render_delete_err (DEMismatch t i)) /\ Infix i (render_delete_err (DEMismatch t i)).
Proof. exact render_mismatch_contains. Qed.
Print Assumptions C19_render_mismatch.

Theorem C19_render_duplicate :
  forall n old new,
    Infix n (render_constraint_err (CEDuplicateName n old new))
    /\ Infix old (render_constraint_err (CEDuplicateName n old new))
    /\ Infix new (render_constraint_err (CEDuplicateName n old new)).
Proof. exact render_duplicate_contains. Qed.
Print Assumptions C19_render_duplicate.
