(* C02 - no false negatives.  Statements only. *)
From WF Require Import Base.Bytes Base.Utf8 Spec.Route Spec.Walk Model.Tree Spec.Inv.
From WF Require Import Proofs.WalkCompleteP Proofs.TreeCorP.

(* A path that some route of the tree fits is always answered; for every tree satisfying the
   invariant, every constraint predicate, every path. *)
Theorem C02_no_false_negatives :
  forall (chk : bytes -> bytes -> bool) (t : node) (p : bytes) (r : route) (i : info) (vs : list bytes),
    inv_b t = true -> In (r, i) (routes_of t) -> fits chk r p vs -> search chk t p <> None.
Proof. exact search_complete. Qed.
Print Assumptions C02_no_false_negatives.

(* None exactly when nothing fits *)
Theorem C02_none_iff_nothing_fits :
  forall chk t p, inv_b t = true ->
    (search chk t p = None <-> forall r i vs, In (r, i) (routes_of t) -> ~ fits chk r p vs).
Proof. exact search_none_iff. Qed.
Print Assumptions C02_none_iff_nothing_fits.

(* the walk alone *)
Theorem C02_walk_complete :
  forall chk rs p r i vs, In (r, i) rs -> fits chk r p vs -> W chk rs p <> None.
Proof. exact W_complete. Qed.
Print Assumptions C02_walk_complete.

(* ---- for every history of operations on the model router ---- *)
From WF Require Import Model.Router Proofs.ReachP.
Theorem C02_reachable_no_false_negatives :
  forall builtins (ops : list op) chk p r i vs,
    In (r, i) (routes_of (r_root (run builtins ops))) -> fits chk r p vs ->
    rsearch chk (run builtins ops) p <> None.
Proof. intros builtins ops chk p r i vs. apply search_complete. apply reachable_inv_b. Qed.
Print Assumptions C02_reachable_no_false_negatives.

(* ---- the tests on literal prefixes, REGENERATED from src/node/{search,delete,insert,find}.rs on this run
        (Gen/Prefixes.v): read with the meaning of the Rust iterator expressions they ARE the predicates of the model -
        `p.len() >= k.len() && k.iter().zip(p).all(==)` is starts_with and `&p[k.len()..]` the rest it returns (search_static,
        delete_static); `k[0] == p[0]` is same_first (insert_static, find_static); the common prefix is lcp - for all
        byte strings ---- *)
From Coq Require Import Ascii String.
From WF Require Import Base.Bytes Model.Ops Check.Tokens Gen.Prefixes Proofs.PrefixesP.
Theorem C02_regenerated_prefix_tests_are_the_model_predicates :
  (forall f cs sl, In (f, cs, sl) gen_prefix_tests ->
     (f = w "search_static" \/ f = w "delete_static") ->
     sl = w "child.state.prefix.len().." /\
     forall k p, sem_test cs k p = match starts_with k p with Some _ => true | None => false end
                 /\ (forall rest, starts_with k p = Some rest -> skipn (length k) p = rest))
  /\ (forall f cs sl, In (f, cs, sl) gen_prefix_tests ->
     (f = w "insert_static" \/ f = w "find_static") -> forall k p, sem_test cs k p = same_first k p)
  /\ Forall (fun fb : bytes * bool => snd fb = true) gen_common_prefix
  /\ (forall p k, take_while_count (combine p k) = lcp p k)
  /\ map (fun x : bytes * list pcond * bytes => fst (fst x)) gen_prefix_tests
     = [w "search_static"; w "delete_static"; w "insert_static"; w "find_static"].
Proof. exact regenerated_prefix_tests_are_the_model_predicates. Qed.
Print Assumptions C02_regenerated_prefix_tests_are_the_model_predicates.

(* ---- the eight parameter searches of src/node/search.rs as sequences of recognised statements, REGENERATED on this run
        (Gen/Loops.v): each has exactly the statements, in the order, of one of the loop shapes of Model/SearchC.v (grow in its
        three modes, dyn_segment), over the child list of its kind, with the constraint check exactly in the constrained ones,
        and no further continue / break / return ---- *)
From WF Require Import Gen.Loops Proofs.LoopsP.
Theorem C02_search_loops_have_the_model_shapes : loops_eqb gen_search_loops expected_loops = true.
Proof. exact search_loops_have_the_model_shapes. Qed.
Print Assumptions C02_search_loops_have_the_model_shapes.
