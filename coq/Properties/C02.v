(* C02 - no false negatives.  Statements only. *)
From WF Require Import Base.Bytes Base.Utf8 Spec.Route Spec.Walk Model.Tree Spec.Inv.
From WF Require Import Proofs.WalkCompleteP Proofs.TreeCorP.

(* A path that some route of the tree fits is always answered; for every tree satisfying the
   invariant, every constraint predicate, every path. *)
Theorem C02_no_false_negatives :
  forall (chk : bytes -> bytes -> bool) (t : node) (p : bytes) (r : route) (i : info) (vs : list bytes),
    inv_b t = true -> In (r, i) (routes_of t) -> fits chk r p vs -> search chk t p <> None.
Proof. exact search_complete. Qed.
Print Assumptions C02_no_false_negatives.

(* None exactly when nothing fits *)
Theorem C02_none_iff_nothing_fits :
  forall chk t p, inv_b t = true ->
    (search chk t p = None <-> forall r i vs, In (r, i) (routes_of t) -> ~ fits chk r p vs).
Proof. exact search_none_iff. Qed.
Print Assumptions C02_none_iff_nothing_fits.

(* the walk alone *)
Theorem C02_walk_complete :
  forall chk rs p r i vs, In (r, i) rs -> fits chk r p vs -> W chk rs p <> None.
Proof. exact W_complete. Qed.
Print Assumptions C02_walk_complete.

(* ---- for every history of operations on the model router ---- *)
From WF Require Import Model.Router Proofs.ReachP.
Theorem C02_reachable_no_false_negatives :
  forall builtins (ops : list op) chk p r i vs,
    In (r, i) (routes_of (r_root (run builtins ops))) -> fits chk r p vs ->
    rsearch chk (run builtins ops) p <> None.
Proof. intros builtins ops chk p r i vs. apply search_complete. apply reachable_inv_b. Qed.
Print Assumptions C02_reachable_no_false_negatives.
