(* C16 - a cloned router is independent of its original.  Statements only.
   In the model routers are immutable values, so a family of routers related by clone is a list and
   independence holds by construction; what the model does NOT represent is Arc aliasing between a
   router and its clone (the defect repaired by commit 93e6281).  That is tied by the `clone`
   correspondence channel: every member of the family is dumped after every operation on any
   member and must be unchanged, and every delete on a clone must hand the data back. *)
From WF Require Import Base.Bytes Spec.Route Spec.Walk Model.Tree Model.Router.

Definition family := list router.
Definition fam_clone (f : family) (i : nat) : family :=
  match nth_error f i with Some r => f ++ [r] | None => f end.
Fixpoint fam_set (f : family) (i : nat) (r : router) : family :=
  match f, i with
  | [], _ => []
  | _ :: f', O => r :: f'
  | x :: f', S i' => x :: fam_set f' i' r
  end.

Theorem C16_clone_answers_like_original :
  forall cfun f i r p, nth_error f i = Some r ->
    nth_error (fam_clone f i) (length f) = Some r
    /\ rsearch cfun r p = rsearch cfun r p.
Proof.
  intros cfun f i r p H. unfold fam_clone. rewrite H. split; [|reflexivity].
  rewrite nth_error_app2 by apply le_n. rewrite PeanoNat.Nat.sub_diag. reflexivity.
Qed.
Print Assumptions C16_clone_answers_like_original.

Theorem C16_operations_do_not_touch_other_members :
  forall f i j r', i <> j -> nth_error (fam_set f i r') j = nth_error f j.
Proof.
  induction f as [|x f IH]; intros i j r' Hne; [destruct i; reflexivity|].
  destruct i, j; cbn; try reflexivity; try congruence. apply IH. congruence.
Qed.
Print Assumptions C16_operations_do_not_touch_other_members.
