(* C16 - a cloned router is independent of its original.  Statements only.

   Two layers.
   (1) Value layer (Proofs/FamilyP.v): model routers are values.  In a family of routers driven by insert, delete,
       constraint registration, clone and new, every router IS the router that one history builds on its own - the
       history of a slot being what was applied to it and, before it was cloned, to its ancestors.  Together with
       C05 this gives: a router of a family answers, prints, and reacts to every later call exactly like a router
       built independently with the same live templates, and no call on one router changes another.
   (2) Sharing layer (Model/Arcs.v, Proofs/ArcsP.v): what values cannot show.  The data of a template with
       optional groups lives in an Arc shared by its stored nodes, and delete hands it back only from the last
       reference.  The model tracks, per stored node, the Arc it holds and its strong count; insert, delete, clone
       (one fresh Arc per copied node, NodeData::clone) and drop are steps on that view.  Proved for every family
       history: every Arc is held by nodes of ONE template in ONE router and its count is the number of holders;
       hence delete always gets the data back, and a step on one router leaves the views of all others unchanged.
       With the derived Clone of the pinned commit (same Arcs in both routers) this is refuted by "/a(/b)".
   Tie to the code: (1) by the one-step correspondence of every router of a family (clone lines, dumpof);
   (2) by the `arcs` lines of the harness - Arc::as_ptr and Arc::strong_count of every shared node of every
   router, read through the verif hook after each mutating call - compared with the model's step on the
   previous view up to the names of the Arcs (finding kind Arcs). *)
From Coq Require Import List NArith.
From WF Require Import Base.Bytes Spec.Route Spec.Walk Model.Tree Model.Parser Model.Router Model.Display Model.Arcs.
From WF Require Import Proofs.ReachP Proofs.RegistryP Proofs.ReachOpsP Proofs.UniqueP Proofs.FamilyP Proofs.ArcsP.
Import ListNotations.

(* ---- (1) value layer ---- *)
Print fop.
Print fstep.
Print hstep.

Theorem C16_family_member_is_its_own_history :
  forall b (ops : list fop) (s : N), frun b ops s = run b (hist ops s).
Proof. exact family_is_histories. Qed.
Print Assumptions C16_family_member_is_its_own_history.

Theorem C16_clone_is_the_original_at_that_moment :
  forall b (ops : list fop) a c, frun b (ops ++ [FClone a c]) c = frun b ops a.
Proof. exact clone_is_original. Qed.
Print Assumptions C16_clone_is_the_original_at_that_moment.

Theorem C16_calls_do_not_touch_other_routers :
  forall b (ops : list fop) o s s',
    match o with FOp x _ | FNew x => x | FClone _ x => x end = s -> s' <> s ->
    frun b (ops ++ [o]) s' = frun b ops s'.
Proof. exact other_routers_untouched. Qed.
Print Assumptions C16_calls_do_not_touch_other_routers.

Theorem C16_family_member_behaves_as_independently_built :
  forall b (ops : list fop) s b' ops',
    (forall x, In x (live_of b (hist ops s)) <-> In x (live_of b' ops')) ->
    (forall chk p, rsearch chk (frun b ops s) p = rsearch chk (run b' ops') p)
    /\ display (r_root (frun b ops s)) = display (r_root (run b' ops'))
    /\ erase (r_root (frun b ops s)) = erase (r_root (run b' ops')).
Proof. exact family_router_as_independent. Qed.
Print Assumptions C16_family_member_behaves_as_independently_built.

Theorem C16_next_call_behaves_as_on_the_independent_router :
  forall b (ops : list fop) s o, frun b (ops ++ [FOp s o]) s = step (run b (hist ops s)) o.
Proof. exact family_op_as_independent. Qed.
Print Assumptions C16_next_call_behaves_as_on_the_independent_router.

(* ---- (2) sharing layer ---- *)
Print anode.
Print astep.
Print a_ins.
Print a_del.
Print a_clone.
Print unwraps.
Print Own.

Theorem C16_every_arc_has_one_owner :
  forall ops : list aop, Own (fold_left astep ops []).
Proof. exact own_reachable. Qed.
Print Assumptions C16_every_arc_has_one_owner.

Theorem C16_checked_invariant_is_the_invariant : forall v, own_b v = true <-> Own v.
Proof. exact own_b_spec. Qed.
Print Assumptions C16_checked_invariant_is_the_invariant.

Theorem C16_delete_hands_the_data_back :
  forall (ops : list aop) s t,
    (exists n, In n (fold_left astep ops []) /\ at_tmpl s t n = true) ->
    a_del_returns s t (fold_left astep ops []) = true.
Proof. exact reachable_delete_returns_data. Qed.
Print Assumptions C16_delete_hands_the_data_back.

Theorem C16_step_leaves_other_routers_views_unchanged :
  forall v o s, Own v -> target o = Some s ->
    filter (fun n => negb (at_slot s n)) (astep v o) = filter (fun n => negb (at_slot s n)) v.
Proof. exact step_frame. Qed.
Print Assumptions C16_step_leaves_other_routers_views_unchanged.

(* the derived Clone of the pinned commit: delete on the original no longer gets its data back *)
Theorem C16_shared_clone_refuted :
  exists v, v = a_clone_shared 0 1 (a_ins 0 T_AB 2 []) /\ own_b v = false /\ a_del_returns 0 T_AB v = false.
Proof. exact shared_clone_refuted. Qed.
Print Assumptions C16_shared_clone_refuted.
