(* C08 - insert refuses exactly the structural duplicates and names each of them once (model level).
   Statements only.  [live_of b ops] is the list of (template, data) pairs that the history left live;
   [route_of_template t r0] says r0 is the part sequence of an expansion of t. *)
From Coq Require Import Sorted.
From WF Require Import Base.Bytes Spec.Route Spec.Walk Model.Tree Model.Parser Model.Router.
From WF Require Import Proofs.RouterP Proofs.ReachP Proofs.RouterRoutesP Proofs.RegistryP Proofs.ReachOpsP.

Print route_of_template.
Print lstep.

(* a conflict changes nothing, names the candidate, and lists - strictly increasing, hence once each -
   exactly the live templates that own a route of the candidate *)
Theorem C08_conflict_lists_exactly_the_owners :
  forall b (ops : list op) t d r' t' cs,
    rinsert (run b ops) t d = (r', RErr (IEConflict t' cs)) ->
    r' = run b ops /\ t' = t /\ StronglySorted blt cs /\ cs <> []
    /\ forall c, In c cs <->
         (exists dc, In (c, dc) (live_of b ops)) /\ exists r0, route_of_template t r0 /\ route_of_template c r0.
Proof. exact reach_insert_conflict. Qed.
Print Assumptions C08_conflict_lists_exactly_the_owners.

(* a well-formed template with registered constraints is refused iff such a live template exists *)
Theorem C08_conflict_iff_structural_duplicate :
  forall b (ops : list op) t d es,
    parse t = Ret es -> unknown_constraint (run b ops) es = None ->
    ((exists c dc r0, In (c, dc) (live_of b ops) /\ route_of_template t r0 /\ route_of_template c r0) ->
        exists cs, rinsert (run b ops) t d = (run b ops, RErr (IEConflict t cs)))
    /\ ((forall c dc r0, In (c, dc) (live_of b ops) -> route_of_template t r0 -> ~ route_of_template c r0) ->
        exists r', rinsert (run b ops) t d = (r', ROk tt)).
Proof. exact reach_insert_outcome. Qed.
Print Assumptions C08_conflict_iff_structural_duplicate.

(* after a successful insert every expansion is routable *)
Theorem C08_inserted_expansions_routable :
  forall b (ops : list op) chk t d r' es e p vs,
    rinsert (run b ops) t d = (r', ROk tt) -> parse t = Ret es -> In e es -> fits chk (exp_route e) p vs ->
    rsearch chk r' p <> None.
Proof. exact reach_insert_matched. Qed.
Print Assumptions C08_inserted_expansions_routable.

(* ---- Router::insert, REGENERATED from src/router.rs on this run (Gen/Shapes.v): the conflicts of ALL expansions are
        collected, then sorted, then deduplicated, and the error returns before anything is inserted ---- *)
From Coq Require Import String.
From WF Require Import Gen.Shapes Proofs.ShapesP.
Theorem C08_conflicts_collected_sorted_then_deduplicated :
  bl_eqb gen_insert_steps
    ["parse"; "loop"; "loop"; "return"; "unknown-constraint"; "loop"; "find"; "push"; "if-conflicts"; "sort"; "dedup";
     "return"; "conflict"; "loop"; "insert"; "insert"; "optimize"; "ok"]%string = true.
Proof. exact (proj1 router_steps_shape). Qed.
Print Assumptions C08_conflicts_collected_sorted_then_deduplicated.

(* ---- the eighteen per-kind functions insert_<kind> / find_<kind> / delete_<kind>, REGENERATED from src/node/{insert,find,
        delete}.rs on this run (Gen/KindOps.v): each touches only the child list of its own kind and recognises a child by name,
        and constraint where the kind has one; over the model's keys that test is keqb ---- *)
From WF Require Import Spec.Route Spec.Walk Gen.KindOps Proofs.KindOpsP.
Theorem C08_per_kind_functions_use_their_own_list_and_key_equality :
  ko_eqb gen_kind_ops expected_kind_ops = true
  /\ forall k child wanted, key_of_kind k child -> key_of_kind k wanted -> sem_kind_test k child wanted = keqb child wanted.
Proof. split; [exact kind_ops_table|exact kind_test_is_keqb]. Qed.
Print Assumptions C08_per_kind_functions_use_their_own_list_and_key_equality.
