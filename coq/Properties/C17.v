(* C17 - the OCI example routes every distribution-spec endpoint to its handler.  Statements only.
   The example's routers (one per HTTP method) are modelled as the routers reached by inserting the route table
   REGENERATED from examples/oci/src every run (Gen/Oci.v), with the name constraint checked by the name grammar
   name_ok (Spec/OciSpec.v).  Proved, for every URL (no length bound): a routed URL is a genuine reading - a
   template of the table for that method laid over the URL, name accepted by the grammar, parameters verbatim;
   a URL that has such a reading is routed; the stored routes are exactly the expansions of the table's
   templates (trailing-slash group included), and every insert of the table succeeds.  Not proved: that the
   method -> handler table equals end-1..end-10 of the distribution specification (checked by oci_table_wf
   and by the oracle spec_handler on every generated method x URL; known finding K1: end-5 PATCH is missing),
   which reading wins when a URL has several (oracle: one of the readings), and that the `regex` crate decides
   the name grammar (OciName: regex vs name_ok on every string of length <= 6 over a 0 . _ - / A). *)
From WF Require Import Base.Bytes Spec.Route Spec.Walk Spec.OciSpec Model.Tree Model.Parser Model.Router.
From WF Require Import Check.Oci Gen.Oci Proofs.InsRoutesP Proofs.ReachP Proofs.RouterRoutesP Proofs.RegistryP Proofs.ReachOpsP Proofs.OciP.

Print oci_router.
Print oci_chk.
Print name_ok.

Theorem C17_model_routers_are_histories : forall m, oci_router m = run oci_builtins (oci_ops m).
Proof. exact oci_router_is_run. Qed.
Print Assumptions C17_model_routers_are_histories.

Theorem C17_every_table_insert_succeeds :
  forallb (fun m =>
    (fix eqb (a b : list (bytes * N)) : bool :=
       match a, b with
       | [], [] => true
       | (t1, d1) :: a', (t2, d2) :: b' => beqb t1 t2 && N.eqb d1 d2 && eqb a' b'
       | _, _ => false
       end) (live_of oci_builtins (oci_ops m)) (table_slice m)) methods = true.
Proof. exact oci_live_is_table. Qed.
Print Assumptions C17_every_table_insert_succeeds.

Theorem C17_stored_routes_are_the_table_expansions :
  forall m r0 i,
    RM (r_root (oci_router m)) r0 i <->
    exists t d es, In (t, d) (live_of oci_builtins (oci_ops m)) /\ parse t = Ret es /\ tinfo t d es r0 = Some i.
Proof. exact oci_routes_are_the_table. Qed.
Print Assumptions C17_stored_routes_are_the_table_expansions.

Theorem C17_routed_url_is_a_genuine_reading :
  forall m url i ps,
    rsearch oci_chk (oci_router m) url = Some (i, ps) ->
    exists r, RM (r_root (oci_router m)) r i /\ map fst ps = param_names r /\ fits oci_chk r url (map snd ps).
Proof. exact oci_routed_is_genuine. Qed.
Print Assumptions C17_routed_url_is_a_genuine_reading.

Theorem C17_url_with_a_reading_is_routed :
  forall m url r i vs,
    RM (r_root (oci_router m)) r i -> fits oci_chk r url vs -> rsearch oci_chk (oci_router m) url <> None.
Proof. exact oci_fitting_url_is_routed. Qed.
Print Assumptions C17_url_with_a_reading_is_routed.

(* ---- the regenerated table against end-1..end-10 (closed computations over Gen/Oci.v, re-checked every run) ---- *)
From WF Require Import Proofs.OciTableP.
Print shape_template.
Print spec_table.

(* every route the example registers is the template of a specified (method, shape), with the specified handler *)
Theorem C17_table_within_the_specification :
  forallb (fun e => existsb (entry_eqb e) spec_table) oci_routes = true.
Proof. exact table_within_spec. Qed.
Print Assumptions C17_table_within_the_specification.

(* every specified (method, shape) has its route and handler in the table - except end-5 (K1) *)
Theorem C17_specification_within_the_table_except_end5 :
  forallb (fun e => existsb (entry_eqb e) oci_routes || entry_eqb e END5) spec_table = true.
Proof. exact spec_within_table_except_end5. Qed.
Print Assumptions C17_specification_within_the_table_except_end5.

Theorem C17_one_route_per_method_and_template :
  forallb (fun e => Nat.eqb (length (filter (fun e' => beqb (fst (fst e)) (fst (fst e')) && beqb (snd (fst e)) (snd (fst e'))) oci_routes)) 1) oci_routes = true.
Proof. exact no_duplicate_table_entries. Qed.
Print Assumptions C17_one_route_per_method_and_template.

(* ---- which URLs are routed, for every URL and every HTTP method (Proofs/OciSemP.v) ---- *)
From WF Require Import Proofs.OciSemP.
Print url_shape.
Print tok.
Print rname.
Print expected_params.

(* a routed URL has the shape of an endpoint that end-1..end-10 define for the method and that the example
   registers; the match carries that endpoint's handler and the repository name / last token verbatim *)
Theorem C17_routed_url_reaches_the_specified_handler :
  forall m url i ps,
    In m methods -> rsearch oci_chk (oci_router m) url = Some (i, ps) ->
    exists sh n last b h,
      In (m, shape_template sh, h) oci_routes /\ spec_handler m sh = Some h
      /\ url_shape sh n last b url /\ handler_of (i_data i) = h /\ ps = expected_params n sh last.
Proof. exact oci_routed_means. Qed.
Print Assumptions C17_routed_url_reaches_the_specified_handler.

(* for every method and every URL: routed iff end-1..end-10 define an endpoint of that method with a URL of that
   shape (repository name accepted by the name grammar, last token non-empty without '/', at most one trailing
   '/') - end-5 only if the example registers it *)
Theorem C17_routed_iff_specified :
  forall m url,
    In m methods ->
    (rsearch oci_chk (oci_router m) url <> None <->
     exists sh n last b h,
       spec_handler m sh = Some h /\ ((m, shape_template sh, h) = END5 -> end5_present = true)
       /\ url_shape sh n last b url).
Proof. exact oci_spec_semantics. Qed.
Print Assumptions C17_routed_iff_specified.

(* ---- the executable URL decomposition that judges the REAL example (Spec/OciSpec.v readings, used by check_oci)
        finds exactly the declarative shapes, for every valid UTF-8 URL (Proofs/OciReadP.v) ---- *)
From WF Require Import Base.Utf8 Proofs.OciReadP.
Print readings.
Theorem C17_oracle_reads_urls_as_specified :
  forall url sh n last,
    utf8_valid url = true -> (In (sh, n, last) (readings url) <-> exists b, url_shape sh n last b url).
Proof. exact readings_spec. Qed.
Print Assumptions C17_oracle_reads_urls_as_specified.

(* ---- the name constraint: the regular expression REGENERATED from examples/oci/src/constraints/name.rs, parsed by
        Spec/Regex.v (Print re, M: the standard denotation), denotes exactly the name grammar - every byte string ---- *)
From WF Require Import Spec.Regex Proofs.OciRegexP.
Print re.
Print M.
Print parse_anchored.
Theorem C17_name_pattern_is_the_name_grammar :
  exists R, match oci_name_regex with Some p => parse_anchored p | None => None end = Some R
            /\ forall s, M R s <-> name_ok s = true.
Proof. exact name_regex_is_name_ok. Qed.
Print Assumptions C17_name_pattern_is_the_name_grammar.

(* is end-5 registered?  (false on the pinned example: known finding K1) *)
Eval vm_compute in end5_present.
