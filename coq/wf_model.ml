
(** val implb : bool -> bool -> bool **)

let implb b1 b2 =
  if b1 then b2 else true

(** val negb : bool -> bool **)

let negb = function
| true -> false
| false -> true

type nat =
| O
| S of nat

(** val option_map : ('a1 -> 'a2) -> 'a1 option -> 'a2 option **)

let option_map f = function
| Some a -> Some (f a)
| None -> None

(** val fst : ('a1 * 'a2) -> 'a1 **)

let fst = function
| (x, _) -> x

(** val snd : ('a1 * 'a2) -> 'a2 **)

let snd = function
| (_, y) -> y

(** val length : 'a1 list -> nat **)

let rec length = function
| [] -> O
| _ :: l' -> S (length l')

(** val app : 'a1 list -> 'a1 list -> 'a1 list **)

let rec app l m =
  match l with
  | [] -> m
  | a :: l1 -> a :: (app l1 m)

type comparison =
| Eq
| Lt
| Gt

(** val compOpp : comparison -> comparison **)

let compOpp = function
| Eq -> Eq
| Lt -> Gt
| Gt -> Lt

(** val pred : nat -> nat **)

let pred n0 = match n0 with
| O -> n0
| S u -> u

module Coq__1 = struct
 (** val add : nat -> nat -> nat **)
 let rec add n0 m =
   match n0 with
   | O -> m
   | S p0 -> S (add p0 m)
end
include Coq__1

(** val sub : nat -> nat -> nat **)

let rec sub n0 m =
  match n0 with
  | O -> n0
  | S k -> (match m with
            | O -> n0
            | S l -> sub k l)

(** val eqb : nat -> nat -> bool **)

let rec eqb n0 m =
  match n0 with
  | O -> (match m with
          | O -> true
          | S _ -> false)
  | S n' -> (match m with
             | O -> false
             | S m' -> eqb n' m')

(** val leb : nat -> nat -> bool **)

let rec leb n0 m =
  match n0 with
  | O -> true
  | S n' -> (match m with
             | O -> false
             | S m' -> leb n' m')

(** val ltb : nat -> nat -> bool **)

let ltb n0 m =
  leb (S n0) m

(** val even : nat -> bool **)

let rec even = function
| O -> true
| S n1 -> (match n1 with
           | O -> false
           | S n' -> even n')

(** val eqb0 : bool -> bool -> bool **)

let eqb0 b1 b2 =
  if b1 then b2 else if b2 then false else true

type positive =
| XI of positive
| XO of positive
| XH

type n =
| N0
| Npos of positive

type z =
| Z0
| Zpos of positive
| Zneg of positive

module Nat =
 struct
  (** val eqb : nat -> nat -> bool **)

  let rec eqb n0 m =
    match n0 with
    | O -> (match m with
            | O -> true
            | S _ -> false)
    | S n' -> (match m with
               | O -> false
               | S m' -> eqb n' m')

  (** val leb : nat -> nat -> bool **)

  let rec leb n0 m =
    match n0 with
    | O -> true
    | S n' -> (match m with
               | O -> false
               | S m' -> leb n' m')

  (** val ltb : nat -> nat -> bool **)

  let ltb n0 m =
    leb (S n0) m
 end

module Pos =
 struct
  type mask =
  | IsNul
  | IsPos of positive
  | IsNeg
 end

module Coq_Pos =
 struct
  (** val succ : positive -> positive **)

  let rec succ = function
  | XI p0 -> XO (succ p0)
  | XO p0 -> XI p0
  | XH -> XO XH

  (** val add : positive -> positive -> positive **)

  let rec add x y =
    match x with
    | XI p0 ->
      (match y with
       | XI q -> XO (add_carry p0 q)
       | XO q -> XI (add p0 q)
       | XH -> XO (succ p0))
    | XO p0 ->
      (match y with
       | XI q -> XI (add p0 q)
       | XO q -> XO (add p0 q)
       | XH -> XI p0)
    | XH -> (match y with
             | XI q -> XO (succ q)
             | XO q -> XI q
             | XH -> XO XH)

  (** val add_carry : positive -> positive -> positive **)

  and add_carry x y =
    match x with
    | XI p0 ->
      (match y with
       | XI q -> XI (add_carry p0 q)
       | XO q -> XO (add_carry p0 q)
       | XH -> XI (succ p0))
    | XO p0 ->
      (match y with
       | XI q -> XO (add_carry p0 q)
       | XO q -> XI (add p0 q)
       | XH -> XO (succ p0))
    | XH ->
      (match y with
       | XI q -> XI (succ q)
       | XO q -> XO (succ q)
       | XH -> XI XH)

  (** val pred_double : positive -> positive **)

  let rec pred_double = function
  | XI p0 -> XI (XO p0)
  | XO p0 -> XI (pred_double p0)
  | XH -> XH

  type mask = Pos.mask =
  | IsNul
  | IsPos of positive
  | IsNeg

  (** val succ_double_mask : mask -> mask **)

  let succ_double_mask = function
  | IsNul -> IsPos XH
  | IsPos p0 -> IsPos (XI p0)
  | IsNeg -> IsNeg

  (** val double_mask : mask -> mask **)

  let double_mask = function
  | IsPos p0 -> IsPos (XO p0)
  | x0 -> x0

  (** val double_pred_mask : positive -> mask **)

  let double_pred_mask = function
  | XI p0 -> IsPos (XO (XO p0))
  | XO p0 -> IsPos (XO (pred_double p0))
  | XH -> IsNul

  (** val sub_mask : positive -> positive -> mask **)

  let rec sub_mask x y =
    match x with
    | XI p0 ->
      (match y with
       | XI q -> double_mask (sub_mask p0 q)
       | XO q -> succ_double_mask (sub_mask p0 q)
       | XH -> IsPos (XO p0))
    | XO p0 ->
      (match y with
       | XI q -> succ_double_mask (sub_mask_carry p0 q)
       | XO q -> double_mask (sub_mask p0 q)
       | XH -> IsPos (pred_double p0))
    | XH -> (match y with
             | XH -> IsNul
             | _ -> IsNeg)

  (** val sub_mask_carry : positive -> positive -> mask **)

  and sub_mask_carry x y =
    match x with
    | XI p0 ->
      (match y with
       | XI q -> succ_double_mask (sub_mask_carry p0 q)
       | XO q -> double_mask (sub_mask p0 q)
       | XH -> IsPos (pred_double p0))
    | XO p0 ->
      (match y with
       | XI q -> double_mask (sub_mask_carry p0 q)
       | XO q -> succ_double_mask (sub_mask_carry p0 q)
       | XH -> double_pred_mask p0)
    | XH -> IsNeg

  (** val mul : positive -> positive -> positive **)

  let rec mul x y =
    match x with
    | XI p0 -> add y (XO (mul p0 y))
    | XO p0 -> XO (mul p0 y)
    | XH -> y

  (** val compare_cont : comparison -> positive -> positive -> comparison **)

  let rec compare_cont r x y =
    match x with
    | XI p0 ->
      (match y with
       | XI q -> compare_cont r p0 q
       | XO q -> compare_cont Gt p0 q
       | XH -> Gt)
    | XO p0 ->
      (match y with
       | XI q -> compare_cont Lt p0 q
       | XO q -> compare_cont r p0 q
       | XH -> Gt)
    | XH -> (match y with
             | XH -> r
             | _ -> Lt)

  (** val compare : positive -> positive -> comparison **)

  let compare =
    compare_cont Eq

  (** val eqb : positive -> positive -> bool **)

  let rec eqb p0 q =
    match p0 with
    | XI p1 -> (match q with
                | XI q0 -> eqb p1 q0
                | _ -> false)
    | XO p1 -> (match q with
                | XO q0 -> eqb p1 q0
                | _ -> false)
    | XH -> (match q with
             | XH -> true
             | _ -> false)

  (** val iter_op : ('a1 -> 'a1 -> 'a1) -> positive -> 'a1 -> 'a1 **)

  let rec iter_op op p0 a =
    match p0 with
    | XI p1 -> op a (iter_op op p1 (op a a))
    | XO p1 -> iter_op op p1 (op a a)
    | XH -> a

  (** val to_nat : positive -> nat **)

  let to_nat x =
    iter_op Coq__1.add x (S O)

  (** val of_succ_nat : nat -> positive **)

  let rec of_succ_nat = function
  | O -> XH
  | S x -> succ (of_succ_nat x)
 end

module N =
 struct
  (** val add : n -> n -> n **)

  let add n0 m =
    match n0 with
    | N0 -> m
    | Npos p0 -> (match m with
                  | N0 -> n0
                  | Npos q -> Npos (Coq_Pos.add p0 q))

  (** val sub : n -> n -> n **)

  let sub n0 m =
    match n0 with
    | N0 -> N0
    | Npos n' ->
      (match m with
       | N0 -> n0
       | Npos m' ->
         (match Coq_Pos.sub_mask n' m' with
          | Coq_Pos.IsPos p0 -> Npos p0
          | _ -> N0))

  (** val mul : n -> n -> n **)

  let mul n0 m =
    match n0 with
    | N0 -> N0
    | Npos p0 -> (match m with
                  | N0 -> N0
                  | Npos q -> Npos (Coq_Pos.mul p0 q))

  (** val compare : n -> n -> comparison **)

  let compare n0 m =
    match n0 with
    | N0 -> (match m with
             | N0 -> Eq
             | Npos _ -> Lt)
    | Npos n' -> (match m with
                  | N0 -> Gt
                  | Npos m' -> Coq_Pos.compare n' m')

  (** val eqb : n -> n -> bool **)

  let eqb n0 m =
    match n0 with
    | N0 -> (match m with
             | N0 -> true
             | Npos _ -> false)
    | Npos p0 -> (match m with
                  | N0 -> false
                  | Npos q -> Coq_Pos.eqb p0 q)

  (** val leb : n -> n -> bool **)

  let leb x y =
    match compare x y with
    | Gt -> false
    | _ -> true

  (** val min : n -> n -> n **)

  let min n0 n' =
    match compare n0 n' with
    | Gt -> n'
    | _ -> n0

  (** val to_nat : n -> nat **)

  let to_nat = function
  | N0 -> O
  | Npos p0 -> Coq_Pos.to_nat p0

  (** val of_nat : nat -> n **)

  let of_nat = function
  | O -> N0
  | S n' -> Npos (Coq_Pos.of_succ_nat n')
 end

type ascii =
| Ascii of bool * bool * bool * bool * bool * bool * bool * bool

(** val n_of_digits : bool list -> n **)

let rec n_of_digits = function
| [] -> N0
| b0 :: l' ->
  N.add (if b0 then Npos XH else N0) (N.mul (Npos (XO XH)) (n_of_digits l'))

(** val n_of_ascii : ascii -> n **)

let n_of_ascii = function
| Ascii (a0, a1, a2, a3, a4, a5, a6, a7) ->
  n_of_digits
    (a0 :: (a1 :: (a2 :: (a3 :: (a4 :: (a5 :: (a6 :: (a7 :: []))))))))

(** val tl : 'a1 list -> 'a1 list **)

let tl = function
| [] -> []
| _ :: m -> m

(** val nth_error : 'a1 list -> nat -> 'a1 option **)

let rec nth_error l = function
| O -> (match l with
        | [] -> None
        | x :: _ -> Some x)
| S n1 -> (match l with
           | [] -> None
           | _ :: l0 -> nth_error l0 n1)

(** val rev : 'a1 list -> 'a1 list **)

let rec rev = function
| [] -> []
| x :: l' -> app (rev l') (x :: [])

(** val map : ('a1 -> 'a2) -> 'a1 list -> 'a2 list **)

let rec map f = function
| [] -> []
| a :: t -> (f a) :: (map f t)

(** val flat_map : ('a1 -> 'a2 list) -> 'a1 list -> 'a2 list **)

let rec flat_map f = function
| [] -> []
| x :: t -> app (f x) (flat_map f t)

(** val fold_left : ('a1 -> 'a2 -> 'a1) -> 'a2 list -> 'a1 -> 'a1 **)

let rec fold_left f l a0 =
  match l with
  | [] -> a0
  | b0 :: t -> fold_left f t (f a0 b0)

(** val fold_right : ('a2 -> 'a1 -> 'a1) -> 'a1 -> 'a2 list -> 'a1 **)

let rec fold_right f a0 = function
| [] -> a0
| b0 :: t -> f b0 (fold_right f a0 t)

(** val existsb : ('a1 -> bool) -> 'a1 list -> bool **)

let rec existsb f = function
| [] -> false
| a :: l0 -> (||) (f a) (existsb f l0)

(** val forallb : ('a1 -> bool) -> 'a1 list -> bool **)

let rec forallb f = function
| [] -> true
| a :: l0 -> (&&) (f a) (forallb f l0)

(** val filter : ('a1 -> bool) -> 'a1 list -> 'a1 list **)

let rec filter f = function
| [] -> []
| x :: l0 -> if f x then x :: (filter f l0) else filter f l0

(** val find : ('a1 -> bool) -> 'a1 list -> 'a1 option **)

let rec find f = function
| [] -> None
| x :: tl0 -> if f x then Some x else find f tl0

(** val combine : 'a1 list -> 'a2 list -> ('a1 * 'a2) list **)

let rec combine l l' =
  match l with
  | [] -> []
  | x :: tl0 ->
    (match l' with
     | [] -> []
     | y :: tl' -> (x, y) :: (combine tl0 tl'))

(** val firstn : nat -> 'a1 list -> 'a1 list **)

let rec firstn n0 l =
  match n0 with
  | O -> []
  | S n1 -> (match l with
             | [] -> []
             | a :: l0 -> a :: (firstn n1 l0))

(** val skipn : nat -> 'a1 list -> 'a1 list **)

let rec skipn n0 l =
  match n0 with
  | O -> l
  | S n1 -> (match l with
             | [] -> []
             | _ :: l0 -> skipn n1 l0)

(** val repeat : 'a1 -> nat -> 'a1 list **)

let rec repeat x = function
| O -> []
| S k -> x :: (repeat x k)

module Z =
 struct
  (** val double : z -> z **)

  let double = function
  | Z0 -> Z0
  | Zpos p0 -> Zpos (XO p0)
  | Zneg p0 -> Zneg (XO p0)

  (** val succ_double : z -> z **)

  let succ_double = function
  | Z0 -> Zpos XH
  | Zpos p0 -> Zpos (XI p0)
  | Zneg p0 -> Zneg (Coq_Pos.pred_double p0)

  (** val pred_double : z -> z **)

  let pred_double = function
  | Z0 -> Zneg XH
  | Zpos p0 -> Zpos (Coq_Pos.pred_double p0)
  | Zneg p0 -> Zneg (XI p0)

  (** val pos_sub : positive -> positive -> z **)

  let rec pos_sub x y =
    match x with
    | XI p0 ->
      (match y with
       | XI q -> double (pos_sub p0 q)
       | XO q -> succ_double (pos_sub p0 q)
       | XH -> Zpos (XO p0))
    | XO p0 ->
      (match y with
       | XI q -> pred_double (pos_sub p0 q)
       | XO q -> double (pos_sub p0 q)
       | XH -> Zpos (Coq_Pos.pred_double p0))
    | XH ->
      (match y with
       | XI q -> Zneg (XO q)
       | XO q -> Zneg (Coq_Pos.pred_double q)
       | XH -> Z0)

  (** val add : z -> z -> z **)

  let add x y =
    match x with
    | Z0 -> y
    | Zpos x' ->
      (match y with
       | Z0 -> x
       | Zpos y' -> Zpos (Coq_Pos.add x' y')
       | Zneg y' -> pos_sub x' y')
    | Zneg x' ->
      (match y with
       | Z0 -> x
       | Zpos y' -> pos_sub y' x'
       | Zneg y' -> Zneg (Coq_Pos.add x' y'))

  (** val opp : z -> z **)

  let opp = function
  | Z0 -> Z0
  | Zpos x0 -> Zneg x0
  | Zneg x0 -> Zpos x0

  (** val sub : z -> z -> z **)

  let sub m n0 =
    add m (opp n0)

  (** val compare : z -> z -> comparison **)

  let compare x y =
    match x with
    | Z0 -> (match y with
             | Z0 -> Eq
             | Zpos _ -> Lt
             | Zneg _ -> Gt)
    | Zpos x' -> (match y with
                  | Zpos y' -> Coq_Pos.compare x' y'
                  | _ -> Gt)
    | Zneg x' ->
      (match y with
       | Zneg y' -> compOpp (Coq_Pos.compare x' y')
       | _ -> Lt)

  (** val ltb : z -> z -> bool **)

  let ltb x y =
    match compare x y with
    | Lt -> true
    | _ -> false

  (** val eqb : z -> z -> bool **)

  let eqb x y =
    match x with
    | Z0 -> (match y with
             | Z0 -> true
             | _ -> false)
    | Zpos p0 -> (match y with
                  | Zpos q -> Coq_Pos.eqb p0 q
                  | _ -> false)
    | Zneg p0 -> (match y with
                  | Zneg q -> Coq_Pos.eqb p0 q
                  | _ -> false)
 end

type string =
| EmptyString
| String of ascii * string

(** val list_ascii_of_string : string -> ascii list **)

let rec list_ascii_of_string = function
| EmptyString -> []
| String (ch, s0) -> ch :: (list_ascii_of_string s0)

type byte = n

type bytes = byte list

(** val sL : byte **)

let sL =
  Npos (XI (XI (XI (XI (XO XH)))))

(** val bSL : byte **)

let bSL =
  Npos (XO (XO (XI (XI (XI (XO XH))))))

(** val lP : byte **)

let lP =
  Npos (XO (XO (XO (XI (XO XH)))))

(** val rP : byte **)

let rP =
  Npos (XI (XO (XO (XI (XO XH)))))

(** val lB : byte **)

let lB =
  Npos (XI (XI (XO (XI (XI (XI XH))))))

(** val rB : byte **)

let rB =
  Npos (XI (XO (XI (XI (XI (XI XH))))))

(** val cOLON : byte **)

let cOLON =
  Npos (XO (XI (XO (XI (XI XH)))))

(** val sTAR : byte **)

let sTAR =
  Npos (XO (XI (XO (XI (XO XH)))))

(** val beqb : bytes -> bytes -> bool **)

let rec beqb a b0 =
  match a with
  | [] -> (match b0 with
           | [] -> true
           | _ :: _ -> false)
  | x :: a' ->
    (match b0 with
     | [] -> false
     | y :: b' -> (&&) (N.eqb x y) (beqb a' b'))

(** val starts_with : bytes -> bytes -> bytes option **)

let rec starts_with p0 s =
  match p0 with
  | [] -> Some s
  | x :: p' ->
    (match s with
     | [] -> None
     | y :: s' -> if N.eqb x y then starts_with p' s' else None)

(** val bcmp : bytes -> bytes -> comparison **)

let rec bcmp a b0 =
  match a with
  | [] -> (match b0 with
           | [] -> Eq
           | _ :: _ -> Lt)
  | x :: a' ->
    (match b0 with
     | [] -> Gt
     | y :: b' -> (match N.compare x y with
                   | Eq -> bcmp a' b'
                   | x0 -> x0))

(** val obeqb : bytes option -> bytes option -> bool **)

let obeqb a b0 =
  match a with
  | Some x -> (match b0 with
               | Some y -> beqb x y
               | None -> false)
  | None -> (match b0 with
             | Some _ -> false
             | None -> true)

(** val ocmp : bytes option -> bytes option -> comparison **)

let ocmp a b0 =
  match a with
  | Some x -> (match b0 with
               | Some y -> bcmp x y
               | None -> Gt)
  | None -> (match b0 with
             | Some _ -> Lt
             | None -> Eq)

(** val lcp : bytes -> bytes -> nat **)

let rec lcp a b0 =
  match a with
  | [] -> O
  | x :: a' ->
    (match b0 with
     | [] -> O
     | y :: b' -> if N.eqb x y then S (lcp a' b') else O)

(** val hd_is : byte -> bytes -> bool **)

let hd_is b0 = function
| [] -> false
| x :: _ -> N.eqb x b0

(** val count_byte : byte -> bytes -> nat **)

let count_byte b0 s =
  length (filter (N.eqb b0) s)

(** val first_some : ('a1 -> 'a2 option) -> 'a1 list -> 'a2 option **)

let rec first_some f = function
| [] -> None
| x :: l' -> (match f x with
              | Some r -> Some r
              | None -> first_some f l')

(** val filter_map : ('a1 -> 'a2 option) -> 'a1 list -> 'a2 list **)

let rec filter_map f = function
| [] -> []
| x :: l' ->
  (match f x with
   | Some y -> y :: (filter_map f l')
   | None -> filter_map f l')

(** val or_else : 'a1 option -> 'a1 option -> 'a1 option **)

let or_else a b0 =
  match a with
  | Some _ -> a
  | None -> b0

(** val inr : n -> n -> n -> bool **)

let inr lo hi b0 =
  (&&) (N.leb lo b0) (N.leb b0 hi)

(** val cont : n -> bool **)

let cont b0 =
  inr (Npos (XO (XO (XO (XO (XO (XO (XO XH)))))))) (Npos (XI (XI (XI (XI (XI
    (XI (XO XH)))))))) b0

(** val utf8_valid : bytes -> bool **)

let rec utf8_valid = function
| [] -> true
| b0 :: r ->
  if N.leb b0 (Npos (XI (XI (XI (XI (XI (XI XH)))))))
  then utf8_valid r
  else if inr (Npos (XO (XI (XO (XO (XO (XO (XI XH)))))))) (Npos (XI (XI (XI
            (XI (XI (XO (XI XH)))))))) b0
       then (match r with
             | [] -> false
             | b1 :: r' -> (&&) (cont b1) (utf8_valid r'))
       else if inr (Npos (XO (XO (XO (XO (XO (XI (XI XH)))))))) (Npos (XI (XI
                 (XI (XI (XO (XI (XI XH)))))))) b0
            then (match r with
                  | [] -> false
                  | b1 :: l0 ->
                    (match l0 with
                     | [] -> false
                     | b2 :: r' ->
                       (&&)
                         ((&&)
                           (if N.eqb b0 (Npos (XO (XO (XO (XO (XO (XI (XI
                                 XH))))))))
                            then inr (Npos (XO (XO (XO (XO (XO (XI (XO
                                   XH)))))))) (Npos (XI (XI (XI (XI (XI (XI
                                   (XO XH)))))))) b1
                            else if N.eqb b0 (Npos (XI (XO (XI (XI (XO (XI
                                      (XI XH))))))))
                                 then inr (Npos (XO (XO (XO (XO (XO (XO (XO
                                        XH)))))))) (Npos (XI (XI (XI (XI (XI
                                        (XO (XO XH)))))))) b1
                                 else cont b1) (cont b2)) (utf8_valid r')))
            else if inr (Npos (XO (XO (XO (XO (XI (XI (XI XH)))))))) (Npos
                      (XO (XO (XI (XO (XI (XI (XI XH)))))))) b0
                 then (match r with
                       | [] -> false
                       | b1 :: l0 ->
                         (match l0 with
                          | [] -> false
                          | b2 :: l1 ->
                            (match l1 with
                             | [] -> false
                             | b3 :: r' ->
                               (&&)
                                 ((&&)
                                   ((&&)
                                     (if N.eqb b0 (Npos (XO (XO (XO (XO (XI
                                           (XI (XI XH))))))))
                                      then inr (Npos (XO (XO (XO (XO (XI (XO
                                             (XO XH)))))))) (Npos (XI (XI (XI
                                             (XI (XI (XI (XO XH)))))))) b1
                                      else if N.eqb b0 (Npos (XO (XO (XI (XO
                                                (XI (XI (XI XH))))))))
                                           then inr (Npos (XO (XO (XO (XO (XO
                                                  (XO (XO XH)))))))) (Npos
                                                  (XI (XI (XI (XI (XO (XO (XO
                                                  XH)))))))) b1
                                           else cont b1) (cont b2)) (cont b3))
                                 (utf8_valid r'))))
                 else false

type atom =
| AB of byte
| AD of bytes * bytes option
| AW of bytes * bytes option

type route = atom list

type info = { i_template : bytes; i_expanded : bytes option; i_depth : 
              n; i_length : n; i_data : n }

type routes = (route * info) list

type params = (bytes * bytes) list

type res = (info * params) option

type part =
| PS of bytes
| PD of bytes * bytes option
| PW of bytes * bytes option

(** val atoms_of_part : part -> route **)

let atoms_of_part = function
| PS s -> map (fun x -> AB x) s
| PD (n0, c) -> (AD (n0, c)) :: []
| PW (n0, c) -> (AW (n0, c)) :: []

(** val atoms_of : part list -> route **)

let atoms_of ps =
  flat_map atoms_of_part ps

(** val param_names : route -> bytes list **)

let rec param_names = function
| [] -> []
| a :: r' ->
  (match a with
   | AB _ -> param_names r'
   | AD (n0, _) -> n0 :: (param_names r')
   | AW (n0, _) -> n0 :: (param_names r'))

(** val copt : (bytes -> bytes -> bool) -> bytes option -> bytes -> bool **)

let copt chk c v =
  match c with
  | Some c0 -> chk c0 v
  | None -> true

type kind =
| KDC
| KDY
| KWC
| KWI
| KEC
| KEN

(** val all_kinds : kind list **)

let all_kinds =
  KDC :: (KDY :: (KWC :: (KWI :: (KEC :: (KEN :: [])))))

(** val kind_eqb : kind -> kind -> bool **)

let kind_eqb a b0 =
  match a with
  | KDC -> (match b0 with
            | KDC -> true
            | _ -> false)
  | KDY -> (match b0 with
            | KDY -> true
            | _ -> false)
  | KWC -> (match b0 with
            | KWC -> true
            | _ -> false)
  | KWI -> (match b0 with
            | KWI -> true
            | _ -> false)
  | KEC -> (match b0 with
            | KEC -> true
            | _ -> false)
  | KEN -> (match b0 with
            | KEN -> true
            | _ -> false)

type key = bytes * bytes option

(** val keqb : key -> key -> bool **)

let keqb a b0 =
  (&&) (beqb (fst a) (fst b0)) (obeqb (snd a) (snd b0))

(** val kcmp : key -> key -> comparison **)

let kcmp a b0 =
  match bcmp (fst a) (fst b0) with
  | Eq -> ocmp (snd a) (snd b0)
  | x -> x

(** val classify : route -> ((kind * key) * route) option **)

let classify = function
| [] -> None
| a :: r' ->
  (match a with
   | AB _ -> None
   | AD (n0, c0) ->
     (match c0 with
      | Some c -> Some ((KDC, (n0, (Some c))), r')
      | None -> Some ((KDY, (n0, None)), r'))
   | AW (n0, c0) ->
     (match c0 with
      | Some c ->
        (match r' with
         | [] -> Some ((KEC, (n0, (Some c))), [])
         | _ :: _ -> Some ((KWC, (n0, (Some c))), r'))
      | None ->
        (match r' with
         | [] -> Some ((KEN, (n0, None)), [])
         | _ :: _ -> Some ((KWI, (n0, None)), r'))))

(** val key_of : kind -> (route * info) -> (key * (route * info)) option **)

let key_of k ri =
  match classify (fst ri) with
  | Some p0 ->
    let (p1, r') = p0 in
    let (k', ky) = p1 in
    if kind_eqb k k' then Some (ky, (r', (snd ri))) else None
  | None -> None

(** val ginsert :
    key -> (route * info) -> (key * routes) list -> (key * routes) list **)

let rec ginsert ky x gs = match gs with
| [] -> (ky, (x :: [])) :: []
| p0 :: gs' ->
  let (k', g) = p0 in
  (match kcmp ky k' with
   | Eq -> (k', (x :: g)) :: gs'
   | Lt -> (ky, (x :: [])) :: gs
   | Gt -> (k', g) :: (ginsert ky x gs'))

(** val groups : kind -> routes -> (key * routes) list **)

let groups k rs =
  fold_right (fun kx gs -> ginsert (fst kx) (snd kx) gs) []
    (filter_map (key_of k) rs)

(** val strip : byte -> (route * info) -> (route * info) option **)

let strip b0 ri =
  match fst ri with
  | [] -> None
  | a :: r' ->
    (match a with
     | AB x -> if N.eqb x b0 then Some (r', (snd ri)) else None
     | _ -> None)

(** val done0 : routes -> res **)

let done0 rs =
  match filter_map (fun ri ->
          match fst ri with
          | [] -> Some (snd ri)
          | _ :: _ -> None) rs with
  | [] -> None
  | i :: _ -> Some (i, [])

(** val better : info -> info -> bool **)

let better a best =
  match N.compare a.i_depth best.i_depth with
  | Eq -> N.leb best.i_length a.i_length
  | Lt -> false
  | Gt -> true

type cand = bytes * bytes

(** val cands_from : bool -> bytes -> bytes -> cand list **)

let rec cands_from dyn pre = function
| [] -> []
| b0 :: r ->
  if (&&) dyn (N.eqb b0 sL)
  then []
  else let pre' = app pre (b0 :: []) in (pre', r) :: (cands_from dyn pre' r)

(** val is_dyn : kind -> bool **)

let is_dyn = function
| KDC -> true
| KDY -> true
| _ -> false

(** val is_end : kind -> bool **)

let is_end = function
| KEC -> true
| KEN -> true
| _ -> false

(** val cands : kind -> bytes -> cand list **)

let cands k path =
  if is_end k then (path, []) :: [] else cands_from (is_dyn k) [] path

(** val ok : (bytes -> bytes -> bool) -> key -> bytes -> bool **)

let ok chk ky v =
  (&&) (utf8_valid v) (copt chk (snd ky) v)

(** val pick :
    (bytes -> bytes -> bool) -> (bytes -> res) -> key -> cand list -> res **)

let pick chk srch ky cs =
  fold_left (fun best c ->
    if ok chk ky (fst c)
    then (match srch (snd c) with
          | Some p0 ->
            let (i, ps) = p0 in
            (match best with
             | Some p1 ->
               let (bi, _) = p1 in
               if better i bi
               then Some (i, (((fst ky), (fst c)) :: ps))
               else best
             | None -> Some (i, (((fst ky), (fst c)) :: ps)))
          | None -> best)
    else best) cs None

(** val walk : (bytes -> bytes -> bool) -> nat -> routes -> bytes -> res **)

let rec walk chk fuel rs path =
  match fuel with
  | O -> None
  | S f ->
    (match path with
     | [] -> done0 rs
     | b0 :: rest ->
       or_else (walk chk f (filter_map (strip b0) rs) rest)
         (first_some (fun k ->
           first_some (fun kg ->
             pick chk (walk chk f (snd kg)) (fst kg) (cands k path))
             (groups k rs)) all_kinds))

(** val w : (bytes -> bytes -> bool) -> routes -> bytes -> res **)

let w chk rs path =
  walk chk (S (length path)) rs path

type item =
| Chunk of bytes
| Group of item list

type gres =
| GOk of item list * bool * bytes
| GErr

(** val push_byte : byte -> item list -> item list **)

let push_byte b0 its = match its with
| [] -> (Chunk (b0 :: [])) :: its
| i :: its' ->
  (match i with
   | Chunk s -> (Chunk (b0 :: s)) :: its'
   | Group _ -> (Chunk (b0 :: [])) :: its)

(** val gparse : nat -> bytes -> gres **)

let rec gparse fuel s =
  match fuel with
  | O -> GErr
  | S f ->
    (match s with
     | [] -> GOk ([], false, [])
     | b0 :: s' ->
       if N.eqb b0 bSL
       then (match s' with
             | [] -> GOk (((Chunk (b0 :: [])) :: []), false, [])
             | x :: s'' ->
               (match gparse f s'' with
                | GOk (its, cl, rest) ->
                  GOk ((push_byte b0 (push_byte x its)), cl, rest)
                | GErr -> GErr))
       else if N.eqb b0 lP
            then (match gparse f s' with
                  | GOk (g, closed, rest) ->
                    if closed
                    then (match g with
                          | [] -> GErr
                          | _ :: _ ->
                            (match gparse f rest with
                             | GOk (its, cl, rest') ->
                               GOk (((Group g) :: its), cl, rest')
                             | GErr -> GErr))
                    else GErr
                  | GErr -> GErr)
            else if N.eqb b0 rP
                 then GOk ([], true, s')
                 else (match gparse f s' with
                       | GOk (its, cl, rest) ->
                         GOk ((push_byte b0 its), cl, rest)
                       | GErr -> GErr))

(** val alts : item -> bytes list **)

let rec alts = function
| Chunk s -> s :: []
| Group g ->
  app
    (let rec seq = function
     | [] -> [] :: []
     | x :: l' ->
       let tails = seq l' in
       flat_map (fun o -> map (fun t -> app o t) tails) (alts x)
     in seq g) ([] :: [])

(** val expand_items : item list -> bytes list **)

let rec expand_items = function
| [] -> [] :: []
| x :: l' ->
  let tails = expand_items l' in
  flat_map (fun o -> map (fun t -> app o t) tails) (alts x)

(** val expansions_spec : bytes -> bytes list option **)

let expansions_spec t =
  match gparse (S (length t)) t with
  | GOk (its, closed, rest) ->
    if closed
    then None
    else (match rest with
          | [] ->
            Some
              (map (fun e -> match e with
                             | [] -> sL :: []
                             | _ :: _ -> e) (expand_items its))
          | _ :: _ -> None)
  | GErr -> None

(** val invalid_name_char : byte -> bool **)

let invalid_name_char c =
  (||)
    ((||)
      ((||)
        ((||) ((||) ((||) (N.eqb c cOLON) (N.eqb c sTAR)) (N.eqb c lB))
          (N.eqb c rB)) (N.eqb c lP)) (N.eqb c rP)) (N.eqb c sL)

(** val brace_content : bytes -> nat -> (bytes * bytes) option **)

let rec brace_content s depth =
  match s with
  | [] -> None
  | c :: s' ->
    if N.eqb c rB
    then (match depth with
          | O -> Some ([], s')
          | S d ->
            (match brace_content s' d with
             | Some p0 -> let (a, r) = p0 in Some ((c :: a), r)
             | None -> None))
    else (match brace_content s' (if N.eqb c lB then S depth else depth) with
          | Some p0 -> let (a, r) = p0 in Some ((c :: a), r)
          | None -> None)

(** val split_colon : bytes -> bytes * bytes option **)

let rec split_colon = function
| [] -> ([], None)
| c :: s' ->
  if N.eqb c cOLON
  then ([], (Some s'))
  else let (a, b0) = split_colon s' in ((c :: a), b0)

(** val param_of_content : bytes -> part option **)

let param_of_content content = match content with
| [] -> None
| _ :: _ ->
  let (name, constraint0) = split_colon content in
  let wild = hd_is sTAR name in
  let name0 = if wild then tl name else name in
  (match name0 with
   | [] -> None
   | _ :: _ ->
     if existsb invalid_name_char name0
     then None
     else (match constraint0 with
           | Some c ->
             (match c with
              | [] -> None
              | _ :: _ ->
                if existsb invalid_name_char c
                then None
                else Some
                       (if wild
                        then PW (name0, (Some c))
                        else PD (name0, (Some c))))
           | None ->
             Some (if wild then PW (name0, None) else PD (name0, None))))

(** val static_text : nat -> bytes -> bytes * bytes **)

let rec static_text fuel s =
  match fuel with
  | O -> ([], s)
  | S f ->
    (match s with
     | [] -> ([], [])
     | c :: s' ->
       if N.eqb c bSL
       then (match s' with
             | [] -> ((bSL :: []), [])
             | x :: s'' -> let (a, r) = static_text f s'' in ((x :: a), r))
       else if (||) (N.eqb c lB) (N.eqb c rB)
            then ([], s)
            else let (a, r) = static_text f s' in ((c :: a), r))

(** val exp_parts : nat -> bytes -> bool -> bytes list -> part list option **)

let rec exp_parts fuel s prev_param seen =
  match fuel with
  | O -> None
  | S f ->
    (match s with
     | [] -> Some []
     | c :: s' ->
       if N.eqb c lB
       then if prev_param
            then None
            else (match brace_content s' O with
                  | Some p0 ->
                    let (content, rest) = p0 in
                    (match param_of_content content with
                     | Some p1 ->
                       let name =
                         match p1 with
                         | PS _ -> []
                         | PD (n0, _) -> n0
                         | PW (n0, _) -> n0
                       in
                       if existsb (beqb name) seen
                       then None
                       else option_map (fun x -> p1 :: x)
                              (exp_parts f rest true (name :: seen))
                     | None -> None)
                  | None -> None)
       else if N.eqb c rB
            then None
            else let (txt, rest) = static_text (S (length s)) s in
                 option_map (fun x -> (PS txt) :: x)
                   (exp_parts f rest false seen))

(** val wellformed_exp : bytes -> part list option **)

let wellformed_exp raw = match raw with
| [] -> None
| b0 :: _ ->
  if N.eqb b0 sL then exp_parts (S (length raw)) raw false [] else None

(** val template_spec : bytes -> (bytes * part list) list option **)

let template_spec t = match t with
| [] -> None
| _ :: _ ->
  (match expansions_spec t with
   | Some es ->
     let rec all = function
     | [] -> Some []
     | e :: l' ->
       (match wellformed_exp e with
        | Some ps ->
          (match all l' with
           | Some r -> Some ((e, ps) :: r)
           | None -> None)
        | None -> None)
     in all es
   | None -> None)

(** val fits_with :
    (bytes -> bytes -> bool) -> route -> bytes -> bytes list -> bool **)

let rec fits_with chk r p0 vs =
  match r with
  | [] ->
    (match p0 with
     | [] -> (match vs with
              | [] -> true
              | _ :: _ -> false)
     | _ :: _ -> false)
  | a :: r' ->
    (match a with
     | AB b0 ->
       (match p0 with
        | [] -> false
        | x :: p' -> (&&) (N.eqb x b0) (fits_with chk r' p' vs))
     | AD (_, c) ->
       (match vs with
        | [] -> false
        | v :: vs' ->
          (match v with
           | [] -> false
           | b0 :: l ->
             (match starts_with (b0 :: l) p0 with
              | Some rest ->
                (&&)
                  ((&&) ((&&) (negb (existsb (N.eqb sL) v)) (utf8_valid v))
                    (copt chk c v)) (fits_with chk r' rest vs')
              | None -> false)))
     | AW (_, c) ->
       (match vs with
        | [] -> false
        | v :: vs' ->
          (match v with
           | [] -> false
           | b0 :: l ->
             (match starts_with (b0 :: l) p0 with
              | Some rest ->
                (&&) ((&&) (utf8_valid v) (copt chk c v))
                  (fits_with chk r' rest vs')
              | None -> false))))

(** val fits_b : (bytes -> bytes -> bool) -> route -> bytes -> bool **)

let rec fits_b chk r p0 =
  match r with
  | [] -> (match p0 with
           | [] -> true
           | _ :: _ -> false)
  | a :: r' ->
    (match a with
     | AB b0 ->
       (match p0 with
        | [] -> false
        | x :: p' -> (&&) (N.eqb x b0) (fits_b chk r' p'))
     | AD (_, c) ->
       existsb (fun cd ->
         (&&) ((&&) (utf8_valid (fst cd)) (copt chk c (fst cd)))
           (fits_b chk r' (snd cd))) (cands_from true [] p0)
     | AW (_, c) ->
       existsb (fun cd ->
         (&&) ((&&) (utf8_valid (fst cd)) (copt chk c (fst cd)))
           (fits_b chk r' (snd cd))) (cands_from false [] p0))

(** val any_fits_b : (bytes -> bytes -> bool) -> routes -> bytes -> bool **)

let any_fits_b chk rs p0 =
  existsb (fun ri -> fits_b chk (fst ri) p0) rs

(** val list_beqb : bytes list -> bytes list -> bool **)

let rec list_beqb a b0 =
  match a with
  | [] -> (match b0 with
           | [] -> true
           | _ :: _ -> false)
  | x :: a' ->
    (match b0 with
     | [] -> false
     | y :: b' -> (&&) (beqb x y) (list_beqb a' b'))

(** val info_eqb : info -> info -> bool **)

let info_eqb a b0 =
  (&&)
    ((&&)
      ((&&)
        ((&&) (beqb a.i_template b0.i_template)
          (obeqb a.i_expanded b0.i_expanded)) (N.eqb a.i_depth b0.i_depth))
      (N.eqb a.i_length b0.i_length)) (N.eqb a.i_data b0.i_data)

(** val leftmost_longest_b :
    (bytes -> bytes -> bool) -> route -> bytes -> bytes list -> bool **)

let rec leftmost_longest_b chk r p0 vs =
  match r with
  | [] ->
    (match p0 with
     | [] -> (match vs with
              | [] -> true
              | _ :: _ -> false)
     | _ :: _ -> false)
  | a :: r' ->
    (match a with
     | AB b0 ->
       (match p0 with
        | [] -> false
        | x :: p' -> (&&) (N.eqb x b0) (leftmost_longest_b chk r' p' vs))
     | AD (_, c) ->
       (match vs with
        | [] -> false
        | v :: vs' ->
          (match starts_with v p0 with
           | Some rest ->
             (&&)
               (negb
                 (existsb (fun cd ->
                   (&&)
                     ((&&)
                       ((&&) (ltb (length v) (length (fst cd)))
                         (utf8_valid (fst cd))) (copt chk c (fst cd)))
                     (fits_b chk r' (snd cd))) (cands_from true [] p0)))
               (leftmost_longest_b chk r' rest vs')
           | None -> false))
     | AW (_, c) ->
       (match vs with
        | [] -> false
        | v :: vs' ->
          (match starts_with v p0 with
           | Some rest ->
             (&&)
               (negb
                 (existsb (fun cd ->
                   (&&)
                     ((&&)
                       ((&&) (ltb (length v) (length (fst cd)))
                         (utf8_valid (fst cd))) (copt chk c (fst cd)))
                     (fits_b chk r' (snd cd))) (cands_from false [] p0)))
               (leftmost_longest_b chk r' rest vs')
           | None -> false)))

type live = (bytes * n) list

(** val route_eqb : route -> route -> bool **)

let rec route_eqb a b0 =
  match a with
  | [] -> (match b0 with
           | [] -> true
           | _ :: _ -> false)
  | a0 :: a' ->
    (match a0 with
     | AB x ->
       (match b0 with
        | [] -> false
        | a1 :: b' ->
          (match a1 with
           | AB y -> (&&) (N.eqb x y) (route_eqb a' b')
           | _ -> false))
     | AD (n0, c) ->
       (match b0 with
        | [] -> false
        | a1 :: b' ->
          (match a1 with
           | AD (m, d) ->
             (&&) ((&&) (beqb n0 m) (obeqb c d)) (route_eqb a' b')
           | _ -> false))
     | AW (n0, c) ->
       (match b0 with
        | [] -> false
        | a1 :: b' ->
          (match a1 with
           | AW (m, d) ->
             (&&) ((&&) (beqb n0 m) (obeqb c d)) (route_eqb a' b')
           | _ -> false)))

(** val ends_in_wild : route -> bool **)

let ends_in_wild r =
  match rev r with
  | [] -> false
  | a :: _ -> (match a with
               | AW (_, _) -> true
               | _ -> false)

(** val add_route : (route * info) -> routes -> routes **)

let rec add_route x = function
| [] -> x :: []
| y :: rs' ->
  if route_eqb (fst x) (fst y)
  then (if ends_in_wild (fst x) then y else x) :: rs'
  else y :: (add_route x rs')

(** val exp_info : bytes -> bool -> bytes -> n -> info **)

let exp_info t shared raw d =
  { i_template = t; i_expanded = (if shared then Some raw else None);
    i_depth = (N.of_nat (count_byte sL raw)); i_length =
    (N.of_nat (length raw)); i_data = d }

(** val template_routes : bytes -> n -> routes option **)

let template_routes t d =
  match template_spec t with
  | Some es ->
    let shared =
      match es with
      | [] -> false
      | _ :: l -> (match l with
                   | [] -> false
                   | _ :: _ -> true)
    in
    Some
    (map (fun e -> ((atoms_of (snd e)), (exp_info t shared (fst e) d))) es)
  | None -> None

(** val live_routes : live -> routes **)

let live_routes l =
  fold_left (fun rs td ->
    match template_routes (fst td) (snd td) with
    | Some new0 -> fold_left (fun rs0 x -> add_route x rs0) new0 rs
    | None -> rs) l []

(** val owner : routes -> route -> bytes option **)

let owner rs r =
  option_map (fun ri -> (snd ri).i_template)
    (find (fun ri -> route_eqb (fst ri) r) rs)

(** val bins : bytes -> bytes list -> bytes list **)

let rec bins x l = match l with
| [] -> x :: []
| y :: l' ->
  (match bcmp x y with
   | Eq -> l
   | Lt -> x :: l
   | Gt -> y :: (bins x l'))

(** val sort_set : bytes list -> bytes list **)

let sort_set l =
  fold_right bins [] l

(** val route_constraints : route -> bytes list **)

let route_constraints r =
  flat_map (fun a ->
    match a with
    | AB _ -> []
    | AD (_, c0) -> (match c0 with
                     | Some c -> c :: []
                     | None -> [])
    | AW (_, c0) -> (match c0 with
                     | Some c -> c :: []
                     | None -> [])) r

type insert_spec_res =
| ISMalformed
| ISUnknown of bytes list
| ISConflict of bytes list
| ISOk

(** val insert_spec : live -> (bytes -> bool) -> bytes -> insert_spec_res **)

let insert_spec l registered0 t =
  match template_routes t N0 with
  | Some new0 ->
    (match filter (fun c -> negb (registered0 c))
             (flat_map (fun ri -> route_constraints (fst ri)) new0) with
     | [] ->
       let rs = live_routes l in
       (match filter_map (fun ri -> owner rs (fst ri)) new0 with
        | [] -> ISOk
        | _ :: cs -> ISConflict (sort_set cs))
     | _ :: cs -> ISUnknown cs)
  | None -> ISMalformed

type delete_spec_res =
| DSMalformed
| DSOk of n
| DSMismatch of bytes list
| DSNotFound

(** val delete_spec : live -> bytes -> delete_spec_res **)

let delete_spec l t =
  match template_routes t N0 with
  | Some new0 ->
    (match find (fun td -> beqb (fst td) t) l with
     | Some p0 -> let (_, d) = p0 in DSOk d
     | None ->
       let rs = live_routes l in
       (match filter_map (fun ri -> owner rs (fst ri)) new0 with
        | [] -> DSNotFound
        | _ :: cs -> DSMismatch cs))
  | None -> DSMalformed

(** val live_remove : live -> bytes -> live **)

let live_remove l t =
  filter (fun td -> negb (beqb (fst td) t)) l

(** val tfits_b : (bytes -> bytes -> bool) -> bytes -> bytes -> bool **)

let tfits_b chk t p0 =
  match template_routes t N0 with
  | Some new0 -> any_fits_b chk new0 p0
  | None -> false

type node = { n_data : info option; n_st : (key * node) list;
              n_dc : (key * node) list; n_dy : (key * node) list;
              n_wc : (key * node) list; n_wi : (key * node) list;
              n_ec : (key * node) list; n_en : (key * node) list;
              n_dflag : bool; n_wflag : bool; n_dirty : bool }

(** val kids : kind -> node -> (key * node) list **)

let kids k n0 =
  match k with
  | KDC -> n0.n_dc
  | KDY -> n0.n_dy
  | KWC -> n0.n_wc
  | KWI -> n0.n_wi
  | KEC -> n0.n_ec
  | KEN -> n0.n_en

(** val empty_node : node **)

let empty_node =
  { n_data = None; n_st = []; n_dc = []; n_dy = []; n_wc = []; n_wi = [];
    n_ec = []; n_en = []; n_dflag = false; n_wflag = false; n_dirty = false }

(** val boundary : cand -> bool **)

let boundary c =
  match snd c with
  | [] -> true
  | b0 :: _ -> N.eqb b0 sL

(** val span_seg : bytes -> bytes * bytes **)

let rec span_seg p0 = match p0 with
| [] -> ([], [])
| b0 :: r ->
  if N.eqb b0 sL then ([], p0) else let (s, t) = span_seg r in ((b0 :: s), t)

(** val seg_cands : kind -> bytes -> cand list **)

let seg_cands k path =
  if is_dyn k
  then let (s, t) = span_seg path in
       (match s with
        | [] -> []
        | _ :: _ -> (s, t) :: [])
  else filter boundary (cands_from false [] path)

(** val tcands : node -> kind -> bytes -> cand list **)

let tcands n0 k path =
  match k with
  | KDC -> if n0.n_dflag then seg_cands k path else cands k path
  | KDY -> if n0.n_dflag then seg_cands k path else cands k path
  | KWC -> if n0.n_wflag then seg_cands k path else cands k path
  | KWI -> if n0.n_wflag then seg_cands k path else cands k path
  | _ -> cands k path

(** val node_done : node -> res **)

let node_done n0 =
  match n0.n_data with
  | Some i -> Some (i, [])
  | None -> None

(** val search : (bytes -> bytes -> bool) -> node -> bytes -> res **)

let rec search chk n0 path = match path with
| [] -> node_done n0
| _ :: _ ->
  or_else
    (first_some (fun kc ->
      match starts_with (fst (fst kc)) path with
      | Some rest -> search chk (snd kc) rest
      | None -> None) n0.n_st)
    (first_some (fun k ->
      first_some (fun kc ->
        pick chk (search chk (snd kc)) (fst kc) (tcands n0 k path))
        (kids k n0)) all_kinds)

(** val head_atom : kind -> key -> atom **)

let head_atom k ky =
  match k with
  | KDC -> AD ((fst ky), (snd ky))
  | KDY -> AD ((fst ky), (snd ky))
  | _ -> AW ((fst ky), (snd ky))

(** val cons_atoms : route -> routes -> routes **)

let cons_atoms pre rs =
  map (fun ri -> ((app pre (fst ri)), (snd ri))) rs

(** val routes_of : node -> routes **)

let rec routes_of n0 =
  let sub0 = fun pre l ->
    flat_map (fun kc -> cons_atoms (pre (fst kc)) (routes_of (snd kc))) l
  in
  let ends = fun k l ->
    flat_map (fun kc ->
      match (snd kc).n_data with
      | Some i -> (((head_atom k (fst kc)) :: []), i) :: []
      | None -> []) l
  in
  app (match n0.n_data with
       | Some i -> ([], i) :: []
       | None -> [])
    (app (sub0 (fun ky -> map (fun x -> AB x) (fst ky)) n0.n_st)
      (app (sub0 (fun ky -> (head_atom KDC ky) :: []) n0.n_dc)
        (app (sub0 (fun ky -> (head_atom KDY ky) :: []) n0.n_dy)
          (app (sub0 (fun ky -> (head_atom KWC ky) :: []) n0.n_wc)
            (app (sub0 (fun ky -> (head_atom KWI ky) :: []) n0.n_wi)
              (app (ends KEC n0.n_ec) (ends KEN n0.n_en)))))))

(** val is_nil : 'a1 list -> bool **)

let is_nil = function
| [] -> true
| _ :: _ -> false

(** val strictly_sorted : (key * node) list -> bool **)

let rec strictly_sorted = function
| [] -> true
| x :: l' ->
  (&&)
    (match l' with
     | [] -> true
     | y :: _ -> (match kcmp (fst x) (fst y) with
                  | Lt -> true
                  | _ -> false)) (strictly_sorted l')

(** val key_kind_ok : kind -> key -> bool **)

let key_kind_ok k ky =
  match k with
  | KDC -> (match snd ky with
            | Some _ -> true
            | None -> false)
  | KWC -> (match snd ky with
            | Some _ -> true
            | None -> false)
  | KEC -> (match snd ky with
            | Some _ -> true
            | None -> false)
  | _ -> (match snd ky with
          | Some _ -> false
          | None -> true)

(** val first_byte : key -> byte option **)

let first_byte ky =
  match fst ky with
  | [] -> None
  | b0 :: _ -> Some b0

(** val static_keys_ok : (key * node) list -> bool **)

let rec static_keys_ok = function
| [] -> true
| x :: l' ->
  (&&)
    (match first_byte (fst x) with
     | Some b0 ->
       (match snd (fst x) with
        | Some _ -> false
        | None ->
          negb
            (existsb (fun y ->
              match first_byte (fst y) with
              | Some b' -> N.eqb b0 b'
              | None -> true) l'))
     | None -> false) (static_keys_ok l')

(** val only_static_kids : node -> bool **)

let only_static_kids n0 =
  (&&)
    ((&&)
      ((&&) ((&&) ((&&) (is_nil n0.n_dc) (is_nil n0.n_dy)) (is_nil n0.n_wc))
        (is_nil n0.n_wi)) (is_nil n0.n_ec)) (is_nil n0.n_en)

(** val slash_ok : node -> bool **)

let slash_ok n0 =
  forallb (fun kc -> hd_is sL (fst (fst kc))) n0.n_st

(** val has_data : node -> bool **)

let has_data n0 =
  match n0.n_data with
  | Some _ -> true
  | None -> false

(** val inv_b : node -> bool **)

let rec inv_b n0 =
  let mid = fun k l ->
    (&&) (strictly_sorted l)
      (forallb (fun kc ->
        (&&)
          ((&&)
            ((&&) ((&&) (key_kind_ok k (fst kc)) (only_static_kids (snd kc)))
              (if is_dyn k then true else negb (has_data (snd kc))))
            (negb (is_nil (routes_of (snd kc))))) (inv_b (snd kc))) l)
  in
  let ends = fun k l ->
    (&&) (strictly_sorted l)
      (forallb (fun kc -> (&&) (key_kind_ok k (fst kc)) (has_data (snd kc)))
        l)
  in
  (&&)
    ((&&)
      ((&&)
        ((&&)
          ((&&)
            ((&&)
              ((&&)
                ((&&)
                  ((&&) (static_keys_ok n0.n_st)
                    (forallb (fun kc -> inv_b (snd kc)) n0.n_st))
                  (mid KDC n0.n_dc)) (mid KDY n0.n_dy)) (mid KWC n0.n_wc))
            (mid KWI n0.n_wi)) (ends KEC n0.n_ec)) (ends KEN n0.n_en))
      (implb n0.n_dflag
        (forallb (fun kc -> slash_ok (snd kc)) (app n0.n_dc n0.n_dy))))
    (implb n0.n_wflag
      (forallb (fun kc -> slash_ok (snd kc)) (app n0.n_wc n0.n_wi)))

(** val no_kids_b : node -> bool **)

let no_kids_b n0 =
  (&&) (is_nil n0.n_st) (only_static_kids n0)

(** val compressible_b : node -> bool **)

let compressible_b n0 =
  (&&) ((&&) (negb (has_data n0)) (only_static_kids n0))
    (match n0.n_st with
     | [] -> false
     | _ :: l -> (match l with
                  | [] -> true
                  | _ :: _ -> false))

(** val canon_node : bool -> node -> bool **)

let rec canon_node is_static n0 =
  let sub0 = fun st l ->
    (&&) (strictly_sorted l) (forallb (fun kc -> canon_node st (snd kc)) l)
  in
  let ends = fun l ->
    (&&) (strictly_sorted l)
      (forallb (fun kc -> (&&) (has_data (snd kc)) (no_kids_b (snd kc))) l)
  in
  (&&)
    ((&&)
      ((&&)
        ((&&)
          ((&&)
            ((&&)
              ((&&)
                ((&&) ((||) (has_data n0) (negb (no_kids_b n0)))
                  (negb ((&&) is_static (compressible_b n0))))
                (sub0 true n0.n_st)) (sub0 false n0.n_dc))
            (sub0 false n0.n_dy)) (sub0 false n0.n_wc)) (sub0 false n0.n_wi))
      (ends n0.n_ec)) (ends n0.n_en)

(** val canonical_b : node -> bool **)

let canonical_b root =
  (&&) ((&&) (negb (has_data root)) (only_static_kids root))
    (match root.n_st with
     | [] -> true
     | kc :: l ->
       (match l with
        | [] -> canon_node true (snd kc)
        | _ :: _ -> false))

type terr =
| EEmpty
| EMissingLeadingSlash of bytes
| EEmptyBraces of bytes * nat
| EUnbalancedBrace of bytes * nat
| EEmptyParentheses of bytes * nat
| EUnbalancedParenthesis of bytes * nat
| EEmptyParameter of bytes * nat * nat
| EInvalidParameter of bytes * bytes * nat * nat
| EDuplicateParameter of bytes * bytes * nat * nat * nat * nat
| EEmptyWildcard of bytes * nat * nat
| EEmptyConstraint of bytes * nat * nat
| EInvalidConstraint of bytes * bytes * nat * nat
| ETouchingParameters of bytes * nat * nat

type 'a out =
| Ret of 'a
| Err of terr
| Panic of nat
| Fuel

(** val bind : 'a1 out -> ('a1 -> 'a2 out) -> 'a2 out **)

let bind m f =
  match m with
  | Ret a -> f a
  | Err e -> Err e
  | Panic w1 -> Panic w1
  | Fuel -> Fuel

(** val idx : bytes -> nat -> nat -> byte out **)

let idx l i site =
  match nth_error l i with
  | Some b0 -> Ret b0
  | None -> Panic site

(** val slice : bytes -> nat -> nat -> nat -> bytes out **)

let slice l a b0 site =
  if (&&) (Nat.leb a b0) (Nat.leb b0 (length l))
  then Ret (firstn (sub b0 a) (skipn a l))
  else Panic site

(** val subn : nat -> nat -> nat -> nat out **)

let subn a b0 site =
  if Nat.leb b0 a then Ret (sub a b0) else Panic site

(** val iNVALID_PARAM_CHARS : bytes **)

let iNVALID_PARAM_CHARS =
  cOLON :: (sTAR :: (lB :: (rB :: (lP :: (rP :: (sL :: []))))))

(** val has_invalid : bytes -> bool **)

let has_invalid s =
  existsb (fun c -> existsb (N.eqb c) iNVALID_PARAM_CHARS) s

(** val expand : nat -> bytes -> nat -> nat -> bytes list out **)

let rec expand fuel input start en =
  match fuel with
  | O -> Fuel
  | S fuel' ->
    let rec scan steps cursor group depth result0 =
      match steps with
      | O -> Fuel
      | S steps' ->
        if Nat.ltb cursor en
        then bind (idx input cursor (S O)) (fun c ->
               if (&&) (N.eqb c bSL)
                    (match nth_error input (S cursor) with
                     | Some _ -> true
                     | None -> false)
               then scan steps' (add cursor (S (S O))) group depth result0
               else if N.eqb c lP
                    then if Z.eqb depth Z0
                         then bind (slice input group cursor (S (S O)))
                                (fun lit ->
                                scan steps' (S cursor) (S cursor)
                                  (Z.add depth (Zpos XH))
                                  (map (fun t -> app t lit) result0))
                         else scan steps' (S cursor) group
                                (Z.add depth (Zpos XH)) result0
                    else if N.eqb c rP
                         then let depth0 = Z.sub depth (Zpos XH) in
                              if Z.ltb depth0 Z0
                              then Err (EUnbalancedParenthesis (input,
                                     cursor))
                              else if Z.eqb depth0 Z0
                                   then if Nat.eqb cursor group
                                        then bind
                                               (subn cursor (S O) (S (S (S
                                                 O)))) (fun p0 -> Err
                                               (EEmptyParentheses (input,
                                               p0)))
                                        else bind
                                               (expand fuel' input group
                                                 cursor) (fun opts ->
                                               let result1 =
                                                 flat_map (fun t ->
                                                   app
                                                     (map (fun o -> app t o)
                                                       opts) (t :: []))
                                                   result0
                                               in
                                               scan steps' (S cursor) (S
                                                 cursor) depth0 result1)
                                   else scan steps' (S cursor) group depth0
                                          result0
                         else scan steps' (S cursor) group depth result0)
        else if negb (Z.eqb depth Z0)
             then bind (subn (add start group) (S O) (S (S (S (S O)))))
                    (fun p0 -> Err (EUnbalancedParenthesis (input, p0)))
             else if Nat.ltb group en
                  then bind (slice input group en (S (S (S (S (S O))))))
                         (fun lit -> Ret (map (fun t -> app t lit) result0))
                  else Ret result0
    in scan (S (length input)) start start Z0 ([] :: [])

(** val static_part : nat -> bytes -> nat -> bytes -> (bytes * nat) out **)

let rec static_part steps raw en acc =
  match steps with
  | O -> Fuel
  | S steps' ->
    if Nat.ltb en (length raw)
    then bind (idx raw en (S (S (S (S (S (S (S (S (S (S O)))))))))))
           (fun c ->
           if N.eqb c bSL
           then (match nth_error raw (S en) with
                 | Some nx ->
                   static_part steps' raw (add en (S (S O)))
                     (app acc (nx :: []))
                 | None ->
                   static_part steps' raw (add en (S O)) (app acc (bSL :: [])))
           else if (||) (N.eqb c lB) (N.eqb c rB)
                then Ret (acc, en)
                else static_part steps' raw (add en (S O)) (app acc (c :: [])))
    else Ret (acc, en)

(** val find_colon : bytes -> nat option **)

let rec find_colon = function
| [] -> None
| c :: s' ->
  if N.eqb c cOLON then Some O else option_map (fun x -> S x) (find_colon s')

(** val brace_scan : nat -> bytes -> nat -> nat -> (nat * nat) out **)

let rec brace_scan steps raw en count =
  match steps with
  | O -> Fuel
  | S steps' ->
    if Nat.ltb en (length raw)
    then bind
           (idx raw en (S (S (S (S (S (S (S (S (S (S (S (S (S (S (S (S (S (S
             (S (S O))))))))))))))))))))) (fun c ->
           if N.eqb c lB
           then brace_scan steps' raw (S en) (S count)
           else if N.eqb c rB
                then bind
                       (subn count (S O) (S (S (S (S (S (S (S (S (S (S (S (S
                         (S (S (S (S (S (S (S (S (S O))))))))))))))))))))))
                       (fun count' ->
                       if Nat.eqb count' O
                       then Ret (en, O)
                       else brace_scan steps' raw (S en) count')
                else brace_scan steps' raw (S en) count)
    else Ret (en, count)

(** val parameter_part : bytes -> nat -> (part * nat) out **)

let parameter_part raw cursor =
  let start = S cursor in
  bind (brace_scan (S (length raw)) raw start (S O)) (fun ec ->
    let (en, count) = ec in
    if negb (Nat.eqb count O)
    then Err (EUnbalancedBrace (raw, cursor))
    else bind
           (slice raw start en (S (S (S (S (S (S (S (S (S (S (S (S (S (S (S
             (S (S (S (S (S (S (S O))))))))))))))))))))))) (fun content ->
           match content with
           | [] -> Err (EEmptyBraces (raw, cursor))
           | _ :: _ ->
             bind
               (match find_colon content with
                | Some cp ->
                  bind
                    (slice content O cp (S (S (S (S (S (S (S (S (S (S (S (S
                      (S (S (S (S (S (S (S (S (S (S (S
                      O)))))))))))))))))))))))) (fun a ->
                    bind
                      (slice content (S cp) (length content) (S (S (S (S (S
                        (S (S (S (S (S (S (S (S (S (S (S (S (S (S (S (S (S (S
                        (S O))))))))))))))))))))))))) (fun b0 -> Ret (a,
                      (Some b0))))
                | None -> Ret (content, None)) (fun nc ->
               let (name, constraint0) = nc in
               bind
                 (bind
                   (subn en cursor (S (S (S (S (S (S (S (S (S (S (S (S (S (S
                     (S (S (S (S (S (S (S (S (S (S (S
                     O)))))))))))))))))))))))))) (fun d -> Ret (add d (S O))))
                 (fun len ->
                 match name with
                 | [] -> Err (EEmptyParameter (raw, cursor, len))
                 | _ :: _ ->
                   let is_wild = hd_is sTAR name in
                   let name0 = if is_wild then tl name else name in
                   if (&&) is_wild
                        (match name0 with
                         | [] -> true
                         | _ :: _ -> false)
                   then Err (EEmptyWildcard (raw, cursor, len))
                   else if has_invalid name0
                        then Err (EInvalidParameter (raw, name0, cursor, len))
                        else (match constraint0 with
                              | Some c ->
                                (match c with
                                 | [] ->
                                   let e = EEmptyConstraint (raw, cursor, len)
                                   in
                                   Err e
                                 | _ :: _ ->
                                   if has_invalid c
                                   then let e = EInvalidConstraint (raw, c,
                                          cursor, len)
                                        in
                                        Err e
                                   else if negb (utf8_valid name0)
                                        then Err (EInvalidParameter (raw,
                                               name0, cursor, len))
                                        else if negb
                                                  (match constraint0 with
                                                   | Some c0 -> utf8_valid c0
                                                   | None -> true)
                                             then Err (EInvalidConstraint
                                                    (raw,
                                                    (match constraint0 with
                                                     | Some c0 -> c0
                                                     | None -> []), cursor,
                                                    len))
                                             else Ret
                                                    ((if is_wild
                                                      then PW (name0,
                                                             constraint0)
                                                      else PD (name0,
                                                             constraint0)),
                                                    (S en)))
                              | None ->
                                if negb (utf8_valid name0)
                                then Err (EInvalidParameter (raw, name0,
                                       cursor, len))
                                else if negb
                                          (match constraint0 with
                                           | Some c -> utf8_valid c
                                           | None -> true)
                                     then Err (EInvalidConstraint (raw,
                                            (match constraint0 with
                                             | Some c -> c
                                             | None -> []), cursor, len))
                                     else Ret
                                            ((if is_wild
                                              then PW (name0, constraint0)
                                              else PD (name0, constraint0)),
                                            (S en)))))))

(** val part_name : part -> bytes option **)

let part_name = function
| PS _ -> None
| PD (n0, _) -> Some n0
| PW (n0, _) -> Some n0

(** val last_opt : 'a1 list -> 'a1 option **)

let last_opt l =
  match rev l with
  | [] -> None
  | x :: _ -> Some x

(** val template_loop :
    nat -> bytes -> nat -> ((bytes * nat) * nat) list -> part list -> part
    list out **)

let rec template_loop steps raw cursor seen parts =
  match steps with
  | O -> Fuel
  | S steps' ->
    if Nat.ltb cursor (length raw)
    then bind
           (idx raw cursor (S (S (S (S (S (S (S (S (S (S (S (S (S (S (S (S (S
             (S (S (S (S (S (S (S (S (S (S (S (S (S
             O))))))))))))))))))))))))))))))) (fun c ->
           if N.eqb c lB
           then bind (parameter_part raw cursor) (fun pn ->
                  let (p0, next) = pn in
                  (match last_opt seen with
                   | Some p1 ->
                     let (p2, l) = p1 in
                     let (_, s) = p2 in
                     if Nat.eqb cursor (add s l)
                     then let p3 = (s, l) in
                          let (s0, _) = p3 in
                          bind
                            (subn next s0 (S (S (S (S (S (S (S (S (S (S (S (S
                              (S (S (S (S (S (S (S (S (S (S (S (S (S (S (S (S
                              (S (S (S O))))))))))))))))))))))))))))))))
                            (fun l0 -> Err (ETouchingParameters (raw, s0,
                            l0)))
                     else (match part_name p0 with
                           | Some name ->
                             (match find (fun x -> beqb (fst (fst x)) name)
                                      seen with
                              | Some p3 ->
                                let (p4, l0) = p3 in
                                let (_, s0) = p4 in
                                bind
                                  (subn next cursor (S (S (S (S (S (S (S (S
                                    (S (S (S (S (S (S (S (S (S (S (S (S (S (S
                                    (S (S (S (S (S (S (S (S (S (S
                                    O)))))))))))))))))))))))))))))))))
                                  (fun sl -> Err (EDuplicateParameter (raw,
                                  name, s0, l0, cursor, sl)))
                              | None ->
                                bind
                                  (subn next cursor (S (S (S (S (S (S (S (S
                                    (S (S (S (S (S (S (S (S (S (S (S (S (S (S
                                    (S (S (S (S (S (S (S (S (S (S (S
                                    O))))))))))))))))))))))))))))))))))
                                  (fun sl ->
                                  template_loop steps' raw next
                                    (app seen (((name, cursor), sl) :: []))
                                    (app parts (p0 :: []))))
                           | None ->
                             template_loop steps' raw next seen
                               (app parts (p0 :: [])))
                   | None ->
                     (match part_name p0 with
                      | Some name ->
                        (match find (fun x -> beqb (fst (fst x)) name) seen with
                         | Some p1 ->
                           let (p2, l) = p1 in
                           let (_, s) = p2 in
                           bind
                             (subn next cursor (S (S (S (S (S (S (S (S (S (S
                               (S (S (S (S (S (S (S (S (S (S (S (S (S (S (S
                               (S (S (S (S (S (S (S
                               O))))))))))))))))))))))))))))))))) (fun sl ->
                             Err (EDuplicateParameter (raw, name, s, l,
                             cursor, sl)))
                         | None ->
                           bind
                             (subn next cursor (S (S (S (S (S (S (S (S (S (S
                               (S (S (S (S (S (S (S (S (S (S (S (S (S (S (S
                               (S (S (S (S (S (S (S (S
                               O)))))))))))))))))))))))))))))))))) (fun sl ->
                             template_loop steps' raw next
                               (app seen (((name, cursor), sl) :: []))
                               (app parts (p0 :: []))))
                      | None ->
                        template_loop steps' raw next seen
                          (app parts (p0 :: [])))))
           else if N.eqb c rB
                then Err (EUnbalancedBrace (raw, cursor))
                else bind (static_part (S (length raw)) raw cursor [])
                       (fun sp ->
                       let (s, next) = sp in
                       template_loop steps' raw next seen
                         (app parts ((PS s) :: []))))
    else Ret parts

type expansion = bytes * part list

(** val parse_template : bytes -> expansion out **)

let parse_template raw =
  if match raw with
     | [] -> false
     | b0 :: _ -> negb (N.eqb b0 sL)
  then Err (EMissingLeadingSlash raw)
  else bind (template_loop (S (length raw)) raw O [] []) (fun ps -> Ret (raw,
         ps))

(** val map_out : ('a1 -> 'a2 out) -> 'a1 list -> 'a2 list out **)

let rec map_out f = function
| [] -> Ret []
| x :: l' ->
  bind (f x) (fun y -> bind (map_out f l') (fun ys -> Ret (y :: ys)))

(** val parse : bytes -> expansion list out **)

let parse input = match input with
| [] -> Err EEmpty
| _ :: _ ->
  bind (expand (S (length input)) input O (length input)) (fun raws ->
    map_out (fun raw ->
      parse_template (match raw with
                      | [] -> sL :: []
                      | _ :: _ -> raw)) raws)

(** val set_data : info option -> node -> node **)

let set_data d n0 =
  { n_data = d; n_st = n0.n_st; n_dc = n0.n_dc; n_dy = n0.n_dy; n_wc =
    n0.n_wc; n_wi = n0.n_wi; n_ec = n0.n_ec; n_en = n0.n_en; n_dflag =
    n0.n_dflag; n_wflag = n0.n_wflag; n_dirty = n0.n_dirty }

(** val set_st : (key * node) list -> node -> node **)

let set_st l n0 =
  { n_data = n0.n_data; n_st = l; n_dc = n0.n_dc; n_dy = n0.n_dy; n_wc =
    n0.n_wc; n_wi = n0.n_wi; n_ec = n0.n_ec; n_en = n0.n_en; n_dflag =
    n0.n_dflag; n_wflag = n0.n_wflag; n_dirty = n0.n_dirty }

(** val set_kids : kind -> (key * node) list -> node -> node **)

let set_kids k l n0 =
  match k with
  | KDC ->
    { n_data = n0.n_data; n_st = n0.n_st; n_dc = l; n_dy = n0.n_dy; n_wc =
      n0.n_wc; n_wi = n0.n_wi; n_ec = n0.n_ec; n_en = n0.n_en; n_dflag =
      n0.n_dflag; n_wflag = n0.n_wflag; n_dirty = n0.n_dirty }
  | KDY ->
    { n_data = n0.n_data; n_st = n0.n_st; n_dc = n0.n_dc; n_dy = l; n_wc =
      n0.n_wc; n_wi = n0.n_wi; n_ec = n0.n_ec; n_en = n0.n_en; n_dflag =
      n0.n_dflag; n_wflag = n0.n_wflag; n_dirty = n0.n_dirty }
  | KWC ->
    { n_data = n0.n_data; n_st = n0.n_st; n_dc = n0.n_dc; n_dy = n0.n_dy;
      n_wc = l; n_wi = n0.n_wi; n_ec = n0.n_ec; n_en = n0.n_en; n_dflag =
      n0.n_dflag; n_wflag = n0.n_wflag; n_dirty = n0.n_dirty }
  | KWI ->
    { n_data = n0.n_data; n_st = n0.n_st; n_dc = n0.n_dc; n_dy = n0.n_dy;
      n_wc = n0.n_wc; n_wi = l; n_ec = n0.n_ec; n_en = n0.n_en; n_dflag =
      n0.n_dflag; n_wflag = n0.n_wflag; n_dirty = n0.n_dirty }
  | KEC ->
    { n_data = n0.n_data; n_st = n0.n_st; n_dc = n0.n_dc; n_dy = n0.n_dy;
      n_wc = n0.n_wc; n_wi = n0.n_wi; n_ec = l; n_en = n0.n_en; n_dflag =
      n0.n_dflag; n_wflag = n0.n_wflag; n_dirty = n0.n_dirty }
  | KEN ->
    { n_data = n0.n_data; n_st = n0.n_st; n_dc = n0.n_dc; n_dy = n0.n_dy;
      n_wc = n0.n_wc; n_wi = n0.n_wi; n_ec = n0.n_ec; n_en = l; n_dflag =
      n0.n_dflag; n_wflag = n0.n_wflag; n_dirty = n0.n_dirty }

(** val set_dirty : bool -> node -> node **)

let set_dirty b0 n0 =
  { n_data = n0.n_data; n_st = n0.n_st; n_dc = n0.n_dc; n_dy = n0.n_dy;
    n_wc = n0.n_wc; n_wi = n0.n_wi; n_ec = n0.n_ec; n_en = n0.n_en; n_dflag =
    n0.n_dflag; n_wflag = n0.n_wflag; n_dirty = b0 }

(** val set_flags : bool -> bool -> node -> node **)

let set_flags d w1 n0 =
  { n_data = n0.n_data; n_st = n0.n_st; n_dc = n0.n_dc; n_dy = n0.n_dy;
    n_wc = n0.n_wc; n_wi = n0.n_wi; n_ec = n0.n_ec; n_en = n0.n_en; n_dflag =
    d; n_wflag = w1; n_dirty = n0.n_dirty }

(** val part_kind : part -> part list -> (kind * key) option **)

let part_kind p0 rest =
  match p0 with
  | PS _ -> None
  | PD (n0, c0) ->
    (match c0 with
     | Some c -> Some (KDC, (n0, (Some c)))
     | None -> Some (KDY, (n0, None)))
  | PW (n0, c0) ->
    (match c0 with
     | Some c ->
       Some ((match rest with
              | [] -> KEC
              | _ :: _ -> KWC), (n0, (Some c)))
     | None -> Some ((match rest with
                      | [] -> KEN
                      | _ :: _ -> KWI), (n0, None)))

(** val same_first : bytes -> bytes -> bool **)

let same_first k p0 =
  match k with
  | [] -> false
  | a :: _ -> (match p0 with
               | [] -> false
               | b0 :: _ -> N.eqb a b0)

(** val upd_first :
    ('a1 -> bool) -> ('a1 -> 'a1) -> 'a1 list -> 'a1 list option **)

let rec upd_first pred0 f = function
| [] -> None
| x :: l' ->
  if pred0 x
  then Some ((f x) :: l')
  else option_map (fun x0 -> x :: x0) (upd_first pred0 f l')

(** val insert : nat -> node -> part list -> info -> node **)

let rec insert fuel n0 ps d =
  match fuel with
  | O -> n0
  | S f ->
    (match ps with
     | [] -> set_dirty true (set_data (Some d) n0)
     | p0 :: ps' ->
       (match p0 with
        | PS p1 -> insert_static f n0 p1 ps' d
        | _ ->
          (match part_kind p0 ps' with
           | Some p1 ->
             let (k, ky) = p1 in
             if is_end k
             then if existsb (fun kc -> keqb (fst kc) ky) (kids k n0)
                  then n0
                  else set_dirty true
                         (set_kids k
                           (app (kids k n0) ((ky,
                             (set_data (Some d) empty_node)) :: [])) n0)
             else (match upd_first (fun kc -> keqb (fst kc) ky) (fun kc ->
                           ((fst kc), (insert f (snd kc) ps' d))) (kids k n0) with
                   | Some l -> set_dirty true (set_kids k l n0)
                   | None ->
                     set_dirty true
                       (set_kids k
                         (app (kids k n0) ((ky,
                           (insert f empty_node ps' d)) :: [])) n0))
           | None -> n0)))

(** val insert_static : nat -> node -> bytes -> part list -> info -> node **)

and insert_static fuel n0 p0 ps d =
  match fuel with
  | O -> n0
  | S f ->
    (match upd_first (fun kc -> same_first (fst (fst kc)) p0) (fun kc ->
             let k = fst (fst kc) in
             let c = snd kc in
             let cp = lcp p0 k in
             if leb (length k) cp
             then ((fst kc),
                    (if leb (length p0) cp
                     then insert f c ps d
                     else insert_static f c (skipn cp p0) ps d))
             else let a = (((skipn cp k), None), c) in
                  let parent0 = { n_data = None; n_st = []; n_dc = []; n_dy =
                    []; n_wc = []; n_wi = []; n_ec = []; n_en = []; n_dflag =
                    c.n_dflag; n_wflag = c.n_wflag; n_dirty = true }
                  in
                  (((firstn cp k), None),
                  (if leb (length p0) cp
                   then insert f (set_st (a :: []) parent0) ps d
                   else set_st (a :: ((((skipn cp p0), None),
                          (insert f empty_node ps d)) :: [])) parent0)))
             n0.n_st with
     | Some l -> set_dirty true (set_st l n0)
     | None ->
       set_dirty true
         (set_st
           (app n0.n_st (((p0, None), (insert f empty_node ps d)) :: [])) n0))

(** val find_node : nat -> node -> part list -> info option **)

let rec find_node fuel n0 ps =
  match fuel with
  | O -> None
  | S f ->
    (match ps with
     | [] -> n0.n_data
     | p0 :: ps' ->
       (match p0 with
        | PS p1 -> find_static f n0 p1 ps'
        | _ ->
          (match part_kind p0 ps' with
           | Some p1 ->
             let (k, ky) = p1 in
             (match find (fun kc -> keqb (fst kc) ky) (kids k n0) with
              | Some kc -> find_node f (snd kc) ps'
              | None -> None)
           | None -> None)))

(** val find_static : nat -> node -> bytes -> part list -> info option **)

and find_static fuel n0 p0 ps =
  match fuel with
  | O -> None
  | S f ->
    (match first_some (fun kc ->
             let k = fst (fst kc) in
             if same_first k p0
             then let cp = lcp p0 k in
                  if leb (length k) cp
                  then if leb (length p0) cp
                       then Some (find_node f (snd kc) ps)
                       else Some (find_static f (snd kc) (skipn cp p0) ps)
                  else None
             else None) n0.n_st with
     | Some x -> x
     | None -> None)

(** val split_at :
    ('a1 -> bool) -> 'a1 list -> (('a1 list * 'a1) * 'a1 list) option **)

let rec split_at pred0 = function
| [] -> None
| x :: l' ->
  if pred0 x
  then Some (([], x), l')
  else (match split_at pred0 l' with
        | Some p0 ->
          let (p1, b0) = p0 in let (a, y) = p1 in Some (((x :: a), y), b0)
        | None -> None)

(** val no_kids : node -> bool **)

let no_kids n0 =
  match n0.n_st with
  | [] ->
    (match n0.n_dc with
     | [] ->
       (match n0.n_dy with
        | [] ->
          (match n0.n_wc with
           | [] ->
             (match n0.n_wi with
              | [] ->
                (match n0.n_ec with
                 | [] -> (match n0.n_en with
                          | [] -> true
                          | _ :: _ -> false)
                 | _ :: _ -> false)
              | _ :: _ -> false)
           | _ :: _ -> false)
        | _ :: _ -> false)
     | _ :: _ -> false)
  | _ :: _ -> false

(** val is_empty : node -> bool **)

let is_empty n0 =
  match n0.n_data with
  | Some _ -> false
  | None -> no_kids n0

(** val is_compressible : node -> bool **)

let is_compressible n0 =
  match n0.n_data with
  | Some _ -> false
  | None ->
    (match n0.n_st with
     | [] -> false
     | _ :: l ->
       (match l with
        | [] ->
          (match n0.n_dc with
           | [] ->
             (match n0.n_dy with
              | [] ->
                (match n0.n_wc with
                 | [] ->
                   (match n0.n_wi with
                    | [] ->
                      (match n0.n_ec with
                       | [] ->
                         (match n0.n_en with
                          | [] -> true
                          | _ :: _ -> false)
                       | _ :: _ -> false)
                    | _ :: _ -> false)
                 | _ :: _ -> false)
              | _ :: _ -> false)
           | _ :: _ -> false)
        | _ :: _ -> false))

(** val delete : nat -> node -> part list -> node * info option **)

let rec delete fuel n0 ps =
  match fuel with
  | O -> (n0, None)
  | S f ->
    (match ps with
     | [] ->
       (match n0.n_data with
        | Some d -> ((set_dirty true (set_data None n0)), (Some d))
        | None -> (n0, None))
     | p0 :: ps' ->
       (match p0 with
        | PS p1 -> delete_static f n0 p1 ps'
        | _ ->
          (match part_kind p0 ps' with
           | Some p1 ->
             let (k, ky) = p1 in
             (match split_at (fun kc -> keqb (fst kc) ky) (kids k n0) with
              | Some p2 ->
                let (p3, b0) = p2 in
                let (a, kc) = p3 in
                if is_end k
                then (match (snd kc).n_data with
                      | Some d ->
                        ((set_dirty true (set_kids k (app a b0) n0)), (Some
                          d))
                      | None -> ((set_kids k (app a b0) n0), None))
                else let (c', r) = delete f (snd kc) ps' in
                     if is_empty c'
                     then ((set_dirty true (set_kids k (app a b0) n0)), r)
                     else ((set_kids k (app a (((fst kc), c') :: b0)) n0), r)
              | None -> (n0, None))
           | None -> (n0, None))))

(** val delete_static :
    nat -> node -> bytes -> part list -> node * info option **)

and delete_static fuel n0 p0 ps =
  match fuel with
  | O -> (n0, None)
  | S f ->
    (match split_at (fun kc ->
             match starts_with (fst (fst kc)) p0 with
             | Some _ -> true
             | None -> false) n0.n_st with
     | Some p1 ->
       let (p2, b0) = p1 in
       let (a, kc) = p2 in
       let k = fst (fst kc) in
       let c = set_dirty true (snd kc) in
       let rem = skipn (length k) p0 in
       let (c', r) =
         match rem with
         | [] -> delete f c ps
         | _ :: _ -> delete_static f c rem ps
       in
       if is_empty c'
       then ((set_dirty true (set_st (app a b0) n0)), r)
       else if is_compressible c'
            then (match c'.n_st with
                  | [] -> (n0, None)
                  | p3 :: l ->
                    let (mk, m) = p3 in
                    (match l with
                     | [] ->
                       ((set_st
                          (app a ((((app k (fst mk)), None),
                            (set_dirty true m)) :: b0)) n0), r)
                     | _ :: _ -> (n0, None)))
            else ((set_st (app a (((k, None), c') :: b0)) n0), r)
     | None -> (n0, None))

(** val ins_sorted :
    (key * node) -> (key * node) list -> (key * node) list **)

let rec ins_sorted x l = match l with
| [] -> x :: []
| y :: l' ->
  (match kcmp (fst x) (fst y) with
   | Gt -> y :: (ins_sorted x l')
   | _ -> x :: l)

(** val sort_kids : (key * node) list -> (key * node) list **)

let sort_kids l =
  fold_right ins_sorted [] l

(** val slash_led : node -> bool **)

let slash_led n0 =
  (||) (no_kids n0) (forallb (fun kc -> hd_is sL (fst (fst kc))) n0.n_st)

(** val dyn_cond : node -> bool **)

let dyn_cond n0 =
  (&&)
    (forallb (fun kc -> (||) (hd_is sL (fst (fst kc))) (slash_led (snd kc)))
      n0.n_dc)
    (forallb (fun kc -> (||) (hd_is sL (fst (fst kc))) (slash_led (snd kc)))
      n0.n_dy)

(** val wild_cond : node -> bool **)

let wild_cond n0 =
  (&&) (forallb (fun kc -> slash_led (snd kc)) n0.n_wc)
    (forallb (fun kc -> slash_led (snd kc)) n0.n_wi)

(** val optimize : node -> node **)

let rec optimize n0 =
  if negb n0.n_dirty
  then n0
  else let opt = map (fun kc -> ((fst kc), (optimize (snd kc)))) in
       let n' = { n_data = n0.n_data; n_st = (sort_kids (opt n0.n_st));
         n_dc = (sort_kids (opt n0.n_dc)); n_dy = (sort_kids (opt n0.n_dy));
         n_wc = (sort_kids (opt n0.n_wc)); n_wi = (sort_kids (opt n0.n_wi));
         n_ec = (sort_kids (opt n0.n_ec)); n_en = (sort_kids (opt n0.n_en));
         n_dflag = false; n_wflag = false; n_dirty = false }
       in
       set_flags (dyn_cond n') (wild_cond n') n'

(** val parts_size : part list -> nat **)

let rec parts_size = function
| [] -> S O
| p0 :: ps' ->
  (match p0 with
   | PS s -> add (S (length s)) (parts_size ps')
   | _ -> add (S O) (parts_size ps'))

(** val ops_fuel : part list -> nat **)

let ops_fuel ps =
  S (parts_size ps)

type router = { r_root : node; r_constraints : (bytes * bytes) list }

type insert_err =
| IETemplate of terr
| IEConflict of bytes * bytes list
| IEUnknownConstraint of bytes

type delete_err =
| DETemplate of terr
| DENotFound of bytes
| DEMismatch of bytes * bytes

type constraint_err =
| CEDuplicateName of bytes * bytes * bytes

type ('e, 'a) result =
| ROk of 'a
| RErr of 'e
| RPanic of nat

(** val registered : router -> bytes -> bool **)

let registered r c =
  existsb (fun nt -> beqb (fst nt) c) r.r_constraints

(** val rconstraint :
    router -> bytes -> bytes -> router * (constraint_err, unit) result **)

let rconstraint r name type_name =
  match find (fun nt -> beqb (fst nt) name) r.r_constraints with
  | Some p0 ->
    let (_, old) = p0 in (r, (RErr (CEDuplicateName (name, old, type_name))))
  | None ->
    ({ r_root = r.r_root; r_constraints =
      (app r.r_constraints ((name, type_name) :: [])) }, (ROk ()))

(** val part_constraint : part -> bytes option **)

let part_constraint = function
| PS _ -> None
| PD (_, c0) -> c0
| PW (_, c0) -> c0

(** val bins0 : bytes -> bytes list -> bytes list **)

let rec bins0 x l = match l with
| [] -> x :: []
| y :: l' -> (match bcmp x y with
              | Gt -> y :: (bins0 x l')
              | _ -> x :: l)

(** val bsort : bytes list -> bytes list **)

let bsort l =
  fold_right bins0 [] l

(** val dedup : bytes list -> bytes list **)

let rec dedup l = match l with
| [] -> l
| x :: l' ->
  (match l' with
   | [] -> l
   | y :: _ -> if beqb x y then dedup l' else x :: (dedup l'))

(** val count_slash : bytes -> n **)

let count_slash s =
  N.of_nat (count_byte sL s)

(** val rinsert :
    router -> bytes -> n -> router * (insert_err, unit) result **)

let rinsert r t d =
  match parse t with
  | Ret es ->
    (match first_some (fun e ->
             first_some (fun p0 ->
               match part_constraint p0 with
               | Some c -> if registered r c then None else Some c
               | None -> None) (rev (snd e))) es with
     | Some c -> (r, (RErr (IEUnknownConstraint c)))
     | None ->
       let conflicts =
         filter_map (fun e ->
           option_map (fun i -> i.i_template)
             (find_node (ops_fuel (snd e)) r.r_root (snd e))) es
       in
       (match conflicts with
        | [] ->
          let shared =
            match es with
            | [] -> false
            | _ :: l -> (match l with
                         | [] -> false
                         | _ :: _ -> true)
          in
          let root =
            fold_left (fun root e ->
              insert (ops_fuel (snd e)) root (snd e) { i_template = t;
                i_expanded = (if shared then Some (fst e) else None);
                i_depth = (count_slash (fst e)); i_length =
                (N.of_nat (length (fst e))); i_data = d }) es r.r_root
          in
          ({ r_root = (optimize root); r_constraints = r.r_constraints },
          (ROk ()))
        | _ :: _ -> (r, (RErr (IEConflict (t, (dedup (bsort conflicts))))))))
  | Err e -> (r, (RErr (IETemplate e)))
  | Panic s -> (r, (RPanic s))
  | Fuel ->
    (r, (RPanic (S (S (S (S (S (S (S (S (S (S (S (S (S (S (S (S (S (S (S (S
      (S (S (S (S (S (S (S (S (S (S (S (S (S (S (S (S (S (S (S (S (S (S (S (S
      (S (S (S (S (S (S (S (S (S (S (S (S (S (S (S (S (S (S (S (S (S (S (S (S
      (S (S (S (S (S (S (S (S (S (S (S (S (S (S (S (S (S (S (S (S (S (S (S (S
      (S (S (S (S (S (S (S (S (S (S (S (S (S (S (S (S (S (S (S (S (S (S (S (S
      (S (S (S (S (S (S (S (S (S (S (S (S (S (S (S (S (S (S (S (S (S (S (S (S
      (S (S (S (S (S (S (S (S (S (S (S (S (S (S (S (S (S (S (S (S (S (S (S (S
      (S (S (S (S (S (S (S (S (S (S (S (S (S (S (S (S (S (S (S (S (S (S (S (S
      (S (S (S (S (S (S (S (S (S (S (S (S (S (S (S (S (S (S (S (S (S (S (S (S
      (S (S (S (S (S (S (S (S (S (S (S (S (S (S (S (S (S (S (S (S (S (S (S (S
      (S (S (S (S (S (S (S (S (S (S (S (S (S (S (S (S (S (S (S (S (S (S (S (S
      (S (S (S (S (S (S (S (S (S (S (S (S (S (S (S (S (S (S (S (S (S (S (S (S
      (S (S (S (S (S (S (S (S (S (S (S (S (S (S (S (S (S (S (S (S (S (S (S (S
      (S (S (S (S (S (S (S (S (S (S (S (S (S (S (S (S (S (S (S (S (S (S (S (S
      (S (S (S (S (S (S (S (S (S (S (S (S (S (S (S (S (S (S (S (S (S (S (S (S
      (S (S (S (S (S (S (S (S (S (S (S (S (S (S (S (S (S (S (S (S (S (S (S (S
      (S (S (S (S (S (S (S (S (S (S (S (S (S (S (S (S (S (S (S (S (S (S (S (S
      (S (S (S (S (S (S (S (S (S (S (S (S (S (S (S (S (S (S (S (S (S (S (S (S
      (S (S (S (S (S (S (S (S (S (S (S (S (S (S (S (S (S (S (S (S (S (S (S (S
      (S (S (S (S (S (S (S (S (S (S (S (S (S (S (S (S (S (S (S (S (S (S (S (S
      (S (S (S (S (S (S (S (S (S (S (S (S (S (S (S (S (S (S (S (S (S (S (S (S
      (S (S (S (S (S (S (S (S (S (S (S (S (S (S (S (S (S (S (S (S (S (S (S (S
      (S (S (S (S (S (S (S (S (S (S (S (S (S (S (S (S (S (S (S (S (S (S (S (S
      (S (S (S (S (S (S (S (S (S (S (S (S (S (S (S (S (S (S (S (S (S (S (S (S
      (S (S (S (S (S (S (S (S (S (S (S (S (S (S (S (S (S (S (S (S (S (S (S (S
      (S (S (S (S (S (S (S (S (S (S (S (S (S (S (S (S (S (S (S (S (S (S (S (S
      (S (S (S (S (S (S (S (S (S (S (S (S (S (S (S (S (S (S (S (S (S (S (S (S
      (S (S (S (S (S (S (S (S (S (S (S (S (S (S (S (S (S (S (S (S (S (S (S (S
      (S (S (S (S (S (S (S (S (S (S (S (S (S (S (S (S (S (S (S (S (S (S (S (S
      (S (S (S (S (S (S (S (S (S (S (S (S (S (S (S (S (S (S (S (S (S (S (S (S
      (S (S (S (S (S (S (S (S (S (S (S (S (S (S (S (S (S (S (S (S (S (S (S (S
      (S (S (S (S (S (S (S (S (S (S (S (S (S (S (S (S (S (S (S (S (S (S (S (S
      (S (S (S (S (S (S (S (S (S (S (S (S (S (S (S (S (S (S (S (S (S (S (S (S
      (S (S (S (S (S (S (S (S (S (S (S (S (S (S (S (S (S (S (S (S (S (S (S (S
      (S (S (S (S (S (S (S (S (S (S (S (S (S (S (S (S (S (S (S (S (S (S (S (S
      (S (S (S (S (S (S (S (S (S (S (S (S (S (S (S (S (S (S (S (S (S (S (S (S
      (S (S (S (S (S (S (S (S (S (S (S (S (S (S (S (S (S (S (S (S (S (S (S (S
      (S (S (S (S (S (S (S (S (S (S (S (S (S (S (S (S (S (S (S (S (S (S (S (S
      (S (S (S (S (S (S (S (S (S (S (S (S (S (S (S (S (S (S (S (S (S (S (S (S
      (S (S (S (S (S (S (S (S (S (S (S (S (S (S (S (S (S (S (S (S (S (S (S (S
      (S (S (S (S (S (S (S (S (S (S (S (S (S (S (S (S (S (S (S (S (S (S (S (S
      (S (S (S (S (S (S (S (S (S (S (S (S (S (S (S (S (S (S (S
      O)))))))))))))))))))))))))))))))))))))))))))))))))))))))))))))))))))))))))))))))))))))))))))))))))))))))))))))))))))))))))))))))))))))))))))))))))))))))))))))))))))))))))))))))))))))))))))))))))))))))))))))))))))))))))))))))))))))))))))))))))))))))))))))))))))))))))))))))))))))))))))))))))))))))))))))))))))))))))))))))))))))))))))))))))))))))))))))))))))))))))))))))))))))))))))))))))))))))))))))))))))))))))))))))))))))))))))))))))))))))))))))))))))))))))))))))))))))))))))))))))))))))))))))))))))))))))))))))))))))))))))))))))))))))))))))))))))))))))))))))))))))))))))))))))))))))))))))))))))))))))))))))))))))))))))))))))))))))))))))))))))))))))))))))))))))))))))))))))))))))))))))))))))))))))))))))))))))))))))))))))))))))))))))))))))))))))))))))))))))))))))))))))))))))))))))))))))))))))))))))))))))))))))))))))))))))))))))))))))))))))))))))))))))))))))))))))))))))))))))))))))))))))))))))))))))))))))))))))))))))))))))))))))))))))))))))))))))))))))))))))))))))))))))))))))))))))))))))))))))))))

(** val rdelete : router -> bytes -> router * (delete_err, n) result **)

let rdelete r t =
  match parse t with
  | Ret es ->
    (match first_some (fun e ->
             match find_node (ops_fuel (snd e)) r.r_root (snd e) with
             | Some found ->
               if beqb found.i_template t then None else Some found.i_template
             | None -> None) es with
     | Some inserted -> (r, (RErr (DEMismatch (t, inserted))))
     | None ->
       if existsb (fun e ->
            match find_node (ops_fuel (snd e)) r.r_root (snd e) with
            | Some _ -> false
            | None -> true) es
       then (r, (RErr (DENotFound t)))
       else let (root, output) =
              fold_left (fun acc e ->
                let (root', x) = delete (ops_fuel (snd e)) (fst acc) (snd e)
                in
                (root',
                (match x with
                 | Some i -> Some i.i_data
                 | None -> snd acc))) es (r.r_root, None)
            in
            (match output with
             | Some d ->
               ({ r_root = (optimize root); r_constraints =
                 r.r_constraints }, (ROk d))
             | None ->
               ({ r_root = root; r_constraints = r.r_constraints }, (RErr
                 (DENotFound t)))))
  | Err e -> (r, (RErr (DETemplate e)))
  | Panic s -> (r, (RPanic s))
  | Fuel ->
    (r, (RPanic (S (S (S (S (S (S (S (S (S (S (S (S (S (S (S (S (S (S (S (S
      (S (S (S (S (S (S (S (S (S (S (S (S (S (S (S (S (S (S (S (S (S (S (S (S
      (S (S (S (S (S (S (S (S (S (S (S (S (S (S (S (S (S (S (S (S (S (S (S (S
      (S (S (S (S (S (S (S (S (S (S (S (S (S (S (S (S (S (S (S (S (S (S (S (S
      (S (S (S (S (S (S (S (S (S (S (S (S (S (S (S (S (S (S (S (S (S (S (S (S
      (S (S (S (S (S (S (S (S (S (S (S (S (S (S (S (S (S (S (S (S (S (S (S (S
      (S (S (S (S (S (S (S (S (S (S (S (S (S (S (S (S (S (S (S (S (S (S (S (S
      (S (S (S (S (S (S (S (S (S (S (S (S (S (S (S (S (S (S (S (S (S (S (S (S
      (S (S (S (S (S (S (S (S (S (S (S (S (S (S (S (S (S (S (S (S (S (S (S (S
      (S (S (S (S (S (S (S (S (S (S (S (S (S (S (S (S (S (S (S (S (S (S (S (S
      (S (S (S (S (S (S (S (S (S (S (S (S (S (S (S (S (S (S (S (S (S (S (S (S
      (S (S (S (S (S (S (S (S (S (S (S (S (S (S (S (S (S (S (S (S (S (S (S (S
      (S (S (S (S (S (S (S (S (S (S (S (S (S (S (S (S (S (S (S (S (S (S (S (S
      (S (S (S (S (S (S (S (S (S (S (S (S (S (S (S (S (S (S (S (S (S (S (S (S
      (S (S (S (S (S (S (S (S (S (S (S (S (S (S (S (S (S (S (S (S (S (S (S (S
      (S (S (S (S (S (S (S (S (S (S (S (S (S (S (S (S (S (S (S (S (S (S (S (S
      (S (S (S (S (S (S (S (S (S (S (S (S (S (S (S (S (S (S (S (S (S (S (S (S
      (S (S (S (S (S (S (S (S (S (S (S (S (S (S (S (S (S (S (S (S (S (S (S (S
      (S (S (S (S (S (S (S (S (S (S (S (S (S (S (S (S (S (S (S (S (S (S (S (S
      (S (S (S (S (S (S (S (S (S (S (S (S (S (S (S (S (S (S (S (S (S (S (S (S
      (S (S (S (S (S (S (S (S (S (S (S (S (S (S (S (S (S (S (S (S (S (S (S (S
      (S (S (S (S (S (S (S (S (S (S (S (S (S (S (S (S (S (S (S (S (S (S (S (S
      (S (S (S (S (S (S (S (S (S (S (S (S (S (S (S (S (S (S (S (S (S (S (S (S
      (S (S (S (S (S (S (S (S (S (S (S (S (S (S (S (S (S (S (S (S (S (S (S (S
      (S (S (S (S (S (S (S (S (S (S (S (S (S (S (S (S (S (S (S (S (S (S (S (S
      (S (S (S (S (S (S (S (S (S (S (S (S (S (S (S (S (S (S (S (S (S (S (S (S
      (S (S (S (S (S (S (S (S (S (S (S (S (S (S (S (S (S (S (S (S (S (S (S (S
      (S (S (S (S (S (S (S (S (S (S (S (S (S (S (S (S (S (S (S (S (S (S (S (S
      (S (S (S (S (S (S (S (S (S (S (S (S (S (S (S (S (S (S (S (S (S (S (S (S
      (S (S (S (S (S (S (S (S (S (S (S (S (S (S (S (S (S (S (S (S (S (S (S (S
      (S (S (S (S (S (S (S (S (S (S (S (S (S (S (S (S (S (S (S (S (S (S (S (S
      (S (S (S (S (S (S (S (S (S (S (S (S (S (S (S (S (S (S (S (S (S (S (S (S
      (S (S (S (S (S (S (S (S (S (S (S (S (S (S (S (S (S (S (S (S (S (S (S (S
      (S (S (S (S (S (S (S (S (S (S (S (S (S (S (S (S (S (S (S (S (S (S (S (S
      (S (S (S (S (S (S (S (S (S (S (S (S (S (S (S (S (S (S (S (S (S (S (S (S
      (S (S (S (S (S (S (S (S (S (S (S (S (S (S (S (S (S (S (S (S (S (S (S (S
      (S (S (S (S (S (S (S (S (S (S (S (S (S (S (S (S (S (S (S (S (S (S (S (S
      (S (S (S (S (S (S (S (S (S (S (S (S (S (S (S (S (S (S (S (S (S (S (S (S
      (S (S (S (S (S (S (S (S (S (S (S (S (S (S (S (S (S (S (S (S (S (S (S (S
      (S (S (S (S (S (S (S (S (S (S (S (S (S (S (S (S (S (S (S (S (S (S (S (S
      (S (S (S (S (S (S (S (S (S (S (S (S (S (S (S (S (S (S (S (S (S (S (S (S
      (S (S (S (S (S (S (S (S (S (S (S (S (S (S (S (S (S (S (S
      O)))))))))))))))))))))))))))))))))))))))))))))))))))))))))))))))))))))))))))))))))))))))))))))))))))))))))))))))))))))))))))))))))))))))))))))))))))))))))))))))))))))))))))))))))))))))))))))))))))))))))))))))))))))))))))))))))))))))))))))))))))))))))))))))))))))))))))))))))))))))))))))))))))))))))))))))))))))))))))))))))))))))))))))))))))))))))))))))))))))))))))))))))))))))))))))))))))))))))))))))))))))))))))))))))))))))))))))))))))))))))))))))))))))))))))))))))))))))))))))))))))))))))))))))))))))))))))))))))))))))))))))))))))))))))))))))))))))))))))))))))))))))))))))))))))))))))))))))))))))))))))))))))))))))))))))))))))))))))))))))))))))))))))))))))))))))))))))))))))))))))))))))))))))))))))))))))))))))))))))))))))))))))))))))))))))))))))))))))))))))))))))))))))))))))))))))))))))))))))))))))))))))))))))))))))))))))))))))))))))))))))))))))))))))))))))))))))))))))))))))))))))))))))))))))))))))))))))))))))))))))))))))))))))))))))))))))))))))))))))))))))))))))))))))))))))))))))))))))))))))))

(** val rEPL : bytes **)

let rEPL =
  (Npos (XI (XI (XI (XI (XO (XI (XI XH)))))))) :: ((Npos (XI (XI (XI (XI (XI
    (XI (XO XH)))))))) :: ((Npos (XI (XO (XI (XI (XI (XI (XO
    XH)))))))) :: []))

(** val lossy : bytes -> bytes **)

let rec lossy = function
| [] -> []
| b0 :: r ->
  if N.leb b0 (Npos (XI (XI (XI (XI (XI (XI XH)))))))
  then b0 :: (lossy r)
  else if inr (Npos (XO (XI (XO (XO (XO (XO (XI XH)))))))) (Npos (XI (XI (XI
            (XI (XI (XO (XI XH)))))))) b0
       then (match r with
             | [] -> rEPL
             | b1 :: r1 ->
               if cont b1
               then b0 :: (b1 :: (lossy r1))
               else app rEPL (lossy r))
       else if inr (Npos (XO (XO (XO (XO (XO (XI (XI XH)))))))) (Npos (XI (XI
                 (XI (XI (XO (XI (XI XH)))))))) b0
            then (match r with
                  | [] -> rEPL
                  | b1 :: r1 ->
                    if if N.eqb b0 (Npos (XO (XO (XO (XO (XO (XI (XI
                            XH))))))))
                       then inr (Npos (XO (XO (XO (XO (XO (XI (XO XH))))))))
                              (Npos (XI (XI (XI (XI (XI (XI (XO XH)))))))) b1
                       else if N.eqb b0 (Npos (XI (XO (XI (XI (XO (XI (XI
                                 XH))))))))
                            then inr (Npos (XO (XO (XO (XO (XO (XO (XO
                                   XH)))))))) (Npos (XI (XI (XI (XI (XI (XO
                                   (XO XH)))))))) b1
                            else cont b1
                    then (match r1 with
                          | [] -> rEPL
                          | b2 :: r2 ->
                            if cont b2
                            then b0 :: (b1 :: (b2 :: (lossy r2)))
                            else app rEPL (lossy r1))
                    else app rEPL (lossy r))
            else if inr (Npos (XO (XO (XO (XO (XI (XI (XI XH)))))))) (Npos
                      (XO (XO (XI (XO (XI (XI (XI XH)))))))) b0
                 then (match r with
                       | [] -> rEPL
                       | b1 :: r1 ->
                         if if N.eqb b0 (Npos (XO (XO (XO (XO (XI (XI (XI
                                 XH))))))))
                            then inr (Npos (XO (XO (XO (XO (XI (XO (XO
                                   XH)))))))) (Npos (XI (XI (XI (XI (XI (XI
                                   (XO XH)))))))) b1
                            else if N.eqb b0 (Npos (XO (XO (XI (XO (XI (XI
                                      (XI XH))))))))
                                 then inr (Npos (XO (XO (XO (XO (XO (XO (XO
                                        XH)))))))) (Npos (XI (XI (XI (XI (XO
                                        (XO (XO XH)))))))) b1
                                 else cont b1
                         then (match r1 with
                               | [] -> rEPL
                               | b2 :: r2 ->
                                 if cont b2
                                 then (match r2 with
                                       | [] -> rEPL
                                       | b3 :: r3 ->
                                         if cont b3
                                         then b0 :: (b1 :: (b2 :: (b3 :: 
                                                (lossy r3))))
                                         else app rEPL (lossy r2))
                                 else app rEPL (lossy r1))
                         else app rEPL (lossy r))
                 else app rEPL (lossy r)

(** val node_label : kind option -> key -> bytes **)

let node_label k ky =
  match k with
  | Some k0 ->
    app (lB :: [])
      (app (if is_dyn k0 then [] else sTAR :: [])
        (app (fst ky)
          (app (match snd ky with
                | Some c -> cOLON :: c
                | None -> []) (rB :: []))))
  | None -> lossy (fst ky)

(** val bR_LAST : bytes **)

let bR_LAST =
  (Npos (XO (XI (XO (XO (XO (XI (XI XH)))))))) :: ((Npos (XI (XO (XI (XO (XI
    (XO (XO XH)))))))) :: ((Npos (XO (XO (XO (XO (XI (XI (XO
    XH)))))))) :: ((Npos (XO (XI (XO (XO (XO (XI (XI XH)))))))) :: ((Npos (XO
    (XO (XI (XO (XI (XO (XO XH)))))))) :: ((Npos (XO (XO (XO (XO (XO (XO (XO
    XH)))))))) :: [])))))

(** val bR_MID : bytes **)

let bR_MID =
  (Npos (XO (XI (XO (XO (XO (XI (XI XH)))))))) :: ((Npos (XO (XO (XI (XO (XI
    (XO (XO XH)))))))) :: ((Npos (XO (XO (XI (XI (XI (XO (XO
    XH)))))))) :: ((Npos (XO (XI (XO (XO (XO (XI (XI XH)))))))) :: ((Npos (XO
    (XO (XI (XO (XI (XO (XO XH)))))))) :: ((Npos (XO (XO (XO (XO (XO (XO (XO
    XH)))))))) :: [])))))

(** val pAD_LAST : bytes **)

let pAD_LAST =
  (Npos (XO (XO (XO (XO (XO XH)))))) :: ((Npos (XO (XO (XO (XO (XO
    XH)))))) :: ((Npos (XO (XO (XO (XO (XO XH)))))) :: []))

(** val pAD_MID : bytes **)

let pAD_MID =
  (Npos (XO (XI (XO (XO (XO (XI (XI XH)))))))) :: ((Npos (XO (XO (XI (XO (XI
    (XO (XO XH)))))))) :: ((Npos (XO (XI (XO (XO (XO (XO (XO
    XH)))))))) :: ((Npos (XO (XO (XO (XO (XO XH)))))) :: ((Npos (XO (XO (XO
    (XO (XO XH)))))) :: []))))

(** val mARK : bytes **)

let mARK =
  (Npos (XO (XO (XO (XO (XO XH)))))) :: ((Npos (XI (XI (XO (XI (XI (XO
    XH))))))) :: ((Npos (XO (XI (XO (XI (XO XH)))))) :: ((Npos (XI (XO (XI
    (XI (XI (XO XH))))))) :: [])))

(** val nL : bytes **)

let nL =
  (Npos (XO (XI (XO XH)))) :: []

(** val debug_node : node -> bytes -> bytes -> bool -> bool -> bytes **)

let rec debug_node n0 label padding is_root is_last =
  let marked = match n0.n_data with
               | Some _ -> mARK
               | None -> [] in
  let line =
    match label with
    | [] -> []
    | _ :: _ ->
      if is_root
      then app label (app marked nL)
      else app padding
             (app (if is_last then bR_LAST else bR_MID)
               (app ((Npos (XO (XO (XO (XO (XO XH)))))) :: [])
                 (app label (app marked nL))))
  in
  let padding' =
    if (&&) (negb is_root)
         (negb (match label with
                | [] -> true
                | _ :: _ -> false))
    then app padding (if is_last then pAD_LAST else pAD_MID)
    else padding
  in
  let root' = match label with
              | [] -> true
              | _ :: _ -> false in
  let go =
    let rec go k count = function
    | [] -> []
    | kc :: l' ->
      app
        (debug_node (snd kc) (node_label k (fst kc)) padding' root'
          (eqb count (S O))) (go k (pred count) l')
    in go
  in
  let c0 =
    add
      (add
        (add
          (add (add (add (length n0.n_st) (length n0.n_dc)) (length n0.n_dy))
            (length n0.n_wc)) (length n0.n_wi)) (length n0.n_ec))
      (length n0.n_en)
  in
  let c1 = sub c0 (length n0.n_st) in
  let c2 = sub c1 (length n0.n_dc) in
  let c3 = sub c2 (length n0.n_dy) in
  let c4 = sub c3 (length n0.n_wc) in
  let c5 = sub c4 (length n0.n_wi) in
  let c6 = sub c5 (length n0.n_ec) in
  app line
    (app (go None c0 n0.n_st)
      (app (go (Some KDC) c1 n0.n_dc)
        (app (go (Some KDY) c2 n0.n_dy)
          (app (go (Some KWC) c3 n0.n_wc)
            (app (go (Some KWI) c4 n0.n_wi)
              (app (go (Some KEC) c5 n0.n_ec) (go (Some KEN) c6 n0.n_en)))))))

(** val is_ws : byte -> bool **)

let is_ws b0 =
  (||) (inr (Npos (XI (XO (XO XH)))) (Npos (XI (XO (XI XH)))) b0)
    (N.eqb b0 (Npos (XO (XO (XO (XO (XO XH)))))))

(** val trim_end : bytes -> bytes **)

let rec trim_end = function
| [] -> []
| b0 :: s' ->
  (match trim_end s' with
   | [] -> if is_ws b0 then [] else b0 :: []
   | b1 :: l -> b0 :: (b1 :: l))

(** val display : node -> bytes **)

let display n0 =
  trim_end (debug_node n0 [] [] true true)

type chunk =
| CLit of bytes
| CField of bytes

type arrow =
| ANone
| ASpacesFixed of bytes * nat
| ASpacesCarets of bytes * bytes
| ADupRanges
| AConflictList of nat
| ADelegate
| AUntranslatable

(** val fmt_TemplateError_Empty : chunk list **)

let fmt_TemplateError_Empty =
  (CLit ((Npos (XI (XO (XI (XO (XO (XI XH))))))) :: ((Npos (XI (XO (XI (XI
    (XO (XI XH))))))) :: ((Npos (XO (XO (XO (XO (XI (XI XH))))))) :: ((Npos
    (XO (XO (XI (XO (XI (XI XH))))))) :: ((Npos (XI (XO (XO (XI (XI (XI
    XH))))))) :: ((Npos (XO (XO (XO (XO (XO XH)))))) :: ((Npos (XO (XO (XI
    (XO (XI (XI XH))))))) :: ((Npos (XI (XO (XI (XO (XO (XI
    XH))))))) :: ((Npos (XI (XO (XI (XI (XO (XI XH))))))) :: ((Npos (XO (XO
    (XO (XO (XI (XI XH))))))) :: ((Npos (XO (XO (XI (XI (XO (XI
    XH))))))) :: ((Npos (XI (XO (XO (XO (XO (XI XH))))))) :: ((Npos (XO (XO
    (XI (XO (XI (XI XH))))))) :: ((Npos (XI (XO (XI (XO (XO (XI
    XH))))))) :: []))))))))))))))) :: []

(** val arrow_TemplateError_Empty : arrow **)

let arrow_TemplateError_Empty =
  ANone

(** val fmt_TemplateError_MissingLeadingSlash : chunk list **)

let fmt_TemplateError_MissingLeadingSlash =
  (CLit ((Npos (XI (XO (XI (XI (XO (XI XH))))))) :: ((Npos (XI (XO (XO (XI
    (XO (XI XH))))))) :: ((Npos (XI (XI (XO (XO (XI (XI XH))))))) :: ((Npos
    (XI (XI (XO (XO (XI (XI XH))))))) :: ((Npos (XI (XO (XO (XI (XO (XI
    XH))))))) :: ((Npos (XO (XI (XI (XI (XO (XI XH))))))) :: ((Npos (XI (XI
    (XI (XO (XO (XI XH))))))) :: ((Npos (XO (XO (XO (XO (XO
    XH)))))) :: ((Npos (XO (XO (XI (XI (XO (XI XH))))))) :: ((Npos (XI (XO
    (XI (XO (XO (XI XH))))))) :: ((Npos (XI (XO (XO (XO (XO (XI
    XH))))))) :: ((Npos (XO (XO (XI (XO (XO (XI XH))))))) :: ((Npos (XI (XO
    (XO (XI (XO (XI XH))))))) :: ((Npos (XO (XI (XI (XI (XO (XI
    XH))))))) :: ((Npos (XI (XI (XI (XO (XO (XI XH))))))) :: ((Npos (XO (XO
    (XO (XO (XO XH)))))) :: ((Npos (XI (XI (XO (XO (XI (XI
    XH))))))) :: ((Npos (XO (XO (XI (XI (XO (XI XH))))))) :: ((Npos (XI (XO
    (XO (XO (XO (XI XH))))))) :: ((Npos (XI (XI (XO (XO (XI (XI
    XH))))))) :: ((Npos (XO (XO (XO (XI (XO (XI XH))))))) :: ((Npos (XO (XI
    (XO XH)))) :: ((Npos (XO (XI (XO XH)))) :: ((Npos (XO (XO (XO (XO (XO
    XH)))))) :: ((Npos (XO (XO (XO (XO (XO XH)))))) :: ((Npos (XO (XO (XO (XO
    (XO XH)))))) :: ((Npos (XO (XO (XO (XO (XO XH)))))) :: ((Npos (XO (XO (XI
    (XO (XI (XO XH))))))) :: ((Npos (XI (XO (XI (XO (XO (XI
    XH))))))) :: ((Npos (XI (XO (XI (XI (XO (XI XH))))))) :: ((Npos (XO (XO
    (XO (XO (XI (XI XH))))))) :: ((Npos (XO (XO (XI (XI (XO (XI
    XH))))))) :: ((Npos (XI (XO (XO (XO (XO (XI XH))))))) :: ((Npos (XO (XO
    (XI (XO (XI (XI XH))))))) :: ((Npos (XI (XO (XI (XO (XO (XI
    XH))))))) :: ((Npos (XO (XI (XO (XI (XI XH)))))) :: ((Npos (XO (XO (XO
    (XO (XO XH)))))) :: [])))))))))))))))))))))))))))))))))))))) :: ((CField
    ((Npos (XO (XO (XI (XO (XI (XI XH))))))) :: ((Npos (XI (XO (XI (XO (XO
    (XI XH))))))) :: ((Npos (XI (XO (XI (XI (XO (XI XH))))))) :: ((Npos (XO
    (XO (XO (XO (XI (XI XH))))))) :: ((Npos (XO (XO (XI (XI (XO (XI
    XH))))))) :: ((Npos (XI (XO (XO (XO (XO (XI XH))))))) :: ((Npos (XO (XO
    (XI (XO (XI (XI XH))))))) :: ((Npos (XI (XO (XI (XO (XO (XI
    XH))))))) :: []))))))))) :: ((CLit ((Npos (XO (XI (XO XH)))) :: ((Npos
    (XO (XI (XO XH)))) :: ((Npos (XO (XO (XO (XI (XO (XI XH))))))) :: ((Npos
    (XI (XO (XI (XO (XO (XI XH))))))) :: ((Npos (XO (XO (XI (XI (XO (XI
    XH))))))) :: ((Npos (XO (XO (XO (XO (XI (XI XH))))))) :: ((Npos (XO (XI
    (XO (XI (XI XH)))))) :: ((Npos (XO (XO (XO (XO (XO XH)))))) :: ((Npos (XO
    (XO (XI (XO (XI (XO XH))))))) :: ((Npos (XI (XO (XI (XO (XO (XI
    XH))))))) :: ((Npos (XI (XO (XI (XI (XO (XI XH))))))) :: ((Npos (XO (XO
    (XO (XO (XI (XI XH))))))) :: ((Npos (XO (XO (XI (XI (XO (XI
    XH))))))) :: ((Npos (XI (XO (XO (XO (XO (XI XH))))))) :: ((Npos (XO (XO
    (XI (XO (XI (XI XH))))))) :: ((Npos (XI (XO (XI (XO (XO (XI
    XH))))))) :: ((Npos (XI (XI (XO (XO (XI (XI XH))))))) :: ((Npos (XO (XO
    (XO (XO (XO XH)))))) :: ((Npos (XI (XO (XI (XI (XO (XI
    XH))))))) :: ((Npos (XI (XO (XI (XO (XI (XI XH))))))) :: ((Npos (XI (XI
    (XO (XO (XI (XI XH))))))) :: ((Npos (XO (XO (XI (XO (XI (XI
    XH))))))) :: ((Npos (XO (XO (XO (XO (XO XH)))))) :: ((Npos (XO (XI (XO
    (XO (XO (XI XH))))))) :: ((Npos (XI (XO (XI (XO (XO (XI
    XH))))))) :: ((Npos (XI (XI (XI (XO (XO (XI XH))))))) :: ((Npos (XI (XO
    (XO (XI (XO (XI XH))))))) :: ((Npos (XO (XI (XI (XI (XO (XI
    XH))))))) :: ((Npos (XO (XO (XO (XO (XO XH)))))) :: ((Npos (XI (XI (XI
    (XO (XI (XI XH))))))) :: ((Npos (XI (XO (XO (XI (XO (XI
    XH))))))) :: ((Npos (XO (XO (XI (XO (XI (XI XH))))))) :: ((Npos (XO (XO
    (XO (XI (XO (XI XH))))))) :: ((Npos (XO (XO (XO (XO (XO
    XH)))))) :: ((Npos (XI (XI (XI (XO (XO XH)))))) :: ((Npos (XI (XI (XI (XI
    (XO XH)))))) :: ((Npos (XI (XI (XI (XO (XO
    XH)))))) :: [])))))))))))))))))))))))))))))))))))))) :: []))

(** val arrow_TemplateError_MissingLeadingSlash : arrow **)

let arrow_TemplateError_MissingLeadingSlash =
  ANone

(** val fmt_TemplateError_EmptyBraces : chunk list **)

let fmt_TemplateError_EmptyBraces =
  (CLit ((Npos (XI (XO (XI (XO (XO (XI XH))))))) :: ((Npos (XI (XO (XI (XI
    (XO (XI XH))))))) :: ((Npos (XO (XO (XO (XO (XI (XI XH))))))) :: ((Npos
    (XO (XO (XI (XO (XI (XI XH))))))) :: ((Npos (XI (XO (XO (XI (XI (XI
    XH))))))) :: ((Npos (XO (XO (XO (XO (XO XH)))))) :: ((Npos (XO (XI (XO
    (XO (XO (XI XH))))))) :: ((Npos (XO (XI (XO (XO (XI (XI
    XH))))))) :: ((Npos (XI (XO (XO (XO (XO (XI XH))))))) :: ((Npos (XI (XI
    (XO (XO (XO (XI XH))))))) :: ((Npos (XI (XO (XI (XO (XO (XI
    XH))))))) :: ((Npos (XI (XI (XO (XO (XI (XI XH))))))) :: ((Npos (XO (XI
    (XO XH)))) :: ((Npos (XO (XI (XO XH)))) :: ((Npos (XO (XO (XO (XO (XO
    XH)))))) :: ((Npos (XO (XO (XO (XO (XO XH)))))) :: ((Npos (XO (XO (XO (XO
    (XO XH)))))) :: ((Npos (XO (XO (XO (XO (XO XH)))))) :: ((Npos (XO (XO (XI
    (XO (XI (XO XH))))))) :: ((Npos (XI (XO (XI (XO (XO (XI
    XH))))))) :: ((Npos (XI (XO (XI (XI (XO (XI XH))))))) :: ((Npos (XO (XO
    (XO (XO (XI (XI XH))))))) :: ((Npos (XO (XO (XI (XI (XO (XI
    XH))))))) :: ((Npos (XI (XO (XO (XO (XO (XI XH))))))) :: ((Npos (XO (XO
    (XI (XO (XI (XI XH))))))) :: ((Npos (XI (XO (XI (XO (XO (XI
    XH))))))) :: ((Npos (XO (XI (XO (XI (XI XH)))))) :: ((Npos (XO (XO (XO
    (XO (XO XH)))))) :: []))))))))))))))))))))))))))))) :: ((CField ((Npos
    (XO (XO (XI (XO (XI (XI XH))))))) :: ((Npos (XI (XO (XI (XO (XO (XI
    XH))))))) :: ((Npos (XI (XO (XI (XI (XO (XI XH))))))) :: ((Npos (XO (XO
    (XO (XO (XI (XI XH))))))) :: ((Npos (XO (XO (XI (XI (XO (XI
    XH))))))) :: ((Npos (XI (XO (XO (XO (XO (XI XH))))))) :: ((Npos (XO (XO
    (XI (XO (XI (XI XH))))))) :: ((Npos (XI (XO (XI (XO (XO (XI
    XH))))))) :: []))))))))) :: ((CLit ((Npos (XO (XI (XO XH)))) :: ((Npos
    (XO (XO (XO (XO (XO XH)))))) :: ((Npos (XO (XO (XO (XO (XO
    XH)))))) :: ((Npos (XO (XO (XO (XO (XO XH)))))) :: ((Npos (XO (XO (XO (XO
    (XO XH)))))) :: ((Npos (XO (XO (XO (XO (XO XH)))))) :: ((Npos (XO (XO (XO
    (XO (XO XH)))))) :: ((Npos (XO (XO (XO (XO (XO XH)))))) :: ((Npos (XO (XO
    (XO (XO (XO XH)))))) :: ((Npos (XO (XO (XO (XO (XO XH)))))) :: ((Npos (XO
    (XO (XO (XO (XO XH)))))) :: ((Npos (XO (XO (XO (XO (XO XH)))))) :: ((Npos
    (XO (XO (XO (XO (XO XH)))))) :: ((Npos (XO (XO (XO (XO (XO
    XH)))))) :: ((Npos (XO (XO (XO (XO (XO
    XH)))))) :: [])))))))))))))))) :: ((CField ((Npos (XI (XO (XO (XO (XO (XI
    XH))))))) :: ((Npos (XO (XI (XO (XO (XI (XI XH))))))) :: ((Npos (XO (XI
    (XO (XO (XI (XI XH))))))) :: ((Npos (XI (XI (XI (XI (XO (XI
    XH))))))) :: ((Npos (XI (XI (XI (XO (XI (XI XH))))))) :: [])))))) :: [])))

(** val arrow_TemplateError_EmptyBraces : arrow **)

let arrow_TemplateError_EmptyBraces =
  ASpacesFixed (((Npos (XO (XO (XO (XO (XI (XI XH))))))) :: ((Npos (XI (XI
    (XI (XI (XO (XI XH))))))) :: ((Npos (XI (XI (XO (XO (XI (XI
    XH))))))) :: ((Npos (XI (XO (XO (XI (XO (XI XH))))))) :: ((Npos (XO (XO
    (XI (XO (XI (XI XH))))))) :: ((Npos (XI (XO (XO (XI (XO (XI
    XH))))))) :: ((Npos (XI (XI (XI (XI (XO (XI XH))))))) :: ((Npos (XO (XI
    (XI (XI (XO (XI XH))))))) :: [])))))))), (S (S O)))

(** val fmt_TemplateError_UnbalancedBrace : chunk list **)

let fmt_TemplateError_UnbalancedBrace =
  (CLit ((Npos (XI (XO (XI (XO (XI (XI XH))))))) :: ((Npos (XO (XI (XI (XI
    (XO (XI XH))))))) :: ((Npos (XO (XI (XO (XO (XO (XI XH))))))) :: ((Npos
    (XI (XO (XO (XO (XO (XI XH))))))) :: ((Npos (XO (XO (XI (XI (XO (XI
    XH))))))) :: ((Npos (XI (XO (XO (XO (XO (XI XH))))))) :: ((Npos (XO (XI
    (XI (XI (XO (XI XH))))))) :: ((Npos (XI (XI (XO (XO (XO (XI
    XH))))))) :: ((Npos (XI (XO (XI (XO (XO (XI XH))))))) :: ((Npos (XO (XO
    (XI (XO (XO (XI XH))))))) :: ((Npos (XO (XO (XO (XO (XO
    XH)))))) :: ((Npos (XO (XI (XO (XO (XO (XI XH))))))) :: ((Npos (XO (XI
    (XO (XO (XI (XI XH))))))) :: ((Npos (XI (XO (XO (XO (XO (XI
    XH))))))) :: ((Npos (XI (XI (XO (XO (XO (XI XH))))))) :: ((Npos (XI (XO
    (XI (XO (XO (XI XH))))))) :: ((Npos (XO (XI (XO XH)))) :: ((Npos (XO (XI
    (XO XH)))) :: ((Npos (XO (XO (XO (XO (XO XH)))))) :: ((Npos (XO (XO (XO
    (XO (XO XH)))))) :: ((Npos (XO (XO (XO (XO (XO XH)))))) :: ((Npos (XO (XO
    (XO (XO (XO XH)))))) :: ((Npos (XO (XO (XI (XO (XI (XO
    XH))))))) :: ((Npos (XI (XO (XI (XO (XO (XI XH))))))) :: ((Npos (XI (XO
    (XI (XI (XO (XI XH))))))) :: ((Npos (XO (XO (XO (XO (XI (XI
    XH))))))) :: ((Npos (XO (XO (XI (XI (XO (XI XH))))))) :: ((Npos (XI (XO
    (XO (XO (XO (XI XH))))))) :: ((Npos (XO (XO (XI (XO (XI (XI
    XH))))))) :: ((Npos (XI (XO (XI (XO (XO (XI XH))))))) :: ((Npos (XO (XI
    (XO (XI (XI XH)))))) :: ((Npos (XO (XO (XO (XO (XO
    XH)))))) :: []))))))))))))))))))))))))))))))))) :: ((CField ((Npos (XO
    (XO (XI (XO (XI (XI XH))))))) :: ((Npos (XI (XO (XI (XO (XO (XI
    XH))))))) :: ((Npos (XI (XO (XI (XI (XO (XI XH))))))) :: ((Npos (XO (XO
    (XO (XO (XI (XI XH))))))) :: ((Npos (XO (XO (XI (XI (XO (XI
    XH))))))) :: ((Npos (XI (XO (XO (XO (XO (XI XH))))))) :: ((Npos (XO (XO
    (XI (XO (XI (XI XH))))))) :: ((Npos (XI (XO (XI (XO (XO (XI
    XH))))))) :: []))))))))) :: ((CLit ((Npos (XO (XI (XO XH)))) :: ((Npos
    (XO (XO (XO (XO (XO XH)))))) :: ((Npos (XO (XO (XO (XO (XO
    XH)))))) :: ((Npos (XO (XO (XO (XO (XO XH)))))) :: ((Npos (XO (XO (XO (XO
    (XO XH)))))) :: ((Npos (XO (XO (XO (XO (XO XH)))))) :: ((Npos (XO (XO (XO
    (XO (XO XH)))))) :: ((Npos (XO (XO (XO (XO (XO XH)))))) :: ((Npos (XO (XO
    (XO (XO (XO XH)))))) :: ((Npos (XO (XO (XO (XO (XO XH)))))) :: ((Npos (XO
    (XO (XO (XO (XO XH)))))) :: ((Npos (XO (XO (XO (XO (XO XH)))))) :: ((Npos
    (XO (XO (XO (XO (XO XH)))))) :: ((Npos (XO (XO (XO (XO (XO
    XH)))))) :: ((Npos (XO (XO (XO (XO (XO
    XH)))))) :: [])))))))))))))))) :: ((CField ((Npos (XI (XO (XO (XO (XO (XI
    XH))))))) :: ((Npos (XO (XI (XO (XO (XI (XI XH))))))) :: ((Npos (XO (XI
    (XO (XO (XI (XI XH))))))) :: ((Npos (XI (XI (XI (XI (XO (XI
    XH))))))) :: ((Npos (XI (XI (XI (XO (XI (XI
    XH))))))) :: [])))))) :: ((CLit ((Npos (XO (XI (XO XH)))) :: ((Npos (XO
    (XI (XO XH)))) :: ((Npos (XO (XO (XO (XI (XO (XI XH))))))) :: ((Npos (XI
    (XO (XI (XO (XO (XI XH))))))) :: ((Npos (XO (XO (XI (XI (XO (XI
    XH))))))) :: ((Npos (XO (XO (XO (XO (XI (XI XH))))))) :: ((Npos (XO (XI
    (XO (XI (XI XH)))))) :: ((Npos (XO (XO (XO (XO (XO XH)))))) :: ((Npos (XI
    (XO (XI (XO (XO (XO XH))))))) :: ((Npos (XI (XO (XO (XO (XO (XI
    XH))))))) :: ((Npos (XI (XI (XO (XO (XO (XI XH))))))) :: ((Npos (XO (XO
    (XO (XI (XO (XI XH))))))) :: ((Npos (XO (XO (XO (XO (XO
    XH)))))) :: ((Npos (XI (XI (XI (XO (XO XH)))))) :: ((Npos (XI (XI (XO (XI
    (XI (XI XH))))))) :: ((Npos (XI (XI (XI (XO (XO XH)))))) :: ((Npos (XO
    (XO (XO (XO (XO XH)))))) :: ((Npos (XI (XO (XI (XI (XO (XI
    XH))))))) :: ((Npos (XI (XO (XI (XO (XI (XI XH))))))) :: ((Npos (XI (XI
    (XO (XO (XI (XI XH))))))) :: ((Npos (XO (XO (XI (XO (XI (XI
    XH))))))) :: ((Npos (XO (XO (XO (XO (XO XH)))))) :: ((Npos (XO (XO (XO
    (XI (XO (XI XH))))))) :: ((Npos (XI (XO (XO (XO (XO (XI
    XH))))))) :: ((Npos (XO (XI (XI (XO (XI (XI XH))))))) :: ((Npos (XI (XO
    (XI (XO (XO (XI XH))))))) :: ((Npos (XO (XO (XO (XO (XO
    XH)))))) :: ((Npos (XI (XO (XO (XO (XO (XI XH))))))) :: ((Npos (XO (XO
    (XO (XO (XO XH)))))) :: ((Npos (XI (XO (XI (XI (XO (XI
    XH))))))) :: ((Npos (XI (XO (XO (XO (XO (XI XH))))))) :: ((Npos (XO (XO
    (XI (XO (XI (XI XH))))))) :: ((Npos (XI (XI (XO (XO (XO (XI
    XH))))))) :: ((Npos (XO (XO (XO (XI (XO (XI XH))))))) :: ((Npos (XI (XO
    (XO (XI (XO (XI XH))))))) :: ((Npos (XO (XI (XI (XI (XO (XI
    XH))))))) :: ((Npos (XI (XI (XI (XO (XO (XI XH))))))) :: ((Npos (XO (XO
    (XO (XO (XO XH)))))) :: ((Npos (XI (XI (XI (XO (XO XH)))))) :: ((Npos (XI
    (XO (XI (XI (XI (XI XH))))))) :: ((Npos (XI (XI (XI (XO (XO
    XH)))))) :: ((Npos (XO (XI (XO XH)))) :: ((Npos (XO (XI (XO
    XH)))) :: ((Npos (XO (XO (XI (XO (XI (XI XH))))))) :: ((Npos (XO (XI (XO
    (XO (XI (XI XH))))))) :: ((Npos (XI (XO (XO (XI (XI (XI
    XH))))))) :: ((Npos (XO (XI (XO (XI (XI XH)))))) :: ((Npos (XO (XI (XO
    XH)))) :: ((Npos (XO (XO (XO (XO (XO XH)))))) :: ((Npos (XO (XO (XO (XO
    (XO XH)))))) :: ((Npos (XO (XO (XO (XO (XO XH)))))) :: ((Npos (XO (XO (XO
    (XO (XO XH)))))) :: ((Npos (XI (XO (XI (XI (XO XH)))))) :: ((Npos (XO (XO
    (XO (XO (XO XH)))))) :: ((Npos (XI (XO (XO (XO (XO (XO
    XH))))))) :: ((Npos (XO (XO (XI (XO (XO (XI XH))))))) :: ((Npos (XO (XO
    (XI (XO (XO (XI XH))))))) :: ((Npos (XO (XO (XO (XO (XO
    XH)))))) :: ((Npos (XO (XO (XI (XO (XI (XI XH))))))) :: ((Npos (XO (XO
    (XO (XI (XO (XI XH))))))) :: ((Npos (XI (XO (XI (XO (XO (XI
    XH))))))) :: ((Npos (XO (XO (XO (XO (XO XH)))))) :: ((Npos (XI (XO (XI
    (XI (XO (XI XH))))))) :: ((Npos (XI (XO (XO (XI (XO (XI
    XH))))))) :: ((Npos (XI (XI (XO (XO (XI (XI XH))))))) :: ((Npos (XI (XI
    (XO (XO (XI (XI XH))))))) :: ((Npos (XI (XO (XO (XI (XO (XI
    XH))))))) :: ((Npos (XO (XI (XI (XI (XO (XI XH))))))) :: ((Npos (XI (XI
    (XI (XO (XO (XI XH))))))) :: ((Npos (XO (XO (XO (XO (XO
    XH)))))) :: ((Npos (XI (XI (XO (XO (XO (XI XH))))))) :: ((Npos (XO (XO
    (XI (XI (XO (XI XH))))))) :: ((Npos (XI (XI (XI (XI (XO (XI
    XH))))))) :: ((Npos (XI (XI (XO (XO (XI (XI XH))))))) :: ((Npos (XI (XO
    (XO (XI (XO (XI XH))))))) :: ((Npos (XO (XI (XI (XI (XO (XI
    XH))))))) :: ((Npos (XI (XI (XI (XO (XO (XI XH))))))) :: ((Npos (XO (XO
    (XO (XO (XO XH)))))) :: ((Npos (XO (XI (XO (XO (XO (XI
    XH))))))) :: ((Npos (XO (XI (XO (XO (XI (XI XH))))))) :: ((Npos (XI (XO
    (XO (XO (XO (XI XH))))))) :: ((Npos (XI (XI (XO (XO (XO (XI
    XH))))))) :: ((Npos (XI (XO (XI (XO (XO (XI XH))))))) :: ((Npos (XO (XI
    (XO XH)))) :: ((Npos (XO (XO (XO (XO (XO XH)))))) :: ((Npos (XO (XO (XO
    (XO (XO XH)))))) :: ((Npos (XO (XO (XO (XO (XO XH)))))) :: ((Npos (XO (XO
    (XO (XO (XO XH)))))) :: ((Npos (XI (XO (XI (XI (XO XH)))))) :: ((Npos (XO
    (XO (XO (XO (XO XH)))))) :: ((Npos (XI (XO (XI (XO (XI (XO
    XH))))))) :: ((Npos (XI (XI (XO (XO (XI (XI XH))))))) :: ((Npos (XI (XO
    (XI (XO (XO (XI XH))))))) :: ((Npos (XO (XO (XO (XO (XO
    XH)))))) :: ((Npos (XI (XI (XI (XO (XO XH)))))) :: ((Npos (XO (XO (XI (XI
    (XI (XO XH))))))) :: ((Npos (XI (XI (XO (XI (XI (XI XH))))))) :: ((Npos
    (XI (XI (XI (XO (XO XH)))))) :: ((Npos (XO (XO (XO (XO (XO
    XH)))))) :: ((Npos (XI (XO (XO (XO (XO (XI XH))))))) :: ((Npos (XO (XI
    (XI (XI (XO (XI XH))))))) :: ((Npos (XO (XO (XI (XO (XO (XI
    XH))))))) :: ((Npos (XO (XO (XO (XO (XO XH)))))) :: ((Npos (XI (XI (XI
    (XO (XO XH)))))) :: ((Npos (XO (XO (XI (XI (XI (XO XH))))))) :: ((Npos
    (XI (XO (XI (XI (XI (XI XH))))))) :: ((Npos (XI (XI (XI (XO (XO
    XH)))))) :: ((Npos (XO (XO (XO (XO (XO XH)))))) :: ((Npos (XO (XO (XI (XO
    (XI (XI XH))))))) :: ((Npos (XI (XI (XI (XI (XO (XI XH))))))) :: ((Npos
    (XO (XO (XO (XO (XO XH)))))) :: ((Npos (XO (XI (XO (XO (XI (XI
    XH))))))) :: ((Npos (XI (XO (XI (XO (XO (XI XH))))))) :: ((Npos (XO (XO
    (XO (XO (XI (XI XH))))))) :: ((Npos (XO (XI (XO (XO (XI (XI
    XH))))))) :: ((Npos (XI (XO (XI (XO (XO (XI XH))))))) :: ((Npos (XI (XI
    (XO (XO (XI (XI XH))))))) :: ((Npos (XI (XO (XI (XO (XO (XI
    XH))))))) :: ((Npos (XO (XI (XI (XI (XO (XI XH))))))) :: ((Npos (XO (XO
    (XI (XO (XI (XI XH))))))) :: ((Npos (XO (XO (XO (XO (XO
    XH)))))) :: ((Npos (XO (XO (XI (XI (XO (XI XH))))))) :: ((Npos (XI (XO
    (XO (XI (XO (XI XH))))))) :: ((Npos (XO (XO (XI (XO (XI (XI
    XH))))))) :: ((Npos (XI (XO (XI (XO (XO (XI XH))))))) :: ((Npos (XO (XI
    (XO (XO (XI (XI XH))))))) :: ((Npos (XI (XO (XO (XO (XO (XI
    XH))))))) :: ((Npos (XO (XO (XI (XI (XO (XI XH))))))) :: ((Npos (XO (XO
    (XO (XO (XO XH)))))) :: ((Npos (XO (XI (XO (XO (XO (XI
    XH))))))) :: ((Npos (XO (XI (XO (XO (XI (XI XH))))))) :: ((Npos (XI (XO
    (XO (XO (XO (XI XH))))))) :: ((Npos (XI (XI (XO (XO (XO (XI
    XH))))))) :: ((Npos (XI (XO (XI (XO (XO (XI XH))))))) :: ((Npos (XI (XI
    (XO (XO (XI (XI
    XH))))))) :: [])))))))))))))))))))))))))))))))))))))))))))))))))))))))))))))))))))))))))))))))))))))))))))))))))))))))))))))))))))))))))))))))))))))))) :: []))))

(** val arrow_TemplateError_UnbalancedBrace : arrow **)

let arrow_TemplateError_UnbalancedBrace =
  ASpacesFixed (((Npos (XO (XO (XO (XO (XI (XI XH))))))) :: ((Npos (XI (XI
    (XI (XI (XO (XI XH))))))) :: ((Npos (XI (XI (XO (XO (XI (XI
    XH))))))) :: ((Npos (XI (XO (XO (XI (XO (XI XH))))))) :: ((Npos (XO (XO
    (XI (XO (XI (XI XH))))))) :: ((Npos (XI (XO (XO (XI (XO (XI
    XH))))))) :: ((Npos (XI (XI (XI (XI (XO (XI XH))))))) :: ((Npos (XO (XI
    (XI (XI (XO (XI XH))))))) :: [])))))))), (S O))

(** val fmt_TemplateError_EmptyParentheses : chunk list **)

let fmt_TemplateError_EmptyParentheses =
  (CLit ((Npos (XI (XO (XI (XO (XO (XI XH))))))) :: ((Npos (XI (XO (XI (XI
    (XO (XI XH))))))) :: ((Npos (XO (XO (XO (XO (XI (XI XH))))))) :: ((Npos
    (XO (XO (XI (XO (XI (XI XH))))))) :: ((Npos (XI (XO (XO (XI (XI (XI
    XH))))))) :: ((Npos (XO (XO (XO (XO (XO XH)))))) :: ((Npos (XO (XO (XO
    (XO (XI (XI XH))))))) :: ((Npos (XI (XO (XO (XO (XO (XI
    XH))))))) :: ((Npos (XO (XI (XO (XO (XI (XI XH))))))) :: ((Npos (XI (XO
    (XI (XO (XO (XI XH))))))) :: ((Npos (XO (XI (XI (XI (XO (XI
    XH))))))) :: ((Npos (XO (XO (XI (XO (XI (XI XH))))))) :: ((Npos (XO (XO
    (XO (XI (XO (XI XH))))))) :: ((Npos (XI (XO (XI (XO (XO (XI
    XH))))))) :: ((Npos (XI (XI (XO (XO (XI (XI XH))))))) :: ((Npos (XI (XO
    (XI (XO (XO (XI XH))))))) :: ((Npos (XI (XI (XO (XO (XI (XI
    XH))))))) :: ((Npos (XO (XI (XO XH)))) :: ((Npos (XO (XI (XO
    XH)))) :: ((Npos (XO (XO (XO (XO (XO XH)))))) :: ((Npos (XO (XO (XO (XO
    (XO XH)))))) :: ((Npos (XO (XO (XO (XO (XO XH)))))) :: ((Npos (XO (XO (XO
    (XO (XO XH)))))) :: ((Npos (XO (XO (XI (XO (XI (XO XH))))))) :: ((Npos
    (XI (XO (XI (XO (XO (XI XH))))))) :: ((Npos (XI (XO (XI (XI (XO (XI
    XH))))))) :: ((Npos (XO (XO (XO (XO (XI (XI XH))))))) :: ((Npos (XO (XO
    (XI (XI (XO (XI XH))))))) :: ((Npos (XI (XO (XO (XO (XO (XI
    XH))))))) :: ((Npos (XO (XO (XI (XO (XI (XI XH))))))) :: ((Npos (XI (XO
    (XI (XO (XO (XI XH))))))) :: ((Npos (XO (XI (XO (XI (XI
    XH)))))) :: ((Npos (XO (XO (XO (XO (XO
    XH)))))) :: [])))))))))))))))))))))))))))))))))) :: ((CField ((Npos (XO
    (XO (XI (XO (XI (XI XH))))))) :: ((Npos (XI (XO (XI (XO (XO (XI
    XH))))))) :: ((Npos (XI (XO (XI (XI (XO (XI XH))))))) :: ((Npos (XO (XO
    (XO (XO (XI (XI XH))))))) :: ((Npos (XO (XO (XI (XI (XO (XI
    XH))))))) :: ((Npos (XI (XO (XO (XO (XO (XI XH))))))) :: ((Npos (XO (XO
    (XI (XO (XI (XI XH))))))) :: ((Npos (XI (XO (XI (XO (XO (XI
    XH))))))) :: []))))))))) :: ((CLit ((Npos (XO (XI (XO XH)))) :: ((Npos
    (XO (XO (XO (XO (XO XH)))))) :: ((Npos (XO (XO (XO (XO (XO
    XH)))))) :: ((Npos (XO (XO (XO (XO (XO XH)))))) :: ((Npos (XO (XO (XO (XO
    (XO XH)))))) :: ((Npos (XO (XO (XO (XO (XO XH)))))) :: ((Npos (XO (XO (XO
    (XO (XO XH)))))) :: ((Npos (XO (XO (XO (XO (XO XH)))))) :: ((Npos (XO (XO
    (XO (XO (XO XH)))))) :: ((Npos (XO (XO (XO (XO (XO XH)))))) :: ((Npos (XO
    (XO (XO (XO (XO XH)))))) :: ((Npos (XO (XO (XO (XO (XO XH)))))) :: ((Npos
    (XO (XO (XO (XO (XO XH)))))) :: ((Npos (XO (XO (XO (XO (XO
    XH)))))) :: ((Npos (XO (XO (XO (XO (XO
    XH)))))) :: [])))))))))))))))) :: ((CField ((Npos (XI (XO (XO (XO (XO (XI
    XH))))))) :: ((Npos (XO (XI (XO (XO (XI (XI XH))))))) :: ((Npos (XO (XI
    (XO (XO (XI (XI XH))))))) :: ((Npos (XI (XI (XI (XI (XO (XI
    XH))))))) :: ((Npos (XI (XI (XI (XO (XI (XI XH))))))) :: [])))))) :: [])))

(** val arrow_TemplateError_EmptyParentheses : arrow **)

let arrow_TemplateError_EmptyParentheses =
  ASpacesFixed (((Npos (XO (XO (XO (XO (XI (XI XH))))))) :: ((Npos (XI (XI
    (XI (XI (XO (XI XH))))))) :: ((Npos (XI (XI (XO (XO (XI (XI
    XH))))))) :: ((Npos (XI (XO (XO (XI (XO (XI XH))))))) :: ((Npos (XO (XO
    (XI (XO (XI (XI XH))))))) :: ((Npos (XI (XO (XO (XI (XO (XI
    XH))))))) :: ((Npos (XI (XI (XI (XI (XO (XI XH))))))) :: ((Npos (XO (XI
    (XI (XI (XO (XI XH))))))) :: [])))))))), (S (S O)))

(** val fmt_TemplateError_UnbalancedParenthesis : chunk list **)

let fmt_TemplateError_UnbalancedParenthesis =
  (CLit ((Npos (XI (XO (XI (XO (XI (XI XH))))))) :: ((Npos (XO (XI (XI (XI
    (XO (XI XH))))))) :: ((Npos (XO (XI (XO (XO (XO (XI XH))))))) :: ((Npos
    (XI (XO (XO (XO (XO (XI XH))))))) :: ((Npos (XO (XO (XI (XI (XO (XI
    XH))))))) :: ((Npos (XI (XO (XO (XO (XO (XI XH))))))) :: ((Npos (XO (XI
    (XI (XI (XO (XI XH))))))) :: ((Npos (XI (XI (XO (XO (XO (XI
    XH))))))) :: ((Npos (XI (XO (XI (XO (XO (XI XH))))))) :: ((Npos (XO (XO
    (XI (XO (XO (XI XH))))))) :: ((Npos (XO (XO (XO (XO (XO
    XH)))))) :: ((Npos (XO (XO (XO (XO (XI (XI XH))))))) :: ((Npos (XI (XO
    (XO (XO (XO (XI XH))))))) :: ((Npos (XO (XI (XO (XO (XI (XI
    XH))))))) :: ((Npos (XI (XO (XI (XO (XO (XI XH))))))) :: ((Npos (XO (XI
    (XI (XI (XO (XI XH))))))) :: ((Npos (XO (XO (XI (XO (XI (XI
    XH))))))) :: ((Npos (XO (XO (XO (XI (XO (XI XH))))))) :: ((Npos (XI (XO
    (XI (XO (XO (XI XH))))))) :: ((Npos (XI (XI (XO (XO (XI (XI
    XH))))))) :: ((Npos (XI (XO (XO (XI (XO (XI XH))))))) :: ((Npos (XI (XI
    (XO (XO (XI (XI XH))))))) :: ((Npos (XO (XI (XO XH)))) :: ((Npos (XO (XI
    (XO XH)))) :: ((Npos (XO (XO (XO (XO (XO XH)))))) :: ((Npos (XO (XO (XO
    (XO (XO XH)))))) :: ((Npos (XO (XO (XO (XO (XO XH)))))) :: ((Npos (XO (XO
    (XO (XO (XO XH)))))) :: ((Npos (XO (XO (XI (XO (XI (XO
    XH))))))) :: ((Npos (XI (XO (XI (XO (XO (XI XH))))))) :: ((Npos (XI (XO
    (XI (XI (XO (XI XH))))))) :: ((Npos (XO (XO (XO (XO (XI (XI
    XH))))))) :: ((Npos (XO (XO (XI (XI (XO (XI XH))))))) :: ((Npos (XI (XO
    (XO (XO (XO (XI XH))))))) :: ((Npos (XO (XO (XI (XO (XI (XI
    XH))))))) :: ((Npos (XI (XO (XI (XO (XO (XI XH))))))) :: ((Npos (XO (XI
    (XO (XI (XI XH)))))) :: ((Npos (XO (XO (XO (XO (XO
    XH)))))) :: []))))))))))))))))))))))))))))))))))))))) :: ((CField ((Npos
    (XO (XO (XI (XO (XI (XI XH))))))) :: ((Npos (XI (XO (XI (XO (XO (XI
    XH))))))) :: ((Npos (XI (XO (XI (XI (XO (XI XH))))))) :: ((Npos (XO (XO
    (XO (XO (XI (XI XH))))))) :: ((Npos (XO (XO (XI (XI (XO (XI
    XH))))))) :: ((Npos (XI (XO (XO (XO (XO (XI XH))))))) :: ((Npos (XO (XO
    (XI (XO (XI (XI XH))))))) :: ((Npos (XI (XO (XI (XO (XO (XI
    XH))))))) :: []))))))))) :: ((CLit ((Npos (XO (XI (XO XH)))) :: ((Npos
    (XO (XO (XO (XO (XO XH)))))) :: ((Npos (XO (XO (XO (XO (XO
    XH)))))) :: ((Npos (XO (XO (XO (XO (XO XH)))))) :: ((Npos (XO (XO (XO (XO
    (XO XH)))))) :: ((Npos (XO (XO (XO (XO (XO XH)))))) :: ((Npos (XO (XO (XO
    (XO (XO XH)))))) :: ((Npos (XO (XO (XO (XO (XO XH)))))) :: ((Npos (XO (XO
    (XO (XO (XO XH)))))) :: ((Npos (XO (XO (XO (XO (XO XH)))))) :: ((Npos (XO
    (XO (XO (XO (XO XH)))))) :: ((Npos (XO (XO (XO (XO (XO XH)))))) :: ((Npos
    (XO (XO (XO (XO (XO XH)))))) :: ((Npos (XO (XO (XO (XO (XO
    XH)))))) :: ((Npos (XO (XO (XO (XO (XO
    XH)))))) :: [])))))))))))))))) :: ((CField ((Npos (XI (XO (XO (XO (XO (XI
    XH))))))) :: ((Npos (XO (XI (XO (XO (XI (XI XH))))))) :: ((Npos (XO (XI
    (XO (XO (XI (XI XH))))))) :: ((Npos (XI (XI (XI (XI (XO (XI
    XH))))))) :: ((Npos (XI (XI (XI (XO (XI (XI
    XH))))))) :: [])))))) :: ((CLit ((Npos (XO (XI (XO XH)))) :: ((Npos (XO
    (XI (XO XH)))) :: ((Npos (XO (XO (XO (XI (XO (XI XH))))))) :: ((Npos (XI
    (XO (XI (XO (XO (XI XH))))))) :: ((Npos (XO (XO (XI (XI (XO (XI
    XH))))))) :: ((Npos (XO (XO (XO (XO (XI (XI XH))))))) :: ((Npos (XO (XI
    (XO (XI (XI XH)))))) :: ((Npos (XO (XO (XO (XO (XO XH)))))) :: ((Npos (XI
    (XO (XI (XO (XO (XO XH))))))) :: ((Npos (XI (XO (XO (XO (XO (XI
    XH))))))) :: ((Npos (XI (XI (XO (XO (XO (XI XH))))))) :: ((Npos (XO (XO
    (XO (XI (XO (XI XH))))))) :: ((Npos (XO (XO (XO (XO (XO
    XH)))))) :: ((Npos (XI (XI (XI (XO (XO XH)))))) :: ((Npos (XO (XO (XO (XI
    (XO XH)))))) :: ((Npos (XI (XI (XI (XO (XO XH)))))) :: ((Npos (XO (XO (XO
    (XO (XO XH)))))) :: ((Npos (XI (XO (XI (XI (XO (XI XH))))))) :: ((Npos
    (XI (XO (XI (XO (XI (XI XH))))))) :: ((Npos (XI (XI (XO (XO (XI (XI
    XH))))))) :: ((Npos (XO (XO (XI (XO (XI (XI XH))))))) :: ((Npos (XO (XO
    (XO (XO (XO XH)))))) :: ((Npos (XO (XO (XO (XI (XO (XI
    XH))))))) :: ((Npos (XI (XO (XO (XO (XO (XI XH))))))) :: ((Npos (XO (XI
    (XI (XO (XI (XI XH))))))) :: ((Npos (XI (XO (XI (XO (XO (XI
    XH))))))) :: ((Npos (XO (XO (XO (XO (XO XH)))))) :: ((Npos (XI (XO (XO
    (XO (XO (XI XH))))))) :: ((Npos (XO (XO (XO (XO (XO XH)))))) :: ((Npos
    (XI (XO (XI (XI (XO (XI XH))))))) :: ((Npos (XI (XO (XO (XO (XO (XI
    XH))))))) :: ((Npos (XO (XO (XI (XO (XI (XI XH))))))) :: ((Npos (XI (XI
    (XO (XO (XO (XI XH))))))) :: ((Npos (XO (XO (XO (XI (XO (XI
    XH))))))) :: ((Npos (XI (XO (XO (XI (XO (XI XH))))))) :: ((Npos (XO (XI
    (XI (XI (XO (XI XH))))))) :: ((Npos (XI (XI (XI (XO (XO (XI
    XH))))))) :: ((Npos (XO (XO (XO (XO (XO XH)))))) :: ((Npos (XI (XI (XI
    (XO (XO XH)))))) :: ((Npos (XI (XO (XO (XI (XO XH)))))) :: ((Npos (XI (XI
    (XI (XO (XO XH)))))) :: ((Npos (XO (XI (XO XH)))) :: ((Npos (XO (XI (XO
    XH)))) :: ((Npos (XO (XO (XI (XO (XI (XI XH))))))) :: ((Npos (XO (XI (XO
    (XO (XI (XI XH))))))) :: ((Npos (XI (XO (XO (XI (XI (XI
    XH))))))) :: ((Npos (XO (XI (XO (XI (XI XH)))))) :: ((Npos (XO (XI (XO
    XH)))) :: ((Npos (XO (XO (XO (XO (XO XH)))))) :: ((Npos (XO (XO (XO (XO
    (XO XH)))))) :: ((Npos (XO (XO (XO (XO (XO XH)))))) :: ((Npos (XO (XO (XO
    (XO (XO XH)))))) :: ((Npos (XI (XO (XI (XI (XO XH)))))) :: ((Npos (XO (XO
    (XO (XO (XO XH)))))) :: ((Npos (XI (XO (XO (XO (XO (XO
    XH))))))) :: ((Npos (XO (XO (XI (XO (XO (XI XH))))))) :: ((Npos (XO (XO
    (XI (XO (XO (XI XH))))))) :: ((Npos (XO (XO (XO (XO (XO
    XH)))))) :: ((Npos (XO (XO (XI (XO (XI (XI XH))))))) :: ((Npos (XO (XO
    (XO (XI (XO (XI XH))))))) :: ((Npos (XI (XO (XI (XO (XO (XI
    XH))))))) :: ((Npos (XO (XO (XO (XO (XO XH)))))) :: ((Npos (XI (XO (XI
    (XI (XO (XI XH))))))) :: ((Npos (XI (XO (XO (XI (XO (XI
    XH))))))) :: ((Npos (XI (XI (XO (XO (XI (XI XH))))))) :: ((Npos (XI (XI
    (XO (XO (XI (XI XH))))))) :: ((Npos (XI (XO (XO (XI (XO (XI
    XH))))))) :: ((Npos (XO (XI (XI (XI (XO (XI XH))))))) :: ((Npos (XI (XI
    (XI (XO (XO (XI XH))))))) :: ((Npos (XO (XO (XO (XO (XO
    XH)))))) :: ((Npos (XI (XI (XO (XO (XO (XI XH))))))) :: ((Npos (XO (XO
    (XI (XI (XO (XI XH))))))) :: ((Npos (XI (XI (XI (XI (XO (XI
    XH))))))) :: ((Npos (XI (XI (XO (XO (XI (XI XH))))))) :: ((Npos (XI (XO
    (XO (XI (XO (XI XH))))))) :: ((Npos (XO (XI (XI (XI (XO (XI
    XH))))))) :: ((Npos (XI (XI (XI (XO (XO (XI XH))))))) :: ((Npos (XO (XO
    (XO (XO (XO XH)))))) :: ((Npos (XO (XO (XO (XO (XI (XI
    XH))))))) :: ((Npos (XI (XO (XO (XO (XO (XI XH))))))) :: ((Npos (XO (XI
    (XO (XO (XI (XI XH))))))) :: ((Npos (XI (XO (XI (XO (XO (XI
    XH))))))) :: ((Npos (XO (XI (XI (XI (XO (XI XH))))))) :: ((Npos (XO (XO
    (XI (XO (XI (XI XH))))))) :: ((Npos (XO (XO (XO (XI (XO (XI
    XH))))))) :: ((Npos (XI (XO (XI (XO (XO (XI XH))))))) :: ((Npos (XI (XI
    (XO (XO (XI (XI XH))))))) :: ((Npos (XI (XO (XO (XI (XO (XI
    XH))))))) :: ((Npos (XI (XI (XO (XO (XI (XI XH))))))) :: ((Npos (XO (XI
    (XO XH)))) :: ((Npos (XO (XO (XO (XO (XO XH)))))) :: ((Npos (XO (XO (XO
    (XO (XO XH)))))) :: ((Npos (XO (XO (XO (XO (XO XH)))))) :: ((Npos (XO (XO
    (XO (XO (XO XH)))))) :: ((Npos (XI (XO (XI (XI (XO XH)))))) :: ((Npos (XO
    (XO (XO (XO (XO XH)))))) :: ((Npos (XI (XO (XI (XO (XI (XO
    XH))))))) :: ((Npos (XI (XI (XO (XO (XI (XI XH))))))) :: ((Npos (XI (XO
    (XI (XO (XO (XI XH))))))) :: ((Npos (XO (XO (XO (XO (XO
    XH)))))) :: ((Npos (XI (XI (XI (XO (XO XH)))))) :: ((Npos (XO (XO (XI (XI
    (XI (XO XH))))))) :: ((Npos (XO (XO (XO (XI (XO XH)))))) :: ((Npos (XI
    (XI (XI (XO (XO XH)))))) :: ((Npos (XO (XO (XO (XO (XO XH)))))) :: ((Npos
    (XI (XO (XO (XO (XO (XI XH))))))) :: ((Npos (XO (XI (XI (XI (XO (XI
    XH))))))) :: ((Npos (XO (XO (XI (XO (XO (XI XH))))))) :: ((Npos (XO (XO
    (XO (XO (XO XH)))))) :: ((Npos (XI (XI (XI (XO (XO XH)))))) :: ((Npos (XO
    (XO (XI (XI (XI (XO XH))))))) :: ((Npos (XI (XO (XO (XI (XO
    XH)))))) :: ((Npos (XI (XI (XI (XO (XO XH)))))) :: ((Npos (XO (XO (XO (XO
    (XO XH)))))) :: ((Npos (XO (XO (XI (XO (XI (XI XH))))))) :: ((Npos (XI
    (XI (XI (XI (XO (XI XH))))))) :: ((Npos (XO (XO (XO (XO (XO
    XH)))))) :: ((Npos (XO (XI (XO (XO (XI (XI XH))))))) :: ((Npos (XI (XO
    (XI (XO (XO (XI XH))))))) :: ((Npos (XO (XO (XO (XO (XI (XI
    XH))))))) :: ((Npos (XO (XI (XO (XO (XI (XI XH))))))) :: ((Npos (XI (XO
    (XI (XO (XO (XI XH))))))) :: ((Npos (XI (XI (XO (XO (XI (XI
    XH))))))) :: ((Npos (XI (XO (XI (XO (XO (XI XH))))))) :: ((Npos (XO (XI
    (XI (XI (XO (XI XH))))))) :: ((Npos (XO (XO (XI (XO (XI (XI
    XH))))))) :: ((Npos (XO (XO (XO (XO (XO XH)))))) :: ((Npos (XO (XO (XI
    (XI (XO (XI XH))))))) :: ((Npos (XI (XO (XO (XI (XO (XI
    XH))))))) :: ((Npos (XO (XO (XI (XO (XI (XI XH))))))) :: ((Npos (XI (XO
    (XI (XO (XO (XI XH))))))) :: ((Npos (XO (XI (XO (XO (XI (XI
    XH))))))) :: ((Npos (XI (XO (XO (XO (XO (XI XH))))))) :: ((Npos (XO (XO
    (XI (XI (XO (XI XH))))))) :: ((Npos (XO (XO (XO (XO (XO
    XH)))))) :: ((Npos (XO (XO (XO (XO (XI (XI XH))))))) :: ((Npos (XI (XO
    (XO (XO (XO (XI XH))))))) :: ((Npos (XO (XI (XO (XO (XI (XI
    XH))))))) :: ((Npos (XI (XO (XI (XO (XO (XI XH))))))) :: ((Npos (XO (XI
    (XI (XI (XO (XI XH))))))) :: ((Npos (XO (XO (XI (XO (XI (XI
    XH))))))) :: ((Npos (XO (XO (XO (XI (XO (XI XH))))))) :: ((Npos (XI (XO
    (XI (XO (XO (XI XH))))))) :: ((Npos (XI (XI (XO (XO (XI (XI
    XH))))))) :: ((Npos (XI (XO (XI (XO (XO (XI XH))))))) :: ((Npos (XI (XI
    (XO (XO (XI (XI
    XH))))))) :: []))))))))))))))))))))))))))))))))))))))))))))))))))))))))))))))))))))))))))))))))))))))))))))))))))))))))))))))))))))))))))))))))))))))))))))))))))) :: []))))

(** val arrow_TemplateError_UnbalancedParenthesis : arrow **)

let arrow_TemplateError_UnbalancedParenthesis =
  ASpacesFixed (((Npos (XO (XO (XO (XO (XI (XI XH))))))) :: ((Npos (XI (XI
    (XI (XI (XO (XI XH))))))) :: ((Npos (XI (XI (XO (XO (XI (XI
    XH))))))) :: ((Npos (XI (XO (XO (XI (XO (XI XH))))))) :: ((Npos (XO (XO
    (XI (XO (XI (XI XH))))))) :: ((Npos (XI (XO (XO (XI (XO (XI
    XH))))))) :: ((Npos (XI (XI (XI (XI (XO (XI XH))))))) :: ((Npos (XO (XI
    (XI (XI (XO (XI XH))))))) :: [])))))))), (S O))

(** val fmt_TemplateError_EmptyParameter : chunk list **)

let fmt_TemplateError_EmptyParameter =
  (CLit ((Npos (XI (XO (XI (XO (XO (XI XH))))))) :: ((Npos (XI (XO (XI (XI
    (XO (XI XH))))))) :: ((Npos (XO (XO (XO (XO (XI (XI XH))))))) :: ((Npos
    (XO (XO (XI (XO (XI (XI XH))))))) :: ((Npos (XI (XO (XO (XI (XI (XI
    XH))))))) :: ((Npos (XO (XO (XO (XO (XO XH)))))) :: ((Npos (XO (XO (XO
    (XO (XI (XI XH))))))) :: ((Npos (XI (XO (XO (XO (XO (XI
    XH))))))) :: ((Npos (XO (XI (XO (XO (XI (XI XH))))))) :: ((Npos (XI (XO
    (XO (XO (XO (XI XH))))))) :: ((Npos (XI (XO (XI (XI (XO (XI
    XH))))))) :: ((Npos (XI (XO (XI (XO (XO (XI XH))))))) :: ((Npos (XO (XO
    (XI (XO (XI (XI XH))))))) :: ((Npos (XI (XO (XI (XO (XO (XI
    XH))))))) :: ((Npos (XO (XI (XO (XO (XI (XI XH))))))) :: ((Npos (XO (XO
    (XO (XO (XO XH)))))) :: ((Npos (XO (XI (XI (XI (XO (XI
    XH))))))) :: ((Npos (XI (XO (XO (XO (XO (XI XH))))))) :: ((Npos (XI (XO
    (XI (XI (XO (XI XH))))))) :: ((Npos (XI (XO (XI (XO (XO (XI
    XH))))))) :: ((Npos (XO (XI (XO XH)))) :: ((Npos (XO (XI (XO
    XH)))) :: ((Npos (XO (XO (XO (XO (XO XH)))))) :: ((Npos (XO (XO (XO (XO
    (XO XH)))))) :: ((Npos (XO (XO (XO (XO (XO XH)))))) :: ((Npos (XO (XO (XO
    (XO (XO XH)))))) :: ((Npos (XO (XO (XI (XO (XI (XO XH))))))) :: ((Npos
    (XI (XO (XI (XO (XO (XI XH))))))) :: ((Npos (XI (XO (XI (XI (XO (XI
    XH))))))) :: ((Npos (XO (XO (XO (XO (XI (XI XH))))))) :: ((Npos (XO (XO
    (XI (XI (XO (XI XH))))))) :: ((Npos (XI (XO (XO (XO (XO (XI
    XH))))))) :: ((Npos (XO (XO (XI (XO (XI (XI XH))))))) :: ((Npos (XI (XO
    (XI (XO (XO (XI XH))))))) :: ((Npos (XO (XI (XO (XI (XI
    XH)))))) :: ((Npos (XO (XO (XO (XO (XO
    XH)))))) :: []))))))))))))))))))))))))))))))))))))) :: ((CField ((Npos
    (XO (XO (XI (XO (XI (XI XH))))))) :: ((Npos (XI (XO (XI (XO (XO (XI
    XH))))))) :: ((Npos (XI (XO (XI (XI (XO (XI XH))))))) :: ((Npos (XO (XO
    (XO (XO (XI (XI XH))))))) :: ((Npos (XO (XO (XI (XI (XO (XI
    XH))))))) :: ((Npos (XI (XO (XO (XO (XO (XI XH))))))) :: ((Npos (XO (XO
    (XI (XO (XI (XI XH))))))) :: ((Npos (XI (XO (XI (XO (XO (XI
    XH))))))) :: []))))))))) :: ((CLit ((Npos (XO (XI (XO XH)))) :: ((Npos
    (XO (XO (XO (XO (XO XH)))))) :: ((Npos (XO (XO (XO (XO (XO
    XH)))))) :: ((Npos (XO (XO (XO (XO (XO XH)))))) :: ((Npos (XO (XO (XO (XO
    (XO XH)))))) :: ((Npos (XO (XO (XO (XO (XO XH)))))) :: ((Npos (XO (XO (XO
    (XO (XO XH)))))) :: ((Npos (XO (XO (XO (XO (XO XH)))))) :: ((Npos (XO (XO
    (XO (XO (XO XH)))))) :: ((Npos (XO (XO (XO (XO (XO XH)))))) :: ((Npos (XO
    (XO (XO (XO (XO XH)))))) :: ((Npos (XO (XO (XO (XO (XO XH)))))) :: ((Npos
    (XO (XO (XO (XO (XO XH)))))) :: ((Npos (XO (XO (XO (XO (XO
    XH)))))) :: ((Npos (XO (XO (XO (XO (XO
    XH)))))) :: [])))))))))))))))) :: ((CField ((Npos (XI (XO (XO (XO (XO (XI
    XH))))))) :: ((Npos (XO (XI (XO (XO (XI (XI XH))))))) :: ((Npos (XO (XI
    (XO (XO (XI (XI XH))))))) :: ((Npos (XI (XI (XI (XI (XO (XI
    XH))))))) :: ((Npos (XI (XI (XI (XO (XI (XI XH))))))) :: [])))))) :: [])))

(** val arrow_TemplateError_EmptyParameter : arrow **)

let arrow_TemplateError_EmptyParameter =
  ASpacesCarets (((Npos (XI (XI (XO (XO (XI (XI XH))))))) :: ((Npos (XO (XO
    (XI (XO (XI (XI XH))))))) :: ((Npos (XI (XO (XO (XO (XO (XI
    XH))))))) :: ((Npos (XO (XI (XO (XO (XI (XI XH))))))) :: ((Npos (XO (XO
    (XI (XO (XI (XI XH))))))) :: []))))), ((Npos (XO (XO (XI (XI (XO (XI
    XH))))))) :: ((Npos (XI (XO (XI (XO (XO (XI XH))))))) :: ((Npos (XO (XI
    (XI (XI (XO (XI XH))))))) :: ((Npos (XI (XI (XI (XO (XO (XI
    XH))))))) :: ((Npos (XO (XO (XI (XO (XI (XI XH))))))) :: ((Npos (XO (XO
    (XO (XI (XO (XI XH))))))) :: [])))))))

(** val fmt_TemplateError_InvalidParameter : chunk list **)

let fmt_TemplateError_InvalidParameter =
  (CLit ((Npos (XI (XO (XO (XI (XO (XI XH))))))) :: ((Npos (XO (XI (XI (XI
    (XO (XI XH))))))) :: ((Npos (XO (XI (XI (XO (XI (XI XH))))))) :: ((Npos
    (XI (XO (XO (XO (XO (XI XH))))))) :: ((Npos (XO (XO (XI (XI (XO (XI
    XH))))))) :: ((Npos (XI (XO (XO (XI (XO (XI XH))))))) :: ((Npos (XO (XO
    (XI (XO (XO (XI XH))))))) :: ((Npos (XO (XO (XO (XO (XO
    XH)))))) :: ((Npos (XO (XO (XO (XO (XI (XI XH))))))) :: ((Npos (XI (XO
    (XO (XO (XO (XI XH))))))) :: ((Npos (XO (XI (XO (XO (XI (XI
    XH))))))) :: ((Npos (XI (XO (XO (XO (XO (XI XH))))))) :: ((Npos (XI (XO
    (XI (XI (XO (XI XH))))))) :: ((Npos (XI (XO (XI (XO (XO (XI
    XH))))))) :: ((Npos (XO (XO (XI (XO (XI (XI XH))))))) :: ((Npos (XI (XO
    (XI (XO (XO (XI XH))))))) :: ((Npos (XO (XI (XO (XO (XI (XI
    XH))))))) :: ((Npos (XO (XO (XO (XO (XO XH)))))) :: ((Npos (XO (XI (XI
    (XI (XO (XI XH))))))) :: ((Npos (XI (XO (XO (XO (XO (XI
    XH))))))) :: ((Npos (XI (XO (XI (XI (XO (XI XH))))))) :: ((Npos (XI (XO
    (XI (XO (XO (XI XH))))))) :: ((Npos (XO (XI (XO (XI (XI
    XH)))))) :: ((Npos (XO (XO (XO (XO (XO XH)))))) :: ((Npos (XI (XI (XI (XO
    (XO XH)))))) :: [])))))))))))))))))))))))))) :: ((CField ((Npos (XO (XI
    (XI (XI (XO (XI XH))))))) :: ((Npos (XI (XO (XO (XO (XO (XI
    XH))))))) :: ((Npos (XI (XO (XI (XI (XO (XI XH))))))) :: ((Npos (XI (XO
    (XI (XO (XO (XI XH))))))) :: []))))) :: ((CLit ((Npos (XI (XI (XI (XO (XO
    XH)))))) :: ((Npos (XO (XI (XO XH)))) :: ((Npos (XO (XI (XO
    XH)))) :: ((Npos (XO (XO (XO (XO (XO XH)))))) :: ((Npos (XO (XO (XO (XO
    (XO XH)))))) :: ((Npos (XO (XO (XO (XO (XO XH)))))) :: ((Npos (XO (XO (XO
    (XO (XO XH)))))) :: ((Npos (XO (XO (XI (XO (XI (XO XH))))))) :: ((Npos
    (XI (XO (XI (XO (XO (XI XH))))))) :: ((Npos (XI (XO (XI (XI (XO (XI
    XH))))))) :: ((Npos (XO (XO (XO (XO (XI (XI XH))))))) :: ((Npos (XO (XO
    (XI (XI (XO (XI XH))))))) :: ((Npos (XI (XO (XO (XO (XO (XI
    XH))))))) :: ((Npos (XO (XO (XI (XO (XI (XI XH))))))) :: ((Npos (XI (XO
    (XI (XO (XO (XI XH))))))) :: ((Npos (XO (XI (XO (XI (XI
    XH)))))) :: ((Npos (XO (XO (XO (XO (XO
    XH)))))) :: [])))))))))))))))))) :: ((CField ((Npos (XO (XO (XI (XO (XI
    (XI XH))))))) :: ((Npos (XI (XO (XI (XO (XO (XI XH))))))) :: ((Npos (XI
    (XO (XI (XI (XO (XI XH))))))) :: ((Npos (XO (XO (XO (XO (XI (XI
    XH))))))) :: ((Npos (XO (XO (XI (XI (XO (XI XH))))))) :: ((Npos (XI (XO
    (XO (XO (XO (XI XH))))))) :: ((Npos (XO (XO (XI (XO (XI (XI
    XH))))))) :: ((Npos (XI (XO (XI (XO (XO (XI
    XH))))))) :: []))))))))) :: ((CLit ((Npos (XO (XI (XO XH)))) :: ((Npos
    (XO (XO (XO (XO (XO XH)))))) :: ((Npos (XO (XO (XO (XO (XO
    XH)))))) :: ((Npos (XO (XO (XO (XO (XO XH)))))) :: ((Npos (XO (XO (XO (XO
    (XO XH)))))) :: ((Npos (XO (XO (XO (XO (XO XH)))))) :: ((Npos (XO (XO (XO
    (XO (XO XH)))))) :: ((Npos (XO (XO (XO (XO (XO XH)))))) :: ((Npos (XO (XO
    (XO (XO (XO XH)))))) :: ((Npos (XO (XO (XO (XO (XO XH)))))) :: ((Npos (XO
    (XO (XO (XO (XO XH)))))) :: ((Npos (XO (XO (XO (XO (XO XH)))))) :: ((Npos
    (XO (XO (XO (XO (XO XH)))))) :: ((Npos (XO (XO (XO (XO (XO
    XH)))))) :: ((Npos (XO (XO (XO (XO (XO
    XH)))))) :: [])))))))))))))))) :: ((CField ((Npos (XI (XO (XO (XO (XO (XI
    XH))))))) :: ((Npos (XO (XI (XO (XO (XI (XI XH))))))) :: ((Npos (XO (XI
    (XO (XO (XI (XI XH))))))) :: ((Npos (XI (XI (XI (XI (XO (XI
    XH))))))) :: ((Npos (XI (XI (XI (XO (XI (XI
    XH))))))) :: [])))))) :: ((CLit ((Npos (XO (XI (XO XH)))) :: ((Npos (XO
    (XI (XO XH)))) :: ((Npos (XO (XO (XO (XI (XO (XI XH))))))) :: ((Npos (XI
    (XO (XI (XO (XO (XI XH))))))) :: ((Npos (XO (XO (XI (XI (XO (XI
    XH))))))) :: ((Npos (XO (XO (XO (XO (XI (XI XH))))))) :: ((Npos (XO (XI
    (XO (XI (XI XH)))))) :: ((Npos (XO (XO (XO (XO (XO XH)))))) :: ((Npos (XO
    (XO (XO (XO (XI (XO XH))))))) :: ((Npos (XI (XO (XO (XO (XO (XI
    XH))))))) :: ((Npos (XO (XI (XO (XO (XI (XI XH))))))) :: ((Npos (XI (XO
    (XO (XO (XO (XI XH))))))) :: ((Npos (XI (XO (XI (XI (XO (XI
    XH))))))) :: ((Npos (XI (XO (XI (XO (XO (XI XH))))))) :: ((Npos (XO (XO
    (XI (XO (XI (XI XH))))))) :: ((Npos (XI (XO (XI (XO (XO (XI
    XH))))))) :: ((Npos (XO (XI (XO (XO (XI (XI XH))))))) :: ((Npos (XO (XO
    (XO (XO (XO XH)))))) :: ((Npos (XO (XI (XI (XI (XO (XI
    XH))))))) :: ((Npos (XI (XO (XO (XO (XO (XI XH))))))) :: ((Npos (XI (XO
    (XI (XI (XO (XI XH))))))) :: ((Npos (XI (XO (XI (XO (XO (XI
    XH))))))) :: ((Npos (XI (XI (XO (XO (XI (XI XH))))))) :: ((Npos (XO (XO
    (XO (XO (XO XH)))))) :: ((Npos (XI (XO (XI (XI (XO (XI
    XH))))))) :: ((Npos (XI (XO (XI (XO (XI (XI XH))))))) :: ((Npos (XI (XI
    (XO (XO (XI (XI XH))))))) :: ((Npos (XO (XO (XI (XO (XI (XI
    XH))))))) :: ((Npos (XO (XO (XO (XO (XO XH)))))) :: ((Npos (XO (XI (XI
    (XI (XO (XI XH))))))) :: ((Npos (XI (XI (XI (XI (XO (XI
    XH))))))) :: ((Npos (XO (XO (XI (XO (XI (XI XH))))))) :: ((Npos (XO (XO
    (XO (XO (XO XH)))))) :: ((Npos (XI (XI (XO (XO (XO (XI
    XH))))))) :: ((Npos (XI (XI (XI (XI (XO (XI XH))))))) :: ((Npos (XO (XI
    (XI (XI (XO (XI XH))))))) :: ((Npos (XO (XO (XI (XO (XI (XI
    XH))))))) :: ((Npos (XI (XO (XO (XO (XO (XI XH))))))) :: ((Npos (XI (XO
    (XO (XI (XO (XI XH))))))) :: ((Npos (XO (XI (XI (XI (XO (XI
    XH))))))) :: ((Npos (XO (XO (XO (XO (XO XH)))))) :: ((Npos (XO (XO (XI
    (XO (XI (XI XH))))))) :: ((Npos (XO (XO (XO (XI (XO (XI
    XH))))))) :: ((Npos (XI (XO (XI (XO (XO (XI XH))))))) :: ((Npos (XO (XO
    (XO (XO (XO XH)))))) :: ((Npos (XI (XI (XO (XO (XO (XI
    XH))))))) :: ((Npos (XO (XO (XO (XI (XO (XI XH))))))) :: ((Npos (XI (XO
    (XO (XO (XO (XI XH))))))) :: ((Npos (XO (XI (XO (XO (XI (XI
    XH))))))) :: ((Npos (XI (XO (XO (XO (XO (XI XH))))))) :: ((Npos (XI (XI
    (XO (XO (XO (XI XH))))))) :: ((Npos (XO (XO (XI (XO (XI (XI
    XH))))))) :: ((Npos (XI (XO (XI (XO (XO (XI XH))))))) :: ((Npos (XO (XI
    (XO (XO (XI (XI XH))))))) :: ((Npos (XI (XI (XO (XO (XI (XI
    XH))))))) :: ((Npos (XO (XI (XO (XI (XI XH)))))) :: ((Npos (XO (XO (XO
    (XO (XO XH)))))) :: ((Npos (XI (XI (XI (XO (XO XH)))))) :: ((Npos (XO (XI
    (XO (XI (XI XH)))))) :: ((Npos (XI (XI (XI (XO (XO XH)))))) :: ((Npos (XO
    (XO (XI (XI (XO XH)))))) :: ((Npos (XO (XO (XO (XO (XO XH)))))) :: ((Npos
    (XI (XI (XI (XO (XO XH)))))) :: ((Npos (XO (XI (XO (XI (XO
    XH)))))) :: ((Npos (XI (XI (XI (XO (XO XH)))))) :: ((Npos (XO (XO (XI (XI
    (XO XH)))))) :: ((Npos (XO (XO (XO (XO (XO XH)))))) :: ((Npos (XI (XI (XI
    (XO (XO XH)))))) :: ((Npos (XI (XI (XO (XI (XI (XI XH))))))) :: ((Npos
    (XI (XI (XI (XO (XO XH)))))) :: ((Npos (XO (XO (XI (XI (XO
    XH)))))) :: ((Npos (XO (XO (XO (XO (XO XH)))))) :: ((Npos (XI (XI (XI (XO
    (XO XH)))))) :: ((Npos (XI (XO (XI (XI (XI (XI XH))))))) :: ((Npos (XI
    (XI (XI (XO (XO XH)))))) :: ((Npos (XO (XO (XI (XI (XO XH)))))) :: ((Npos
    (XO (XO (XO (XO (XO XH)))))) :: ((Npos (XI (XI (XI (XO (XO
    XH)))))) :: ((Npos (XO (XO (XO (XI (XO XH)))))) :: ((Npos (XI (XI (XI (XO
    (XO XH)))))) :: ((Npos (XO (XO (XI (XI (XO XH)))))) :: ((Npos (XO (XO (XO
    (XO (XO XH)))))) :: ((Npos (XI (XI (XI (XO (XO XH)))))) :: ((Npos (XI (XO
    (XO (XI (XO XH)))))) :: ((Npos (XI (XI (XI (XO (XO XH)))))) :: ((Npos (XO
    (XO (XI (XI (XO XH)))))) :: ((Npos (XO (XO (XO (XO (XO XH)))))) :: ((Npos
    (XI (XI (XI (XO (XO XH)))))) :: ((Npos (XI (XI (XI (XI (XO
    XH)))))) :: ((Npos (XI (XI (XI (XO (XO
    XH)))))) :: []))))))))))))))))))))))))))))))))))))))))))))))))))))))))))))))))))))))))))))))))))))))))))) :: []))))))

(** val arrow_TemplateError_InvalidParameter : arrow **)

let arrow_TemplateError_InvalidParameter =
  ASpacesCarets (((Npos (XI (XI (XO (XO (XI (XI XH))))))) :: ((Npos (XO (XO
    (XI (XO (XI (XI XH))))))) :: ((Npos (XI (XO (XO (XO (XO (XI
    XH))))))) :: ((Npos (XO (XI (XO (XO (XI (XI XH))))))) :: ((Npos (XO (XO
    (XI (XO (XI (XI XH))))))) :: []))))), ((Npos (XO (XO (XI (XI (XO (XI
    XH))))))) :: ((Npos (XI (XO (XI (XO (XO (XI XH))))))) :: ((Npos (XO (XI
    (XI (XI (XO (XI XH))))))) :: ((Npos (XI (XI (XI (XO (XO (XI
    XH))))))) :: ((Npos (XO (XO (XI (XO (XI (XI XH))))))) :: ((Npos (XO (XO
    (XO (XI (XO (XI XH))))))) :: [])))))))

(** val fmt_TemplateError_DuplicateParameter : chunk list **)

let fmt_TemplateError_DuplicateParameter =
  (CLit ((Npos (XO (XO (XI (XO (XO (XI XH))))))) :: ((Npos (XI (XO (XI (XO
    (XI (XI XH))))))) :: ((Npos (XO (XO (XO (XO (XI (XI XH))))))) :: ((Npos
    (XO (XO (XI (XI (XO (XI XH))))))) :: ((Npos (XI (XO (XO (XI (XO (XI
    XH))))))) :: ((Npos (XI (XI (XO (XO (XO (XI XH))))))) :: ((Npos (XI (XO
    (XO (XO (XO (XI XH))))))) :: ((Npos (XO (XO (XI (XO (XI (XI
    XH))))))) :: ((Npos (XI (XO (XI (XO (XO (XI XH))))))) :: ((Npos (XO (XO
    (XO (XO (XO XH)))))) :: ((Npos (XO (XO (XO (XO (XI (XI
    XH))))))) :: ((Npos (XI (XO (XO (XO (XO (XI XH))))))) :: ((Npos (XO (XI
    (XO (XO (XI (XI XH))))))) :: ((Npos (XI (XO (XO (XO (XO (XI
    XH))))))) :: ((Npos (XI (XO (XI (XI (XO (XI XH))))))) :: ((Npos (XI (XO
    (XI (XO (XO (XI XH))))))) :: ((Npos (XO (XO (XI (XO (XI (XI
    XH))))))) :: ((Npos (XI (XO (XI (XO (XO (XI XH))))))) :: ((Npos (XO (XI
    (XO (XO (XI (XI XH))))))) :: ((Npos (XO (XO (XO (XO (XO
    XH)))))) :: ((Npos (XO (XI (XI (XI (XO (XI XH))))))) :: ((Npos (XI (XO
    (XO (XO (XO (XI XH))))))) :: ((Npos (XI (XO (XI (XI (XO (XI
    XH))))))) :: ((Npos (XI (XO (XI (XO (XO (XI XH))))))) :: ((Npos (XO (XI
    (XO (XI (XI XH)))))) :: ((Npos (XO (XO (XO (XO (XO XH)))))) :: ((Npos (XI
    (XI (XI (XO (XO XH)))))) :: [])))))))))))))))))))))))))))) :: ((CField
    ((Npos (XO (XI (XI (XI (XO (XI XH))))))) :: ((Npos (XI (XO (XO (XO (XO
    (XI XH))))))) :: ((Npos (XI (XO (XI (XI (XO (XI XH))))))) :: ((Npos (XI
    (XO (XI (XO (XO (XI XH))))))) :: []))))) :: ((CLit ((Npos (XI (XI (XI (XO
    (XO XH)))))) :: ((Npos (XO (XI (XO XH)))) :: ((Npos (XO (XI (XO
    XH)))) :: ((Npos (XO (XO (XO (XO (XO XH)))))) :: ((Npos (XO (XO (XO (XO
    (XO XH)))))) :: ((Npos (XO (XO (XO (XO (XO XH)))))) :: ((Npos (XO (XO (XO
    (XO (XO XH)))))) :: ((Npos (XO (XO (XI (XO (XI (XO XH))))))) :: ((Npos
    (XI (XO (XI (XO (XO (XI XH))))))) :: ((Npos (XI (XO (XI (XI (XO (XI
    XH))))))) :: ((Npos (XO (XO (XO (XO (XI (XI XH))))))) :: ((Npos (XO (XO
    (XI (XI (XO (XI XH))))))) :: ((Npos (XI (XO (XO (XO (XO (XI
    XH))))))) :: ((Npos (XO (XO (XI (XO (XI (XI XH))))))) :: ((Npos (XI (XO
    (XI (XO (XO (XI XH))))))) :: ((Npos (XO (XI (XO (XI (XI
    XH)))))) :: ((Npos (XO (XO (XO (XO (XO
    XH)))))) :: [])))))))))))))))))) :: ((CField ((Npos (XO (XO (XI (XO (XI
    (XI XH))))))) :: ((Npos (XI (XO (XI (XO (XO (XI XH))))))) :: ((Npos (XI
    (XO (XI (XI (XO (XI XH))))))) :: ((Npos (XO (XO (XO (XO (XI (XI
    XH))))))) :: ((Npos (XO (XO (XI (XI (XO (XI XH))))))) :: ((Npos (XI (XO
    (XO (XO (XO (XI XH))))))) :: ((Npos (XO (XO (XI (XO (XI (XI
    XH))))))) :: ((Npos (XI (XO (XI (XO (XO (XI
    XH))))))) :: []))))))))) :: ((CLit ((Npos (XO (XI (XO XH)))) :: ((Npos
    (XO (XO (XO (XO (XO XH)))))) :: ((Npos (XO (XO (XO (XO (XO
    XH)))))) :: ((Npos (XO (XO (XO (XO (XO XH)))))) :: ((Npos (XO (XO (XO (XO
    (XO XH)))))) :: ((Npos (XO (XO (XO (XO (XO XH)))))) :: ((Npos (XO (XO (XO
    (XO (XO XH)))))) :: ((Npos (XO (XO (XO (XO (XO XH)))))) :: ((Npos (XO (XO
    (XO (XO (XO XH)))))) :: ((Npos (XO (XO (XO (XO (XO XH)))))) :: ((Npos (XO
    (XO (XO (XO (XO XH)))))) :: ((Npos (XO (XO (XO (XO (XO XH)))))) :: ((Npos
    (XO (XO (XO (XO (XO XH)))))) :: ((Npos (XO (XO (XO (XO (XO
    XH)))))) :: ((Npos (XO (XO (XO (XO (XO
    XH)))))) :: [])))))))))))))))) :: ((CField ((Npos (XI (XO (XO (XO (XO (XI
    XH))))))) :: ((Npos (XO (XI (XO (XO (XI (XI XH))))))) :: ((Npos (XO (XI
    (XO (XO (XI (XI XH))))))) :: ((Npos (XI (XI (XI (XI (XO (XI
    XH))))))) :: ((Npos (XI (XI (XI (XO (XI (XI
    XH))))))) :: [])))))) :: ((CLit ((Npos (XO (XI (XO XH)))) :: ((Npos (XO
    (XI (XO XH)))) :: ((Npos (XO (XO (XO (XI (XO (XI XH))))))) :: ((Npos (XI
    (XO (XI (XO (XO (XI XH))))))) :: ((Npos (XO (XO (XI (XI (XO (XI
    XH))))))) :: ((Npos (XO (XO (XO (XO (XI (XI XH))))))) :: ((Npos (XO (XI
    (XO (XI (XI XH)))))) :: ((Npos (XO (XO (XO (XO (XO XH)))))) :: ((Npos (XO
    (XO (XO (XO (XI (XO XH))))))) :: ((Npos (XI (XO (XO (XO (XO (XI
    XH))))))) :: ((Npos (XO (XI (XO (XO (XI (XI XH))))))) :: ((Npos (XI (XO
    (XO (XO (XO (XI XH))))))) :: ((Npos (XI (XO (XI (XI (XO (XI
    XH))))))) :: ((Npos (XI (XO (XI (XO (XO (XI XH))))))) :: ((Npos (XO (XO
    (XI (XO (XI (XI XH))))))) :: ((Npos (XI (XO (XI (XO (XO (XI
    XH))))))) :: ((Npos (XO (XI (XO (XO (XI (XI XH))))))) :: ((Npos (XO (XO
    (XO (XO (XO XH)))))) :: ((Npos (XO (XI (XI (XI (XO (XI
    XH))))))) :: ((Npos (XI (XO (XO (XO (XO (XI XH))))))) :: ((Npos (XI (XO
    (XI (XI (XO (XI XH))))))) :: ((Npos (XI (XO (XI (XO (XO (XI
    XH))))))) :: ((Npos (XI (XI (XO (XO (XI (XI XH))))))) :: ((Npos (XO (XO
    (XO (XO (XO XH)))))) :: ((Npos (XI (XO (XI (XI (XO (XI
    XH))))))) :: ((Npos (XI (XO (XI (XO (XI (XI XH))))))) :: ((Npos (XI (XI
    (XO (XO (XI (XI XH))))))) :: ((Npos (XO (XO (XI (XO (XI (XI
    XH))))))) :: ((Npos (XO (XO (XO (XO (XO XH)))))) :: ((Npos (XO (XI (XO
    (XO (XO (XI XH))))))) :: ((Npos (XI (XO (XI (XO (XO (XI
    XH))))))) :: ((Npos (XO (XO (XO (XO (XO XH)))))) :: ((Npos (XI (XO (XI
    (XO (XI (XI XH))))))) :: ((Npos (XO (XI (XI (XI (XO (XI
    XH))))))) :: ((Npos (XI (XO (XO (XI (XO (XI XH))))))) :: ((Npos (XI (XO
    (XO (XO (XI (XI XH))))))) :: ((Npos (XI (XO (XI (XO (XI (XI
    XH))))))) :: ((Npos (XI (XO (XI (XO (XO (XI XH))))))) :: ((Npos (XO (XO
    (XO (XO (XO XH)))))) :: ((Npos (XI (XI (XI (XO (XI (XI
    XH))))))) :: ((Npos (XI (XO (XO (XI (XO (XI XH))))))) :: ((Npos (XO (XO
    (XI (XO (XI (XI XH))))))) :: ((Npos (XO (XO (XO (XI (XO (XI
    XH))))))) :: ((Npos (XI (XO (XO (XI (XO (XI XH))))))) :: ((Npos (XO (XI
    (XI (XI (XO (XI XH))))))) :: ((Npos (XO (XO (XO (XO (XO
    XH)))))) :: ((Npos (XI (XO (XO (XO (XO (XI XH))))))) :: ((Npos (XO (XO
    (XO (XO (XO XH)))))) :: ((Npos (XO (XO (XI (XO (XI (XI
    XH))))))) :: ((Npos (XI (XO (XI (XO (XO (XI XH))))))) :: ((Npos (XI (XO
    (XI (XI (XO (XI XH))))))) :: ((Npos (XO (XO (XO (XO (XI (XI
    XH))))))) :: ((Npos (XO (XO (XI (XI (XO (XI XH))))))) :: ((Npos (XI (XO
    (XO (XO (XO (XI XH))))))) :: ((Npos (XO (XO (XI (XO (XI (XI
    XH))))))) :: ((Npos (XI (XO (XI (XO (XO (XI XH))))))) :: ((Npos (XO (XI
    (XO XH)))) :: ((Npos (XO (XI (XO XH)))) :: ((Npos (XO (XO (XI (XO (XI (XI
    XH))))))) :: ((Npos (XO (XI (XO (XO (XI (XI XH))))))) :: ((Npos (XI (XO
    (XO (XI (XI (XI XH))))))) :: ((Npos (XO (XI (XO (XI (XI
    XH)))))) :: ((Npos (XO (XI (XO XH)))) :: ((Npos (XO (XO (XO (XO (XO
    XH)))))) :: ((Npos (XO (XO (XO (XO (XO XH)))))) :: ((Npos (XO (XO (XO (XO
    (XO XH)))))) :: ((Npos (XO (XO (XO (XO (XO XH)))))) :: ((Npos (XI (XO (XI
    (XI (XO XH)))))) :: ((Npos (XO (XO (XO (XO (XO XH)))))) :: ((Npos (XO (XI
    (XO (XO (XI (XO XH))))))) :: ((Npos (XI (XO (XI (XO (XO (XI
    XH))))))) :: ((Npos (XO (XI (XI (XI (XO (XI XH))))))) :: ((Npos (XI (XO
    (XO (XO (XO (XI XH))))))) :: ((Npos (XI (XO (XI (XI (XO (XI
    XH))))))) :: ((Npos (XI (XO (XI (XO (XO (XI XH))))))) :: ((Npos (XO (XO
    (XO (XO (XO XH)))))) :: ((Npos (XI (XI (XI (XI (XO (XI
    XH))))))) :: ((Npos (XO (XI (XI (XI (XO (XI XH))))))) :: ((Npos (XI (XO
    (XI (XO (XO (XI XH))))))) :: ((Npos (XO (XO (XO (XO (XO
    XH)))))) :: ((Npos (XI (XI (XI (XI (XO (XI XH))))))) :: ((Npos (XO (XI
    (XI (XO (XO (XI XH))))))) :: ((Npos (XO (XO (XO (XO (XO
    XH)))))) :: ((Npos (XO (XO (XI (XO (XI (XI XH))))))) :: ((Npos (XO (XO
    (XO (XI (XO (XI XH))))))) :: ((Npos (XI (XO (XI (XO (XO (XI
    XH))))))) :: ((Npos (XO (XO (XO (XO (XO XH)))))) :: ((Npos (XO (XO (XO
    (XO (XI (XI XH))))))) :: ((Npos (XI (XO (XO (XO (XO (XI
    XH))))))) :: ((Npos (XO (XI (XO (XO (XI (XI XH))))))) :: ((Npos (XI (XO
    (XO (XO (XO (XI XH))))))) :: ((Npos (XI (XO (XI (XI (XO (XI
    XH))))))) :: ((Npos (XI (XO (XI (XO (XO (XI XH))))))) :: ((Npos (XO (XO
    (XI (XO (XI (XI XH))))))) :: ((Npos (XI (XO (XI (XO (XO (XI
    XH))))))) :: ((Npos (XO (XI (XO (XO (XI (XI XH))))))) :: ((Npos (XI (XI
    (XO (XO (XI (XI XH))))))) :: ((Npos (XO (XO (XO (XO (XO
    XH)))))) :: ((Npos (XO (XO (XI (XO (XI (XI XH))))))) :: ((Npos (XI (XI
    (XI (XI (XO (XI XH))))))) :: ((Npos (XO (XO (XO (XO (XO
    XH)))))) :: ((Npos (XO (XI (XO (XO (XO (XI XH))))))) :: ((Npos (XI (XO
    (XI (XO (XO (XI XH))))))) :: ((Npos (XO (XO (XO (XO (XO
    XH)))))) :: ((Npos (XI (XO (XI (XO (XI (XI XH))))))) :: ((Npos (XO (XI
    (XI (XI (XO (XI XH))))))) :: ((Npos (XI (XO (XO (XI (XO (XI
    XH))))))) :: ((Npos (XI (XO (XO (XO (XI (XI XH))))))) :: ((Npos (XI (XO
    (XI (XO (XI (XI XH))))))) :: ((Npos (XI (XO (XI (XO (XO (XI
    XH))))))) :: []))))))))))))))))))))))))))))))))))))))))))))))))))))))))))))))))))))))))))))))))))))))))))))))))))))))))))))))) :: []))))))

(** val arrow_TemplateError_DuplicateParameter : arrow **)

let arrow_TemplateError_DuplicateParameter =
  ADupRanges

(** val fmt_TemplateError_EmptyWildcard : chunk list **)

let fmt_TemplateError_EmptyWildcard =
  (CLit ((Npos (XI (XO (XI (XO (XO (XI XH))))))) :: ((Npos (XI (XO (XI (XI
    (XO (XI XH))))))) :: ((Npos (XO (XO (XO (XO (XI (XI XH))))))) :: ((Npos
    (XO (XO (XI (XO (XI (XI XH))))))) :: ((Npos (XI (XO (XO (XI (XI (XI
    XH))))))) :: ((Npos (XO (XO (XO (XO (XO XH)))))) :: ((Npos (XI (XI (XI
    (XO (XI (XI XH))))))) :: ((Npos (XI (XO (XO (XI (XO (XI
    XH))))))) :: ((Npos (XO (XO (XI (XI (XO (XI XH))))))) :: ((Npos (XO (XO
    (XI (XO (XO (XI XH))))))) :: ((Npos (XI (XI (XO (XO (XO (XI
    XH))))))) :: ((Npos (XI (XO (XO (XO (XO (XI XH))))))) :: ((Npos (XO (XI
    (XO (XO (XI (XI XH))))))) :: ((Npos (XO (XO (XI (XO (XO (XI
    XH))))))) :: ((Npos (XO (XO (XO (XO (XO XH)))))) :: ((Npos (XO (XI (XI
    (XI (XO (XI XH))))))) :: ((Npos (XI (XO (XO (XO (XO (XI
    XH))))))) :: ((Npos (XI (XO (XI (XI (XO (XI XH))))))) :: ((Npos (XI (XO
    (XI (XO (XO (XI XH))))))) :: ((Npos (XO (XI (XO XH)))) :: ((Npos (XO (XI
    (XO XH)))) :: ((Npos (XO (XO (XO (XO (XO XH)))))) :: ((Npos (XO (XO (XO
    (XO (XO XH)))))) :: ((Npos (XO (XO (XO (XO (XO XH)))))) :: ((Npos (XO (XO
    (XO (XO (XO XH)))))) :: ((Npos (XO (XO (XI (XO (XI (XO
    XH))))))) :: ((Npos (XI (XO (XI (XO (XO (XI XH))))))) :: ((Npos (XI (XO
    (XI (XI (XO (XI XH))))))) :: ((Npos (XO (XO (XO (XO (XI (XI
    XH))))))) :: ((Npos (XO (XO (XI (XI (XO (XI XH))))))) :: ((Npos (XI (XO
    (XO (XO (XO (XI XH))))))) :: ((Npos (XO (XO (XI (XO (XI (XI
    XH))))))) :: ((Npos (XI (XO (XI (XO (XO (XI XH))))))) :: ((Npos (XO (XI
    (XO (XI (XI XH)))))) :: ((Npos (XO (XO (XO (XO (XO
    XH)))))) :: [])))))))))))))))))))))))))))))))))))) :: ((CField ((Npos (XO
    (XO (XI (XO (XI (XI XH))))))) :: ((Npos (XI (XO (XI (XO (XO (XI
    XH))))))) :: ((Npos (XI (XO (XI (XI (XO (XI XH))))))) :: ((Npos (XO (XO
    (XO (XO (XI (XI XH))))))) :: ((Npos (XO (XO (XI (XI (XO (XI
    XH))))))) :: ((Npos (XI (XO (XO (XO (XO (XI XH))))))) :: ((Npos (XO (XO
    (XI (XO (XI (XI XH))))))) :: ((Npos (XI (XO (XI (XO (XO (XI
    XH))))))) :: []))))))))) :: ((CLit ((Npos (XO (XI (XO XH)))) :: ((Npos
    (XO (XO (XO (XO (XO XH)))))) :: ((Npos (XO (XO (XO (XO (XO
    XH)))))) :: ((Npos (XO (XO (XO (XO (XO XH)))))) :: ((Npos (XO (XO (XO (XO
    (XO XH)))))) :: ((Npos (XO (XO (XO (XO (XO XH)))))) :: ((Npos (XO (XO (XO
    (XO (XO XH)))))) :: ((Npos (XO (XO (XO (XO (XO XH)))))) :: ((Npos (XO (XO
    (XO (XO (XO XH)))))) :: ((Npos (XO (XO (XO (XO (XO XH)))))) :: ((Npos (XO
    (XO (XO (XO (XO XH)))))) :: ((Npos (XO (XO (XO (XO (XO XH)))))) :: ((Npos
    (XO (XO (XO (XO (XO XH)))))) :: ((Npos (XO (XO (XO (XO (XO
    XH)))))) :: ((Npos (XO (XO (XO (XO (XO
    XH)))))) :: [])))))))))))))))) :: ((CField ((Npos (XI (XO (XO (XO (XO (XI
    XH))))))) :: ((Npos (XO (XI (XO (XO (XI (XI XH))))))) :: ((Npos (XO (XI
    (XO (XO (XI (XI XH))))))) :: ((Npos (XI (XI (XI (XI (XO (XI
    XH))))))) :: ((Npos (XI (XI (XI (XO (XI (XI XH))))))) :: [])))))) :: [])))

(** val arrow_TemplateError_EmptyWildcard : arrow **)

let arrow_TemplateError_EmptyWildcard =
  ASpacesCarets (((Npos (XI (XI (XO (XO (XI (XI XH))))))) :: ((Npos (XO (XO
    (XI (XO (XI (XI XH))))))) :: ((Npos (XI (XO (XO (XO (XO (XI
    XH))))))) :: ((Npos (XO (XI (XO (XO (XI (XI XH))))))) :: ((Npos (XO (XO
    (XI (XO (XI (XI XH))))))) :: []))))), ((Npos (XO (XO (XI (XI (XO (XI
    XH))))))) :: ((Npos (XI (XO (XI (XO (XO (XI XH))))))) :: ((Npos (XO (XI
    (XI (XI (XO (XI XH))))))) :: ((Npos (XI (XI (XI (XO (XO (XI
    XH))))))) :: ((Npos (XO (XO (XI (XO (XI (XI XH))))))) :: ((Npos (XO (XO
    (XO (XI (XO (XI XH))))))) :: [])))))))

(** val fmt_TemplateError_EmptyConstraint : chunk list **)

let fmt_TemplateError_EmptyConstraint =
  (CLit ((Npos (XI (XO (XI (XO (XO (XI XH))))))) :: ((Npos (XI (XO (XI (XI
    (XO (XI XH))))))) :: ((Npos (XO (XO (XO (XO (XI (XI XH))))))) :: ((Npos
    (XO (XO (XI (XO (XI (XI XH))))))) :: ((Npos (XI (XO (XO (XI (XI (XI
    XH))))))) :: ((Npos (XO (XO (XO (XO (XO XH)))))) :: ((Npos (XI (XI (XO
    (XO (XO (XI XH))))))) :: ((Npos (XI (XI (XI (XI (XO (XI
    XH))))))) :: ((Npos (XO (XI (XI (XI (XO (XI XH))))))) :: ((Npos (XI (XI
    (XO (XO (XI (XI XH))))))) :: ((Npos (XO (XO (XI (XO (XI (XI
    XH))))))) :: ((Npos (XO (XI (XO (XO (XI (XI XH))))))) :: ((Npos (XI (XO
    (XO (XO (XO (XI XH))))))) :: ((Npos (XI (XO (XO (XI (XO (XI
    XH))))))) :: ((Npos (XO (XI (XI (XI (XO (XI XH))))))) :: ((Npos (XO (XO
    (XI (XO (XI (XI XH))))))) :: ((Npos (XO (XO (XO (XO (XO
    XH)))))) :: ((Npos (XO (XI (XI (XI (XO (XI XH))))))) :: ((Npos (XI (XO
    (XO (XO (XO (XI XH))))))) :: ((Npos (XI (XO (XI (XI (XO (XI
    XH))))))) :: ((Npos (XI (XO (XI (XO (XO (XI XH))))))) :: ((Npos (XO (XI
    (XO XH)))) :: ((Npos (XO (XI (XO XH)))) :: ((Npos (XO (XO (XO (XO (XO
    XH)))))) :: ((Npos (XO (XO (XO (XO (XO XH)))))) :: ((Npos (XO (XO (XO (XO
    (XO XH)))))) :: ((Npos (XO (XO (XO (XO (XO XH)))))) :: ((Npos (XO (XO (XI
    (XO (XI (XO XH))))))) :: ((Npos (XI (XO (XI (XO (XO (XI
    XH))))))) :: ((Npos (XI (XO (XI (XI (XO (XI XH))))))) :: ((Npos (XO (XO
    (XO (XO (XI (XI XH))))))) :: ((Npos (XO (XO (XI (XI (XO (XI
    XH))))))) :: ((Npos (XI (XO (XO (XO (XO (XI XH))))))) :: ((Npos (XO (XO
    (XI (XO (XI (XI XH))))))) :: ((Npos (XI (XO (XI (XO (XO (XI
    XH))))))) :: ((Npos (XO (XI (XO (XI (XI XH)))))) :: ((Npos (XO (XO (XO
    (XO (XO XH)))))) :: [])))))))))))))))))))))))))))))))))))))) :: ((CField
    ((Npos (XO (XO (XI (XO (XI (XI XH))))))) :: ((Npos (XI (XO (XI (XO (XO
    (XI XH))))))) :: ((Npos (XI (XO (XI (XI (XO (XI XH))))))) :: ((Npos (XO
    (XO (XO (XO (XI (XI XH))))))) :: ((Npos (XO (XO (XI (XI (XO (XI
    XH))))))) :: ((Npos (XI (XO (XO (XO (XO (XI XH))))))) :: ((Npos (XO (XO
    (XI (XO (XI (XI XH))))))) :: ((Npos (XI (XO (XI (XO (XO (XI
    XH))))))) :: []))))))))) :: ((CLit ((Npos (XO (XI (XO XH)))) :: ((Npos
    (XO (XO (XO (XO (XO XH)))))) :: ((Npos (XO (XO (XO (XO (XO
    XH)))))) :: ((Npos (XO (XO (XO (XO (XO XH)))))) :: ((Npos (XO (XO (XO (XO
    (XO XH)))))) :: ((Npos (XO (XO (XO (XO (XO XH)))))) :: ((Npos (XO (XO (XO
    (XO (XO XH)))))) :: ((Npos (XO (XO (XO (XO (XO XH)))))) :: ((Npos (XO (XO
    (XO (XO (XO XH)))))) :: ((Npos (XO (XO (XO (XO (XO XH)))))) :: ((Npos (XO
    (XO (XO (XO (XO XH)))))) :: ((Npos (XO (XO (XO (XO (XO XH)))))) :: ((Npos
    (XO (XO (XO (XO (XO XH)))))) :: ((Npos (XO (XO (XO (XO (XO
    XH)))))) :: ((Npos (XO (XO (XO (XO (XO
    XH)))))) :: [])))))))))))))))) :: ((CField ((Npos (XI (XO (XO (XO (XO (XI
    XH))))))) :: ((Npos (XO (XI (XO (XO (XI (XI XH))))))) :: ((Npos (XO (XI
    (XO (XO (XI (XI XH))))))) :: ((Npos (XI (XI (XI (XI (XO (XI
    XH))))))) :: ((Npos (XI (XI (XI (XO (XI (XI XH))))))) :: [])))))) :: [])))

(** val arrow_TemplateError_EmptyConstraint : arrow **)

let arrow_TemplateError_EmptyConstraint =
  ASpacesCarets (((Npos (XI (XI (XO (XO (XI (XI XH))))))) :: ((Npos (XO (XO
    (XI (XO (XI (XI XH))))))) :: ((Npos (XI (XO (XO (XO (XO (XI
    XH))))))) :: ((Npos (XO (XI (XO (XO (XI (XI XH))))))) :: ((Npos (XO (XO
    (XI (XO (XI (XI XH))))))) :: []))))), ((Npos (XO (XO (XI (XI (XO (XI
    XH))))))) :: ((Npos (XI (XO (XI (XO (XO (XI XH))))))) :: ((Npos (XO (XI
    (XI (XI (XO (XI XH))))))) :: ((Npos (XI (XI (XI (XO (XO (XI
    XH))))))) :: ((Npos (XO (XO (XI (XO (XI (XI XH))))))) :: ((Npos (XO (XO
    (XO (XI (XO (XI XH))))))) :: [])))))))

(** val fmt_TemplateError_InvalidConstraint : chunk list **)

let fmt_TemplateError_InvalidConstraint =
  (CLit ((Npos (XI (XO (XO (XI (XO (XI XH))))))) :: ((Npos (XO (XI (XI (XI
    (XO (XI XH))))))) :: ((Npos (XO (XI (XI (XO (XI (XI XH))))))) :: ((Npos
    (XI (XO (XO (XO (XO (XI XH))))))) :: ((Npos (XO (XO (XI (XI (XO (XI
    XH))))))) :: ((Npos (XI (XO (XO (XI (XO (XI XH))))))) :: ((Npos (XO (XO
    (XI (XO (XO (XI XH))))))) :: ((Npos (XO (XO (XO (XO (XO
    XH)))))) :: ((Npos (XI (XI (XO (XO (XO (XI XH))))))) :: ((Npos (XI (XI
    (XI (XI (XO (XI XH))))))) :: ((Npos (XO (XI (XI (XI (XO (XI
    XH))))))) :: ((Npos (XI (XI (XO (XO (XI (XI XH))))))) :: ((Npos (XO (XO
    (XI (XO (XI (XI XH))))))) :: ((Npos (XO (XI (XO (XO (XI (XI
    XH))))))) :: ((Npos (XI (XO (XO (XO (XO (XI XH))))))) :: ((Npos (XI (XO
    (XO (XI (XO (XI XH))))))) :: ((Npos (XO (XI (XI (XI (XO (XI
    XH))))))) :: ((Npos (XO (XO (XI (XO (XI (XI XH))))))) :: ((Npos (XO (XO
    (XO (XO (XO XH)))))) :: ((Npos (XO (XI (XI (XI (XO (XI
    XH))))))) :: ((Npos (XI (XO (XO (XO (XO (XI XH))))))) :: ((Npos (XI (XO
    (XI (XI (XO (XI XH))))))) :: ((Npos (XI (XO (XI (XO (XO (XI
    XH))))))) :: ((Npos (XO (XI (XO (XI (XI XH)))))) :: ((Npos (XO (XO (XO
    (XO (XO XH)))))) :: ((Npos (XI (XI (XI (XO (XO
    XH)))))) :: []))))))))))))))))))))))))))) :: ((CField ((Npos (XO (XI (XI
    (XI (XO (XI XH))))))) :: ((Npos (XI (XO (XO (XO (XO (XI
    XH))))))) :: ((Npos (XI (XO (XI (XI (XO (XI XH))))))) :: ((Npos (XI (XO
    (XI (XO (XO (XI XH))))))) :: []))))) :: ((CLit ((Npos (XI (XI (XI (XO (XO
    XH)))))) :: ((Npos (XO (XI (XO XH)))) :: ((Npos (XO (XI (XO
    XH)))) :: ((Npos (XO (XO (XO (XO (XO XH)))))) :: ((Npos (XO (XO (XO (XO
    (XO XH)))))) :: ((Npos (XO (XO (XO (XO (XO XH)))))) :: ((Npos (XO (XO (XO
    (XO (XO XH)))))) :: ((Npos (XO (XO (XI (XO (XI (XO XH))))))) :: ((Npos
    (XI (XO (XI (XO (XO (XI XH))))))) :: ((Npos (XI (XO (XI (XI (XO (XI
    XH))))))) :: ((Npos (XO (XO (XO (XO (XI (XI XH))))))) :: ((Npos (XO (XO
    (XI (XI (XO (XI XH))))))) :: ((Npos (XI (XO (XO (XO (XO (XI
    XH))))))) :: ((Npos (XO (XO (XI (XO (XI (XI XH))))))) :: ((Npos (XI (XO
    (XI (XO (XO (XI XH))))))) :: ((Npos (XO (XI (XO (XI (XI
    XH)))))) :: ((Npos (XO (XO (XO (XO (XO
    XH)))))) :: [])))))))))))))))))) :: ((CField ((Npos (XO (XO (XI (XO (XI
    (XI XH))))))) :: ((Npos (XI (XO (XI (XO (XO (XI XH))))))) :: ((Npos (XI
    (XO (XI (XI (XO (XI XH))))))) :: ((Npos (XO (XO (XO (XO (XI (XI
    XH))))))) :: ((Npos (XO (XO (XI (XI (XO (XI XH))))))) :: ((Npos (XI (XO
    (XO (XO (XO (XI XH))))))) :: ((Npos (XO (XO (XI (XO (XI (XI
    XH))))))) :: ((Npos (XI (XO (XI (XO (XO (XI
    XH))))))) :: []))))))))) :: ((CLit ((Npos (XO (XI (XO XH)))) :: ((Npos
    (XO (XO (XO (XO (XO XH)))))) :: ((Npos (XO (XO (XO (XO (XO
    XH)))))) :: ((Npos (XO (XO (XO (XO (XO XH)))))) :: ((Npos (XO (XO (XO (XO
    (XO XH)))))) :: ((Npos (XO (XO (XO (XO (XO XH)))))) :: ((Npos (XO (XO (XO
    (XO (XO XH)))))) :: ((Npos (XO (XO (XO (XO (XO XH)))))) :: ((Npos (XO (XO
    (XO (XO (XO XH)))))) :: ((Npos (XO (XO (XO (XO (XO XH)))))) :: ((Npos (XO
    (XO (XO (XO (XO XH)))))) :: ((Npos (XO (XO (XO (XO (XO XH)))))) :: ((Npos
    (XO (XO (XO (XO (XO XH)))))) :: ((Npos (XO (XO (XO (XO (XO
    XH)))))) :: ((Npos (XO (XO (XO (XO (XO
    XH)))))) :: [])))))))))))))))) :: ((CField ((Npos (XI (XO (XO (XO (XO (XI
    XH))))))) :: ((Npos (XO (XI (XO (XO (XI (XI XH))))))) :: ((Npos (XO (XI
    (XO (XO (XI (XI XH))))))) :: ((Npos (XI (XI (XI (XI (XO (XI
    XH))))))) :: ((Npos (XI (XI (XI (XO (XI (XI
    XH))))))) :: [])))))) :: ((CLit ((Npos (XO (XI (XO XH)))) :: ((Npos (XO
    (XI (XO XH)))) :: ((Npos (XO (XO (XO (XI (XO (XI XH))))))) :: ((Npos (XI
    (XO (XI (XO (XO (XI XH))))))) :: ((Npos (XO (XO (XI (XI (XO (XI
    XH))))))) :: ((Npos (XO (XO (XO (XO (XI (XI XH))))))) :: ((Npos (XO (XI
    (XO (XI (XI XH)))))) :: ((Npos (XO (XO (XO (XO (XO XH)))))) :: ((Npos (XI
    (XI (XO (XO (XO (XO XH))))))) :: ((Npos (XI (XI (XI (XI (XO (XI
    XH))))))) :: ((Npos (XO (XI (XI (XI (XO (XI XH))))))) :: ((Npos (XI (XI
    (XO (XO (XI (XI XH))))))) :: ((Npos (XO (XO (XI (XO (XI (XI
    XH))))))) :: ((Npos (XO (XI (XO (XO (XI (XI XH))))))) :: ((Npos (XI (XO
    (XO (XO (XO (XI XH))))))) :: ((Npos (XI (XO (XO (XI (XO (XI
    XH))))))) :: ((Npos (XO (XI (XI (XI (XO (XI XH))))))) :: ((Npos (XO (XO
    (XI (XO (XI (XI XH))))))) :: ((Npos (XO (XO (XO (XO (XO
    XH)))))) :: ((Npos (XO (XI (XI (XI (XO (XI XH))))))) :: ((Npos (XI (XO
    (XO (XO (XO (XI XH))))))) :: ((Npos (XI (XO (XI (XI (XO (XI
    XH))))))) :: ((Npos (XI (XO (XI (XO (XO (XI XH))))))) :: ((Npos (XI (XI
    (XO (XO (XI (XI XH))))))) :: ((Npos (XO (XO (XO (XO (XO
    XH)))))) :: ((Npos (XI (XO (XI (XI (XO (XI XH))))))) :: ((Npos (XI (XO
    (XI (XO (XI (XI XH))))))) :: ((Npos (XI (XI (XO (XO (XI (XI
    XH))))))) :: ((Npos (XO (XO (XI (XO (XI (XI XH))))))) :: ((Npos (XO (XO
    (XO (XO (XO XH)))))) :: ((Npos (XO (XI (XI (XI (XO (XI
    XH))))))) :: ((Npos (XI (XI (XI (XI (XO (XI XH))))))) :: ((Npos (XO (XO
    (XI (XO (XI (XI XH))))))) :: ((Npos (XO (XO (XO (XO (XO
    XH)))))) :: ((Npos (XI (XI (XO (XO (XO (XI XH))))))) :: ((Npos (XI (XI
    (XI (XI (XO (XI XH))))))) :: ((Npos (XO (XI (XI (XI (XO (XI
    XH))))))) :: ((Npos (XO (XO (XI (XO (XI (XI XH))))))) :: ((Npos (XI (XO
    (XO (XO (XO (XI XH))))))) :: ((Npos (XI (XO (XO (XI (XO (XI
    XH))))))) :: ((Npos (XO (XI (XI (XI (XO (XI XH))))))) :: ((Npos (XO (XO
    (XO (XO (XO XH)))))) :: ((Npos (XO (XO (XI (XO (XI (XI
    XH))))))) :: ((Npos (XO (XO (XO (XI (XO (XI XH))))))) :: ((Npos (XI (XO
    (XI (XO (XO (XI XH))))))) :: ((Npos (XO (XO (XO (XO (XO
    XH)))))) :: ((Npos (XI (XI (XO (XO (XO (XI XH))))))) :: ((Npos (XO (XO
    (XO (XI (XO (XI XH))))))) :: ((Npos (XI (XO (XO (XO (XO (XI
    XH))))))) :: ((Npos (XO (XI (XO (XO (XI (XI XH))))))) :: ((Npos (XI (XO
    (XO (XO (XO (XI XH))))))) :: ((Npos (XI (XI (XO (XO (XO (XI
    XH))))))) :: ((Npos (XO (XO (XI (XO (XI (XI XH))))))) :: ((Npos (XI (XO
    (XI (XO (XO (XI XH))))))) :: ((Npos (XO (XI (XO (XO (XI (XI
    XH))))))) :: ((Npos (XI (XI (XO (XO (XI (XI XH))))))) :: ((Npos (XO (XI
    (XO (XI (XI XH)))))) :: ((Npos (XO (XO (XO (XO (XO XH)))))) :: ((Npos (XI
    (XI (XI (XO (XO XH)))))) :: ((Npos (XO (XI (XO (XI (XI XH)))))) :: ((Npos
    (XI (XI (XI (XO (XO XH)))))) :: ((Npos (XO (XO (XI (XI (XO
    XH)))))) :: ((Npos (XO (XO (XO (XO (XO XH)))))) :: ((Npos (XI (XI (XI (XO
    (XO XH)))))) :: ((Npos (XO (XI (XO (XI (XO XH)))))) :: ((Npos (XI (XI (XI
    (XO (XO XH)))))) :: ((Npos (XO (XO (XI (XI (XO XH)))))) :: ((Npos (XO (XO
    (XO (XO (XO XH)))))) :: ((Npos (XI (XI (XI (XO (XO XH)))))) :: ((Npos (XI
    (XI (XO (XI (XI (XI XH))))))) :: ((Npos (XI (XI (XI (XO (XO
    XH)))))) :: ((Npos (XO (XO (XI (XI (XO XH)))))) :: ((Npos (XO (XO (XO (XO
    (XO XH)))))) :: ((Npos (XI (XI (XI (XO (XO XH)))))) :: ((Npos (XI (XO (XI
    (XI (XI (XI XH))))))) :: ((Npos (XI (XI (XI (XO (XO XH)))))) :: ((Npos
    (XO (XO (XI (XI (XO XH)))))) :: ((Npos (XO (XO (XO (XO (XO
    XH)))))) :: ((Npos (XI (XI (XI (XO (XO XH)))))) :: ((Npos (XO (XO (XO (XI
    (XO XH)))))) :: ((Npos (XI (XI (XI (XO (XO XH)))))) :: ((Npos (XO (XO (XI
    (XI (XO XH)))))) :: ((Npos (XO (XO (XO (XO (XO XH)))))) :: ((Npos (XI (XI
    (XI (XO (XO XH)))))) :: ((Npos (XI (XO (XO (XI (XO XH)))))) :: ((Npos (XI
    (XI (XI (XO (XO XH)))))) :: ((Npos (XO (XO (XI (XI (XO XH)))))) :: ((Npos
    (XO (XO (XO (XO (XO XH)))))) :: ((Npos (XI (XI (XI (XO (XO
    XH)))))) :: ((Npos (XI (XI (XI (XI (XO XH)))))) :: ((Npos (XI (XI (XI (XO
    (XO
    XH)))))) :: [])))))))))))))))))))))))))))))))))))))))))))))))))))))))))))))))))))))))))))))))))))))))))))) :: []))))))

(** val arrow_TemplateError_InvalidConstraint : arrow **)

let arrow_TemplateError_InvalidConstraint =
  ASpacesCarets (((Npos (XI (XI (XO (XO (XI (XI XH))))))) :: ((Npos (XO (XO
    (XI (XO (XI (XI XH))))))) :: ((Npos (XI (XO (XO (XO (XO (XI
    XH))))))) :: ((Npos (XO (XI (XO (XO (XI (XI XH))))))) :: ((Npos (XO (XO
    (XI (XO (XI (XI XH))))))) :: []))))), ((Npos (XO (XO (XI (XI (XO (XI
    XH))))))) :: ((Npos (XI (XO (XI (XO (XO (XI XH))))))) :: ((Npos (XO (XI
    (XI (XI (XO (XI XH))))))) :: ((Npos (XI (XI (XI (XO (XO (XI
    XH))))))) :: ((Npos (XO (XO (XI (XO (XI (XI XH))))))) :: ((Npos (XO (XO
    (XO (XI (XO (XI XH))))))) :: [])))))))

(** val fmt_TemplateError_TouchingParameters : chunk list **)

let fmt_TemplateError_TouchingParameters =
  (CLit ((Npos (XO (XO (XI (XO (XI (XI XH))))))) :: ((Npos (XI (XI (XI (XI
    (XO (XI XH))))))) :: ((Npos (XI (XO (XI (XO (XI (XI XH))))))) :: ((Npos
    (XI (XI (XO (XO (XO (XI XH))))))) :: ((Npos (XO (XO (XO (XI (XO (XI
    XH))))))) :: ((Npos (XI (XO (XO (XI (XO (XI XH))))))) :: ((Npos (XO (XI
    (XI (XI (XO (XI XH))))))) :: ((Npos (XI (XI (XI (XO (XO (XI
    XH))))))) :: ((Npos (XO (XO (XO (XO (XO XH)))))) :: ((Npos (XO (XO (XO
    (XO (XI (XI XH))))))) :: ((Npos (XI (XO (XO (XO (XO (XI
    XH))))))) :: ((Npos (XO (XI (XO (XO (XI (XI XH))))))) :: ((Npos (XI (XO
    (XO (XO (XO (XI XH))))))) :: ((Npos (XI (XO (XI (XI (XO (XI
    XH))))))) :: ((Npos (XI (XO (XI (XO (XO (XI XH))))))) :: ((Npos (XO (XO
    (XI (XO (XI (XI XH))))))) :: ((Npos (XI (XO (XI (XO (XO (XI
    XH))))))) :: ((Npos (XO (XI (XO (XO (XI (XI XH))))))) :: ((Npos (XI (XI
    (XO (XO (XI (XI XH))))))) :: ((Npos (XO (XI (XO XH)))) :: ((Npos (XO (XI
    (XO XH)))) :: ((Npos (XO (XO (XO (XO (XO XH)))))) :: ((Npos (XO (XO (XO
    (XO (XO XH)))))) :: ((Npos (XO (XO (XO (XO (XO XH)))))) :: ((Npos (XO (XO
    (XO (XO (XO XH)))))) :: ((Npos (XO (XO (XI (XO (XI (XO
    XH))))))) :: ((Npos (XI (XO (XI (XO (XO (XI XH))))))) :: ((Npos (XI (XO
    (XI (XI (XO (XI XH))))))) :: ((Npos (XO (XO (XO (XO (XI (XI
    XH))))))) :: ((Npos (XO (XO (XI (XI (XO (XI XH))))))) :: ((Npos (XI (XO
    (XO (XO (XO (XI XH))))))) :: ((Npos (XO (XO (XI (XO (XI (XI
    XH))))))) :: ((Npos (XI (XO (XI (XO (XO (XI XH))))))) :: ((Npos (XO (XI
    (XO (XI (XI XH)))))) :: ((Npos (XO (XO (XO (XO (XO
    XH)))))) :: [])))))))))))))))))))))))))))))))))))) :: ((CField ((Npos (XO
    (XO (XI (XO (XI (XI XH))))))) :: ((Npos (XI (XO (XI (XO (XO (XI
    XH))))))) :: ((Npos (XI (XO (XI (XI (XO (XI XH))))))) :: ((Npos (XO (XO
    (XO (XO (XI (XI XH))))))) :: ((Npos (XO (XO (XI (XI (XO (XI
    XH))))))) :: ((Npos (XI (XO (XO (XO (XO (XI XH))))))) :: ((Npos (XO (XO
    (XI (XO (XI (XI XH))))))) :: ((Npos (XI (XO (XI (XO (XO (XI
    XH))))))) :: []))))))))) :: ((CLit ((Npos (XO (XI (XO XH)))) :: ((Npos
    (XO (XO (XO (XO (XO XH)))))) :: ((Npos (XO (XO (XO (XO (XO
    XH)))))) :: ((Npos (XO (XO (XO (XO (XO XH)))))) :: ((Npos (XO (XO (XO (XO
    (XO XH)))))) :: ((Npos (XO (XO (XO (XO (XO XH)))))) :: ((Npos (XO (XO (XO
    (XO (XO XH)))))) :: ((Npos (XO (XO (XO (XO (XO XH)))))) :: ((Npos (XO (XO
    (XO (XO (XO XH)))))) :: ((Npos (XO (XO (XO (XO (XO XH)))))) :: ((Npos (XO
    (XO (XO (XO (XO XH)))))) :: ((Npos (XO (XO (XO (XO (XO XH)))))) :: ((Npos
    (XO (XO (XO (XO (XO XH)))))) :: ((Npos (XO (XO (XO (XO (XO
    XH)))))) :: ((Npos (XO (XO (XO (XO (XO
    XH)))))) :: [])))))))))))))))) :: ((CField ((Npos (XI (XO (XO (XO (XO (XI
    XH))))))) :: ((Npos (XO (XI (XO (XO (XI (XI XH))))))) :: ((Npos (XO (XI
    (XO (XO (XI (XI XH))))))) :: ((Npos (XI (XI (XI (XI (XO (XI
    XH))))))) :: ((Npos (XI (XI (XI (XO (XI (XI
    XH))))))) :: [])))))) :: ((CLit ((Npos (XO (XI (XO XH)))) :: ((Npos (XO
    (XI (XO XH)))) :: ((Npos (XO (XO (XO (XI (XO (XI XH))))))) :: ((Npos (XI
    (XO (XI (XO (XO (XI XH))))))) :: ((Npos (XO (XO (XI (XI (XO (XI
    XH))))))) :: ((Npos (XO (XO (XO (XO (XI (XI XH))))))) :: ((Npos (XO (XI
    (XO (XI (XI XH)))))) :: ((Npos (XO (XO (XO (XO (XO XH)))))) :: ((Npos (XO
    (XO (XO (XO (XI (XO XH))))))) :: ((Npos (XI (XO (XO (XO (XO (XI
    XH))))))) :: ((Npos (XO (XI (XO (XO (XI (XI XH))))))) :: ((Npos (XI (XO
    (XO (XO (XO (XI XH))))))) :: ((Npos (XI (XO (XI (XI (XO (XI
    XH))))))) :: ((Npos (XI (XO (XI (XO (XO (XI XH))))))) :: ((Npos (XO (XO
    (XI (XO (XI (XI XH))))))) :: ((Npos (XI (XO (XI (XO (XO (XI
    XH))))))) :: ((Npos (XO (XI (XO (XO (XI (XI XH))))))) :: ((Npos (XI (XI
    (XO (XO (XI (XI XH))))))) :: ((Npos (XO (XO (XO (XO (XO
    XH)))))) :: ((Npos (XI (XO (XI (XI (XO (XI XH))))))) :: ((Npos (XI (XO
    (XI (XO (XI (XI XH))))))) :: ((Npos (XI (XI (XO (XO (XI (XI
    XH))))))) :: ((Npos (XO (XO (XI (XO (XI (XI XH))))))) :: ((Npos (XO (XO
    (XO (XO (XO XH)))))) :: ((Npos (XO (XI (XO (XO (XO (XI
    XH))))))) :: ((Npos (XI (XO (XI (XO (XO (XI XH))))))) :: ((Npos (XO (XO
    (XO (XO (XO XH)))))) :: ((Npos (XI (XI (XO (XO (XI (XI
    XH))))))) :: ((Npos (XI (XO (XI (XO (XO (XI XH))))))) :: ((Npos (XO (XO
    (XO (XO (XI (XI XH))))))) :: ((Npos (XI (XO (XO (XO (XO (XI
    XH))))))) :: ((Npos (XO (XI (XO (XO (XI (XI XH))))))) :: ((Npos (XI (XO
    (XO (XO (XO (XI XH))))))) :: ((Npos (XO (XO (XI (XO (XI (XI
    XH))))))) :: ((Npos (XI (XO (XI (XO (XO (XI XH))))))) :: ((Npos (XO (XO
    (XI (XO (XO (XI XH))))))) :: ((Npos (XO (XO (XO (XO (XO
    XH)))))) :: ((Npos (XO (XI (XO (XO (XO (XI XH))))))) :: ((Npos (XI (XO
    (XO (XI (XI (XI XH))))))) :: ((Npos (XO (XO (XO (XO (XO
    XH)))))) :: ((Npos (XI (XO (XO (XO (XO (XI XH))))))) :: ((Npos (XO (XO
    (XI (XO (XI (XI XH))))))) :: ((Npos (XO (XO (XO (XO (XO
    XH)))))) :: ((Npos (XO (XO (XI (XI (XO (XI XH))))))) :: ((Npos (XI (XO
    (XI (XO (XO (XI XH))))))) :: ((Npos (XI (XO (XO (XO (XO (XI
    XH))))))) :: ((Npos (XI (XI (XO (XO (XI (XI XH))))))) :: ((Npos (XO (XO
    (XI (XO (XI (XI XH))))))) :: ((Npos (XO (XO (XO (XO (XO
    XH)))))) :: ((Npos (XI (XI (XI (XI (XO (XI XH))))))) :: ((Npos (XO (XI
    (XI (XI (XO (XI XH))))))) :: ((Npos (XI (XO (XI (XO (XO (XI
    XH))))))) :: ((Npos (XO (XO (XO (XO (XO XH)))))) :: ((Npos (XO (XO (XO
    (XO (XI (XI XH))))))) :: ((Npos (XI (XO (XO (XO (XO (XI
    XH))))))) :: ((Npos (XO (XI (XO (XO (XI (XI XH))))))) :: ((Npos (XO (XO
    (XI (XO (XI (XI XH))))))) :: ((Npos (XO (XI (XO XH)))) :: ((Npos (XO (XI
    (XO XH)))) :: ((Npos (XO (XO (XI (XO (XI (XI XH))))))) :: ((Npos (XO (XI
    (XO (XO (XI (XI XH))))))) :: ((Npos (XI (XO (XO (XI (XI (XI
    XH))))))) :: ((Npos (XO (XI (XO (XI (XI XH)))))) :: ((Npos (XO (XI (XO
    XH)))) :: ((Npos (XO (XO (XO (XO (XO XH)))))) :: ((Npos (XO (XO (XO (XO
    (XO XH)))))) :: ((Npos (XO (XO (XO (XO (XO XH)))))) :: ((Npos (XO (XO (XO
    (XO (XO XH)))))) :: ((Npos (XI (XO (XI (XI (XO XH)))))) :: ((Npos (XO (XO
    (XO (XO (XO XH)))))) :: ((Npos (XI (XO (XO (XO (XO (XO
    XH))))))) :: ((Npos (XO (XO (XI (XO (XO (XI XH))))))) :: ((Npos (XO (XO
    (XI (XO (XO (XI XH))))))) :: ((Npos (XO (XO (XO (XO (XO
    XH)))))) :: ((Npos (XI (XO (XO (XO (XO (XI XH))))))) :: ((Npos (XO (XO
    (XO (XO (XO XH)))))) :: ((Npos (XO (XO (XO (XO (XI (XI
    XH))))))) :: ((Npos (XI (XO (XO (XO (XO (XI XH))))))) :: ((Npos (XO (XI
    (XO (XO (XI (XI XH))))))) :: ((Npos (XO (XO (XI (XO (XI (XI
    XH))))))) :: ((Npos (XO (XO (XO (XO (XO XH)))))) :: ((Npos (XO (XI (XO
    (XO (XO (XI XH))))))) :: ((Npos (XI (XO (XI (XO (XO (XI
    XH))))))) :: ((Npos (XO (XO (XI (XO (XI (XI XH))))))) :: ((Npos (XI (XI
    (XI (XO (XI (XI XH))))))) :: ((Npos (XI (XO (XI (XO (XO (XI
    XH))))))) :: ((Npos (XI (XO (XI (XO (XO (XI XH))))))) :: ((Npos (XO (XI
    (XI (XI (XO (XI XH))))))) :: ((Npos (XO (XO (XO (XO (XO
    XH)))))) :: ((Npos (XO (XO (XI (XO (XI (XI XH))))))) :: ((Npos (XO (XO
    (XO (XI (XO (XI XH))))))) :: ((Npos (XI (XO (XI (XO (XO (XI
    XH))))))) :: ((Npos (XO (XO (XO (XO (XO XH)))))) :: ((Npos (XO (XO (XO
    (XO (XI (XI XH))))))) :: ((Npos (XI (XO (XO (XO (XO (XI
    XH))))))) :: ((Npos (XO (XI (XO (XO (XI (XI XH))))))) :: ((Npos (XI (XO
    (XO (XO (XO (XI XH))))))) :: ((Npos (XI (XO (XI (XI (XO (XI
    XH))))))) :: ((Npos (XI (XO (XI (XO (XO (XI XH))))))) :: ((Npos (XO (XO
    (XI (XO (XI (XI XH))))))) :: ((Npos (XI (XO (XI (XO (XO (XI
    XH))))))) :: ((Npos (XO (XI (XO (XO (XI (XI XH))))))) :: ((Npos (XI (XI
    (XO (XO (XI (XI XH))))))) :: ((Npos (XO (XI (XO XH)))) :: ((Npos (XO (XO
    (XO (XO (XO XH)))))) :: ((Npos (XO (XO (XO (XO (XO XH)))))) :: ((Npos (XO
    (XO (XO (XO (XO XH)))))) :: ((Npos (XO (XO (XO (XO (XO XH)))))) :: ((Npos
    (XI (XO (XI (XI (XO XH)))))) :: ((Npos (XO (XO (XO (XO (XO
    XH)))))) :: ((Npos (XI (XI (XO (XO (XO (XO XH))))))) :: ((Npos (XI (XI
    (XI (XI (XO (XI XH))))))) :: ((Npos (XI (XO (XI (XI (XO (XI
    XH))))))) :: ((Npos (XO (XI (XO (XO (XO (XI XH))))))) :: ((Npos (XI (XO
    (XO (XI (XO (XI XH))))))) :: ((Npos (XO (XI (XI (XI (XO (XI
    XH))))))) :: ((Npos (XI (XO (XI (XO (XO (XI XH))))))) :: ((Npos (XO (XO
    (XO (XO (XO XH)))))) :: ((Npos (XO (XO (XI (XO (XI (XI
    XH))))))) :: ((Npos (XO (XO (XO (XI (XO (XI XH))))))) :: ((Npos (XI (XO
    (XI (XO (XO (XI XH))))))) :: ((Npos (XO (XO (XO (XO (XO
    XH)))))) :: ((Npos (XO (XO (XO (XO (XI (XI XH))))))) :: ((Npos (XI (XO
    (XO (XO (XO (XI XH))))))) :: ((Npos (XO (XI (XO (XO (XI (XI
    XH))))))) :: ((Npos (XI (XO (XO (XO (XO (XI XH))))))) :: ((Npos (XI (XO
    (XI (XI (XO (XI XH))))))) :: ((Npos (XI (XO (XI (XO (XO (XI
    XH))))))) :: ((Npos (XO (XO (XI (XO (XI (XI XH))))))) :: ((Npos (XI (XO
    (XI (XO (XO (XI XH))))))) :: ((Npos (XO (XI (XO (XO (XI (XI
    XH))))))) :: ((Npos (XI (XI (XO (XO (XI (XI XH))))))) :: ((Npos (XO (XO
    (XO (XO (XO XH)))))) :: ((Npos (XI (XO (XO (XI (XO (XI
    XH))))))) :: ((Npos (XO (XI (XI (XO (XO (XI XH))))))) :: ((Npos (XO (XO
    (XO (XO (XO XH)))))) :: ((Npos (XO (XO (XI (XO (XI (XI
    XH))))))) :: ((Npos (XO (XO (XO (XI (XO (XI XH))))))) :: ((Npos (XI (XO
    (XI (XO (XO (XI XH))))))) :: ((Npos (XI (XO (XO (XI (XI (XI
    XH))))))) :: ((Npos (XO (XO (XO (XO (XO XH)))))) :: ((Npos (XO (XI (XO
    (XO (XI (XI XH))))))) :: ((Npos (XI (XO (XI (XO (XO (XI
    XH))))))) :: ((Npos (XO (XO (XO (XO (XI (XI XH))))))) :: ((Npos (XO (XI
    (XO (XO (XI (XI XH))))))) :: ((Npos (XI (XO (XI (XO (XO (XI
    XH))))))) :: ((Npos (XI (XI (XO (XO (XI (XI XH))))))) :: ((Npos (XI (XO
    (XI (XO (XO (XI XH))))))) :: ((Npos (XO (XI (XI (XI (XO (XI
    XH))))))) :: ((Npos (XO (XO (XI (XO (XI (XI XH))))))) :: ((Npos (XO (XO
    (XO (XO (XO XH)))))) :: ((Npos (XI (XO (XO (XO (XO (XI
    XH))))))) :: ((Npos (XO (XO (XO (XO (XO XH)))))) :: ((Npos (XI (XI (XO
    (XO (XI (XI XH))))))) :: ((Npos (XI (XO (XO (XI (XO (XI
    XH))))))) :: ((Npos (XO (XI (XI (XI (XO (XI XH))))))) :: ((Npos (XI (XI
    (XI (XO (XO (XI XH))))))) :: ((Npos (XO (XO (XI (XI (XO (XI
    XH))))))) :: ((Npos (XI (XO (XI (XO (XO (XI XH))))))) :: ((Npos (XO (XO
    (XO (XO (XO XH)))))) :: ((Npos (XO (XI (XI (XO (XI (XI
    XH))))))) :: ((Npos (XI (XO (XO (XO (XO (XI XH))))))) :: ((Npos (XO (XO
    (XI (XI (XO (XI XH))))))) :: ((Npos (XI (XO (XI (XO (XI (XI
    XH))))))) :: ((Npos (XI (XO (XI (XO (XO (XI
    XH))))))) :: [])))))))))))))))))))))))))))))))))))))))))))))))))))))))))))))))))))))))))))))))))))))))))))))))))))))))))))))))))))))))))))))))))))))))))))))))))))))))))))))))))))))) :: []))))

(** val arrow_TemplateError_TouchingParameters : arrow **)

let arrow_TemplateError_TouchingParameters =
  ASpacesCarets (((Npos (XI (XI (XO (XO (XI (XI XH))))))) :: ((Npos (XO (XO
    (XI (XO (XI (XI XH))))))) :: ((Npos (XI (XO (XO (XO (XO (XI
    XH))))))) :: ((Npos (XO (XI (XO (XO (XI (XI XH))))))) :: ((Npos (XO (XO
    (XI (XO (XI (XI XH))))))) :: []))))), ((Npos (XO (XO (XI (XI (XO (XI
    XH))))))) :: ((Npos (XI (XO (XI (XO (XO (XI XH))))))) :: ((Npos (XO (XI
    (XI (XI (XO (XI XH))))))) :: ((Npos (XI (XI (XI (XO (XO (XI
    XH))))))) :: ((Npos (XO (XO (XI (XO (XI (XI XH))))))) :: ((Npos (XO (XO
    (XO (XI (XO (XI XH))))))) :: [])))))))

(** val arrow_InsertError_Template : arrow **)

let arrow_InsertError_Template =
  ADelegate

(** val fmt_InsertError_Conflict : chunk list **)

let fmt_InsertError_Conflict =
  (CLit ((Npos (XI (XI (XO (XO (XO (XI XH))))))) :: ((Npos (XI (XI (XI (XI
    (XO (XI XH))))))) :: ((Npos (XO (XI (XI (XI (XO (XI XH))))))) :: ((Npos
    (XO (XI (XI (XO (XO (XI XH))))))) :: ((Npos (XO (XO (XI (XI (XO (XI
    XH))))))) :: ((Npos (XI (XO (XO (XI (XO (XI XH))))))) :: ((Npos (XI (XI
    (XO (XO (XO (XI XH))))))) :: ((Npos (XO (XO (XI (XO (XI (XI
    XH))))))) :: ((Npos (XI (XI (XO (XO (XI (XI XH))))))) :: ((Npos (XO (XO
    (XO (XO (XO XH)))))) :: ((Npos (XO (XO (XI (XO (XO (XI
    XH))))))) :: ((Npos (XI (XO (XI (XO (XO (XI XH))))))) :: ((Npos (XO (XO
    (XI (XO (XI (XI XH))))))) :: ((Npos (XI (XO (XI (XO (XO (XI
    XH))))))) :: ((Npos (XI (XI (XO (XO (XO (XI XH))))))) :: ((Npos (XO (XO
    (XI (XO (XI (XI XH))))))) :: ((Npos (XI (XO (XI (XO (XO (XI
    XH))))))) :: ((Npos (XO (XO (XI (XO (XO (XI XH))))))) :: ((Npos (XO (XI
    (XO XH)))) :: ((Npos (XO (XI (XO XH)))) :: ((Npos (XO (XO (XO (XO (XO
    XH)))))) :: ((Npos (XO (XO (XO (XO (XO XH)))))) :: ((Npos (XO (XO (XO (XO
    (XO XH)))))) :: ((Npos (XO (XO (XO (XO (XO XH)))))) :: ((Npos (XO (XO (XI
    (XO (XI (XO XH))))))) :: ((Npos (XI (XO (XI (XO (XO (XI
    XH))))))) :: ((Npos (XI (XO (XI (XI (XO (XI XH))))))) :: ((Npos (XO (XO
    (XO (XO (XI (XI XH))))))) :: ((Npos (XO (XO (XI (XI (XO (XI
    XH))))))) :: ((Npos (XI (XO (XO (XO (XO (XI XH))))))) :: ((Npos (XO (XO
    (XI (XO (XI (XI XH))))))) :: ((Npos (XI (XO (XI (XO (XO (XI
    XH))))))) :: ((Npos (XO (XI (XO (XI (XI XH)))))) :: ((Npos (XO (XO (XO
    (XO (XO XH)))))) :: []))))))))))))))))))))))))))))))))))) :: ((CField
    ((Npos (XO (XO (XI (XO (XI (XI XH))))))) :: ((Npos (XI (XO (XI (XO (XO
    (XI XH))))))) :: ((Npos (XI (XO (XI (XI (XO (XI XH))))))) :: ((Npos (XO
    (XO (XO (XO (XI (XI XH))))))) :: ((Npos (XO (XO (XI (XI (XO (XI
    XH))))))) :: ((Npos (XI (XO (XO (XO (XO (XI XH))))))) :: ((Npos (XO (XO
    (XI (XO (XI (XI XH))))))) :: ((Npos (XI (XO (XI (XO (XO (XI
    XH))))))) :: []))))))))) :: ((CLit ((Npos (XO (XI (XO XH)))) :: ((Npos
    (XO (XO (XO (XO (XO XH)))))) :: ((Npos (XO (XO (XO (XO (XO
    XH)))))) :: ((Npos (XO (XO (XO (XO (XO XH)))))) :: ((Npos (XO (XO (XO (XO
    (XO XH)))))) :: ((Npos (XI (XI (XO (XO (XO (XO XH))))))) :: ((Npos (XI
    (XI (XI (XI (XO (XI XH))))))) :: ((Npos (XO (XI (XI (XI (XO (XI
    XH))))))) :: ((Npos (XO (XI (XI (XO (XO (XI XH))))))) :: ((Npos (XO (XO
    (XI (XI (XO (XI XH))))))) :: ((Npos (XI (XO (XO (XI (XO (XI
    XH))))))) :: ((Npos (XI (XI (XO (XO (XO (XI XH))))))) :: ((Npos (XO (XO
    (XI (XO (XI (XI XH))))))) :: ((Npos (XI (XI (XO (XO (XI (XI
    XH))))))) :: ((Npos (XO (XI (XO (XI (XI XH)))))) :: ((Npos (XO (XI (XO
    XH)))) :: []))))))))))))))))) :: ((CField ((Npos (XI (XI (XO (XO (XO (XI
    XH))))))) :: ((Npos (XI (XI (XI (XI (XO (XI XH))))))) :: ((Npos (XO (XI
    (XI (XI (XO (XI XH))))))) :: ((Npos (XO (XI (XI (XO (XO (XI
    XH))))))) :: ((Npos (XO (XO (XI (XI (XO (XI XH))))))) :: ((Npos (XI (XO
    (XO (XI (XO (XI XH))))))) :: ((Npos (XI (XI (XO (XO (XO (XI
    XH))))))) :: ((Npos (XO (XO (XI (XO (XI (XI XH))))))) :: ((Npos (XI (XI
    (XO (XO (XI (XI XH))))))) :: [])))))))))) :: ((CLit ((Npos (XO (XI (XO
    XH)))) :: ((Npos (XO (XI (XO XH)))) :: ((Npos (XO (XO (XO (XI (XO (XI
    XH))))))) :: ((Npos (XI (XO (XI (XO (XO (XI XH))))))) :: ((Npos (XO (XO
    (XI (XI (XO (XI XH))))))) :: ((Npos (XO (XO (XO (XO (XI (XI
    XH))))))) :: ((Npos (XO (XI (XO (XI (XI XH)))))) :: ((Npos (XO (XO (XO
    (XO (XO XH)))))) :: ((Npos (XO (XO (XI (XO (XI (XO XH))))))) :: ((Npos
    (XI (XO (XI (XO (XO (XI XH))))))) :: ((Npos (XI (XO (XI (XI (XO (XI
    XH))))))) :: ((Npos (XO (XO (XO (XO (XI (XI XH))))))) :: ((Npos (XO (XO
    (XI (XI (XO (XI XH))))))) :: ((Npos (XI (XO (XO (XO (XO (XI
    XH))))))) :: ((Npos (XO (XO (XI (XO (XI (XI XH))))))) :: ((Npos (XI (XO
    (XI (XO (XO (XI XH))))))) :: ((Npos (XI (XI (XO (XO (XI (XI
    XH))))))) :: ((Npos (XO (XO (XO (XO (XO XH)))))) :: ((Npos (XI (XI (XO
    (XO (XO (XI XH))))))) :: ((Npos (XI (XO (XO (XO (XO (XI
    XH))))))) :: ((Npos (XO (XI (XI (XI (XO (XI XH))))))) :: ((Npos (XO (XI
    (XI (XI (XO (XI XH))))))) :: ((Npos (XI (XI (XI (XI (XO (XI
    XH))))))) :: ((Npos (XO (XO (XI (XO (XI (XI XH))))))) :: ((Npos (XO (XO
    (XO (XO (XO XH)))))) :: ((Npos (XI (XI (XI (XI (XO (XI
    XH))))))) :: ((Npos (XO (XI (XI (XO (XI (XI XH))))))) :: ((Npos (XI (XO
    (XI (XO (XO (XI XH))))))) :: ((Npos (XO (XI (XO (XO (XI (XI
    XH))))))) :: ((Npos (XO (XO (XI (XI (XO (XI XH))))))) :: ((Npos (XI (XO
    (XO (XO (XO (XI XH))))))) :: ((Npos (XO (XO (XO (XO (XI (XI
    XH))))))) :: ((Npos (XO (XO (XO (XO (XO XH)))))) :: ((Npos (XI (XI (XI
    (XO (XI (XI XH))))))) :: ((Npos (XI (XO (XO (XI (XO (XI
    XH))))))) :: ((Npos (XO (XO (XI (XO (XI (XI XH))))))) :: ((Npos (XO (XO
    (XO (XI (XO (XI XH))))))) :: ((Npos (XO (XO (XO (XO (XO
    XH)))))) :: ((Npos (XI (XO (XI (XO (XO (XI XH))))))) :: ((Npos (XO (XO
    (XO (XI (XI (XI XH))))))) :: ((Npos (XI (XO (XO (XI (XO (XI
    XH))))))) :: ((Npos (XI (XI (XO (XO (XI (XI XH))))))) :: ((Npos (XO (XO
    (XI (XO (XI (XI XH))))))) :: ((Npos (XI (XO (XO (XI (XO (XI
    XH))))))) :: ((Npos (XO (XI (XI (XI (XO (XI XH))))))) :: ((Npos (XI (XI
    (XI (XO (XO (XI XH))))))) :: ((Npos (XO (XO (XO (XO (XO
    XH)))))) :: ((Npos (XO (XO (XI (XO (XI (XI XH))))))) :: ((Npos (XI (XO
    (XI (XO (XO (XI XH))))))) :: ((Npos (XI (XO (XI (XI (XO (XI
    XH))))))) :: ((Npos (XO (XO (XO (XO (XI (XI XH))))))) :: ((Npos (XO (XO
    (XI (XI (XO (XI XH))))))) :: ((Npos (XI (XO (XO (XO (XO (XI
    XH))))))) :: ((Npos (XO (XO (XI (XO (XI (XI XH))))))) :: ((Npos (XI (XO
    (XI (XO (XO (XI XH))))))) :: ((Npos (XI (XI (XO (XO (XI (XI
    XH))))))) :: ((Npos (XO (XI (XO XH)))) :: ((Npos (XO (XI (XO
    XH)))) :: ((Npos (XO (XO (XI (XO (XI (XI XH))))))) :: ((Npos (XO (XI (XO
    (XO (XI (XI XH))))))) :: ((Npos (XI (XO (XO (XI (XI (XI
    XH))))))) :: ((Npos (XO (XI (XO (XI (XI XH)))))) :: ((Npos (XO (XI (XO
    XH)))) :: ((Npos (XO (XO (XO (XO (XO XH)))))) :: ((Npos (XO (XO (XO (XO
    (XO XH)))))) :: ((Npos (XO (XO (XO (XO (XO XH)))))) :: ((Npos (XO (XO (XO
    (XO (XO XH)))))) :: ((Npos (XI (XO (XI (XI (XO XH)))))) :: ((Npos (XO (XO
    (XO (XO (XO XH)))))) :: ((Npos (XI (XO (XI (XI (XO (XO
    XH))))))) :: ((Npos (XI (XI (XI (XI (XO (XI XH))))))) :: ((Npos (XO (XO
    (XI (XO (XO (XI XH))))))) :: ((Npos (XI (XO (XO (XI (XO (XI
    XH))))))) :: ((Npos (XO (XI (XI (XO (XO (XI XH))))))) :: ((Npos (XI (XO
    (XO (XI (XI (XI XH))))))) :: ((Npos (XO (XO (XO (XO (XO
    XH)))))) :: ((Npos (XO (XO (XI (XO (XI (XI XH))))))) :: ((Npos (XO (XO
    (XO (XI (XO (XI XH))))))) :: ((Npos (XI (XO (XI (XO (XO (XI
    XH))))))) :: ((Npos (XO (XO (XO (XO (XO XH)))))) :: ((Npos (XO (XO (XI
    (XO (XI (XI XH))))))) :: ((Npos (XI (XO (XI (XO (XO (XI
    XH))))))) :: ((Npos (XI (XO (XI (XI (XO (XI XH))))))) :: ((Npos (XO (XO
    (XO (XO (XI (XI XH))))))) :: ((Npos (XO (XO (XI (XI (XO (XI
    XH))))))) :: ((Npos (XI (XO (XO (XO (XO (XI XH))))))) :: ((Npos (XO (XO
    (XI (XO (XI (XI XH))))))) :: ((Npos (XI (XO (XI (XO (XO (XI
    XH))))))) :: ((Npos (XO (XO (XO (XO (XO XH)))))) :: ((Npos (XO (XO (XI
    (XO (XI (XI XH))))))) :: ((Npos (XI (XI (XI (XI (XO (XI
    XH))))))) :: ((Npos (XO (XO (XO (XO (XO XH)))))) :: ((Npos (XO (XI (XO
    (XO (XO (XI XH))))))) :: ((Npos (XI (XO (XI (XO (XO (XI
    XH))))))) :: ((Npos (XO (XO (XO (XO (XO XH)))))) :: ((Npos (XI (XO (XI
    (XI (XO (XI XH))))))) :: ((Npos (XI (XI (XI (XI (XO (XI
    XH))))))) :: ((Npos (XO (XI (XO (XO (XI (XI XH))))))) :: ((Npos (XI (XO
    (XI (XO (XO (XI XH))))))) :: ((Npos (XO (XO (XO (XO (XO
    XH)))))) :: ((Npos (XI (XI (XO (XO (XI (XI XH))))))) :: ((Npos (XO (XO
    (XO (XO (XI (XI XH))))))) :: ((Npos (XI (XO (XI (XO (XO (XI
    XH))))))) :: ((Npos (XI (XI (XO (XO (XO (XI XH))))))) :: ((Npos (XI (XO
    (XO (XI (XO (XI XH))))))) :: ((Npos (XO (XI (XI (XO (XO (XI
    XH))))))) :: ((Npos (XI (XO (XO (XI (XO (XI XH))))))) :: ((Npos (XI (XI
    (XO (XO (XO (XI XH))))))) :: ((Npos (XO (XI (XO XH)))) :: ((Npos (XO (XO
    (XO (XO (XO XH)))))) :: ((Npos (XO (XO (XO (XO (XO XH)))))) :: ((Npos (XO
    (XO (XO (XO (XO XH)))))) :: ((Npos (XO (XO (XO (XO (XO XH)))))) :: ((Npos
    (XI (XO (XI (XI (XO XH)))))) :: ((Npos (XO (XO (XO (XO (XO
    XH)))))) :: ((Npos (XI (XO (XI (XO (XI (XO XH))))))) :: ((Npos (XI (XI
    (XO (XO (XI (XI XH))))))) :: ((Npos (XI (XO (XI (XO (XO (XI
    XH))))))) :: ((Npos (XO (XO (XO (XO (XO XH)))))) :: ((Npos (XI (XO (XO
    (XO (XO (XI XH))))))) :: ((Npos (XO (XO (XO (XO (XO XH)))))) :: ((Npos
    (XI (XI (XO (XO (XO (XI XH))))))) :: ((Npos (XI (XI (XI (XI (XO (XI
    XH))))))) :: ((Npos (XO (XI (XI (XI (XO (XI XH))))))) :: ((Npos (XI (XI
    (XO (XO (XI (XI XH))))))) :: ((Npos (XO (XO (XI (XO (XI (XI
    XH))))))) :: ((Npos (XO (XI (XO (XO (XI (XI XH))))))) :: ((Npos (XI (XO
    (XO (XO (XO (XI XH))))))) :: ((Npos (XI (XO (XO (XI (XO (XI
    XH))))))) :: ((Npos (XO (XI (XI (XI (XO (XI XH))))))) :: ((Npos (XO (XO
    (XI (XO (XI (XI XH))))))) :: ((Npos (XO (XO (XO (XO (XO
    XH)))))) :: ((Npos (XO (XO (XI (XO (XI (XI XH))))))) :: ((Npos (XI (XI
    (XI (XI (XO (XI XH))))))) :: ((Npos (XO (XO (XO (XO (XO
    XH)))))) :: ((Npos (XO (XO (XI (XO (XO (XI XH))))))) :: ((Npos (XI (XO
    (XO (XI (XO (XI XH))))))) :: ((Npos (XI (XI (XO (XO (XI (XI
    XH))))))) :: ((Npos (XI (XO (XO (XO (XO (XI XH))))))) :: ((Npos (XI (XO
    (XI (XI (XO (XI XH))))))) :: ((Npos (XO (XI (XO (XO (XO (XI
    XH))))))) :: ((Npos (XI (XO (XO (XI (XO (XI XH))))))) :: ((Npos (XI (XI
    (XI (XO (XO (XI XH))))))) :: ((Npos (XI (XO (XI (XO (XI (XI
    XH))))))) :: ((Npos (XI (XO (XO (XO (XO (XI XH))))))) :: ((Npos (XO (XO
    (XI (XO (XI (XI XH))))))) :: ((Npos (XI (XO (XI (XO (XO (XI
    XH))))))) :: ((Npos (XO (XO (XO (XO (XO XH)))))) :: ((Npos (XO (XO (XI
    (XO (XI (XI XH))))))) :: ((Npos (XO (XO (XO (XI (XO (XI
    XH))))))) :: ((Npos (XI (XO (XI (XO (XO (XI XH))))))) :: ((Npos (XO (XO
    (XO (XO (XO XH)))))) :: ((Npos (XO (XO (XI (XO (XI (XI
    XH))))))) :: ((Npos (XI (XO (XI (XO (XO (XI XH))))))) :: ((Npos (XI (XO
    (XI (XI (XO (XI XH))))))) :: ((Npos (XO (XO (XO (XO (XI (XI
    XH))))))) :: ((Npos (XO (XO (XI (XI (XO (XI XH))))))) :: ((Npos (XI (XO
    (XO (XO (XO (XI XH))))))) :: ((Npos (XO (XO (XI (XO (XI (XI
    XH))))))) :: ((Npos (XI (XO (XI (XO (XO (XI XH))))))) :: ((Npos (XO (XI
    (XO XH)))) :: ((Npos (XO (XO (XO (XO (XO XH)))))) :: ((Npos (XO (XO (XO
    (XO (XO XH)))))) :: ((Npos (XO (XO (XO (XO (XO XH)))))) :: ((Npos (XO (XO
    (XO (XO (XO XH)))))) :: ((Npos (XI (XO (XI (XI (XO XH)))))) :: ((Npos (XO
    (XO (XO (XO (XO XH)))))) :: ((Npos (XO (XI (XO (XO (XI (XO
    XH))))))) :: ((Npos (XI (XO (XI (XO (XO (XI XH))))))) :: ((Npos (XI (XO
    (XI (XI (XO (XI XH))))))) :: ((Npos (XI (XI (XI (XI (XO (XI
    XH))))))) :: ((Npos (XO (XI (XI (XO (XI (XI XH))))))) :: ((Npos (XI (XO
    (XI (XO (XO (XI XH))))))) :: ((Npos (XO (XO (XO (XO (XO
    XH)))))) :: ((Npos (XI (XI (XO (XO (XO (XI XH))))))) :: ((Npos (XI (XI
    (XI (XI (XO (XI XH))))))) :: ((Npos (XO (XI (XI (XI (XO (XI
    XH))))))) :: ((Npos (XO (XI (XI (XO (XO (XI XH))))))) :: ((Npos (XO (XO
    (XI (XI (XO (XI XH))))))) :: ((Npos (XI (XO (XO (XI (XO (XI
    XH))))))) :: ((Npos (XI (XI (XO (XO (XO (XI XH))))))) :: ((Npos (XO (XO
    (XI (XO (XI (XI XH))))))) :: ((Npos (XI (XO (XO (XI (XO (XI
    XH))))))) :: ((Npos (XO (XI (XI (XI (XO (XI XH))))))) :: ((Npos (XI (XI
    (XI (XO (XO (XI XH))))))) :: ((Npos (XO (XO (XO (XO (XO
    XH)))))) :: ((Npos (XO (XO (XI (XO (XI (XI XH))))))) :: ((Npos (XI (XO
    (XI (XO (XO (XI XH))))))) :: ((Npos (XI (XO (XI (XI (XO (XI
    XH))))))) :: ((Npos (XO (XO (XO (XO (XI (XI XH))))))) :: ((Npos (XO (XO
    (XI (XI (XO (XI XH))))))) :: ((Npos (XI (XO (XO (XO (XO (XI
    XH))))))) :: ((Npos (XO (XO (XI (XO (XI (XI XH))))))) :: ((Npos (XI (XO
    (XI (XO (XO (XI XH))))))) :: ((Npos (XI (XI (XO (XO (XI (XI
    XH))))))) :: [])))))))))))))))))))))))))))))))))))))))))))))))))))))))))))))))))))))))))))))))))))))))))))))))))))))))))))))))))))))))))))))))))))))))))))))))))))))))))))))))))))))))))))))))))))))))))))))))))))) :: []))))

(** val arrow_InsertError_Conflict : arrow **)

let arrow_InsertError_Conflict =
  AConflictList (S (S (S (S (S (S (S (S O))))))))

(** val fmt_InsertError_UnknownConstraint : chunk list **)

let fmt_InsertError_UnknownConstraint =
  (CLit ((Npos (XI (XO (XI (XO (XI (XI XH))))))) :: ((Npos (XO (XI (XI (XI
    (XO (XI XH))))))) :: ((Npos (XI (XI (XO (XI (XO (XI XH))))))) :: ((Npos
    (XO (XI (XI (XI (XO (XI XH))))))) :: ((Npos (XI (XI (XI (XI (XO (XI
    XH))))))) :: ((Npos (XI (XI (XI (XO (XI (XI XH))))))) :: ((Npos (XO (XI
    (XI (XI (XO (XI XH))))))) :: ((Npos (XO (XO (XO (XO (XO
    XH)))))) :: ((Npos (XI (XI (XO (XO (XO (XI XH))))))) :: ((Npos (XI (XI
    (XI (XI (XO (XI XH))))))) :: ((Npos (XO (XI (XI (XI (XO (XI
    XH))))))) :: ((Npos (XI (XI (XO (XO (XI (XI XH))))))) :: ((Npos (XO (XO
    (XI (XO (XI (XI XH))))))) :: ((Npos (XO (XI (XO (XO (XI (XI
    XH))))))) :: ((Npos (XI (XO (XO (XO (XO (XI XH))))))) :: ((Npos (XI (XO
    (XO (XI (XO (XI XH))))))) :: ((Npos (XO (XI (XI (XI (XO (XI
    XH))))))) :: ((Npos (XO (XO (XI (XO (XI (XI XH))))))) :: ((Npos (XO (XI
    (XO XH)))) :: ((Npos (XO (XI (XO XH)))) :: ((Npos (XO (XO (XO (XO (XO
    XH)))))) :: ((Npos (XO (XO (XO (XO (XO XH)))))) :: ((Npos (XO (XO (XO (XO
    (XO XH)))))) :: ((Npos (XO (XO (XO (XO (XO XH)))))) :: ((Npos (XI (XI (XO
    (XO (XO (XO XH))))))) :: ((Npos (XI (XI (XI (XI (XO (XI
    XH))))))) :: ((Npos (XO (XI (XI (XI (XO (XI XH))))))) :: ((Npos (XI (XI
    (XO (XO (XI (XI XH))))))) :: ((Npos (XO (XO (XI (XO (XI (XI
    XH))))))) :: ((Npos (XO (XI (XO (XO (XI (XI XH))))))) :: ((Npos (XI (XO
    (XO (XO (XO (XI XH))))))) :: ((Npos (XI (XO (XO (XI (XO (XI
    XH))))))) :: ((Npos (XO (XI (XI (XI (XO (XI XH))))))) :: ((Npos (XO (XO
    (XI (XO (XI (XI XH))))))) :: ((Npos (XO (XI (XO (XI (XI
    XH)))))) :: ((Npos (XO (XO (XO (XO (XO
    XH)))))) :: []))))))))))))))))))))))))))))))))))))) :: ((CField ((Npos
    (XI (XI (XO (XO (XO (XI XH))))))) :: ((Npos (XI (XI (XI (XI (XO (XI
    XH))))))) :: ((Npos (XO (XI (XI (XI (XO (XI XH))))))) :: ((Npos (XI (XI
    (XO (XO (XI (XI XH))))))) :: ((Npos (XO (XO (XI (XO (XI (XI
    XH))))))) :: ((Npos (XO (XI (XO (XO (XI (XI XH))))))) :: ((Npos (XI (XO
    (XO (XO (XO (XI XH))))))) :: ((Npos (XI (XO (XO (XI (XO (XI
    XH))))))) :: ((Npos (XO (XI (XI (XI (XO (XI XH))))))) :: ((Npos (XO (XO
    (XI (XO (XI (XI XH))))))) :: []))))))))))) :: ((CLit ((Npos (XO (XI (XO
    XH)))) :: ((Npos (XO (XI (XO XH)))) :: ((Npos (XO (XO (XO (XI (XO (XI
    XH))))))) :: ((Npos (XI (XO (XI (XO (XO (XI XH))))))) :: ((Npos (XO (XO
    (XI (XI (XO (XI XH))))))) :: ((Npos (XO (XO (XO (XO (XI (XI
    XH))))))) :: ((Npos (XO (XI (XO (XI (XI XH)))))) :: ((Npos (XO (XO (XO
    (XO (XO XH)))))) :: ((Npos (XO (XO (XI (XO (XI (XO XH))))))) :: ((Npos
    (XO (XO (XO (XI (XO (XI XH))))))) :: ((Npos (XI (XO (XI (XO (XO (XI
    XH))))))) :: ((Npos (XO (XO (XO (XO (XO XH)))))) :: ((Npos (XO (XI (XO
    (XO (XI (XI XH))))))) :: ((Npos (XI (XI (XI (XI (XO (XI
    XH))))))) :: ((Npos (XI (XO (XI (XO (XI (XI XH))))))) :: ((Npos (XO (XO
    (XI (XO (XI (XI XH))))))) :: ((Npos (XI (XO (XI (XO (XO (XI
    XH))))))) :: ((Npos (XO (XI (XO (XO (XI (XI XH))))))) :: ((Npos (XO (XO
    (XO (XO (XO XH)))))) :: ((Npos (XI (XO (XI (XI (XO (XI
    XH))))))) :: ((Npos (XI (XO (XI (XO (XI (XI XH))))))) :: ((Npos (XI (XI
    (XO (XO (XI (XI XH))))))) :: ((Npos (XO (XO (XI (XO (XI (XI
    XH))))))) :: ((Npos (XO (XO (XO (XO (XO XH)))))) :: ((Npos (XO (XI (XO
    (XO (XO (XI XH))))))) :: ((Npos (XI (XO (XI (XO (XO (XI
    XH))))))) :: ((Npos (XO (XO (XO (XO (XO XH)))))) :: ((Npos (XI (XI (XO
    (XO (XO (XI XH))))))) :: ((Npos (XI (XI (XI (XI (XO (XI
    XH))))))) :: ((Npos (XO (XI (XI (XI (XO (XI XH))))))) :: ((Npos (XO (XI
    (XI (XO (XO (XI XH))))))) :: ((Npos (XI (XO (XO (XI (XO (XI
    XH))))))) :: ((Npos (XI (XI (XI (XO (XO (XI XH))))))) :: ((Npos (XI (XO
    (XI (XO (XI (XI XH))))))) :: ((Npos (XO (XI (XO (XO (XI (XI
    XH))))))) :: ((Npos (XI (XO (XI (XO (XO (XI XH))))))) :: ((Npos (XO (XO
    (XI (XO (XO (XI XH))))))) :: ((Npos (XO (XO (XO (XO (XO
    XH)))))) :: ((Npos (XI (XI (XI (XO (XI (XI XH))))))) :: ((Npos (XI (XO
    (XO (XI (XO (XI XH))))))) :: ((Npos (XO (XO (XI (XO (XI (XI
    XH))))))) :: ((Npos (XO (XO (XO (XI (XO (XI XH))))))) :: ((Npos (XO (XO
    (XO (XO (XO XH)))))) :: ((Npos (XO (XO (XI (XO (XI (XI
    XH))))))) :: ((Npos (XO (XO (XO (XI (XO (XI XH))))))) :: ((Npos (XI (XO
    (XO (XI (XO (XI XH))))))) :: ((Npos (XI (XI (XO (XO (XI (XI
    XH))))))) :: ((Npos (XO (XO (XO (XO (XO XH)))))) :: ((Npos (XI (XI (XO
    (XO (XO (XI XH))))))) :: ((Npos (XI (XI (XI (XI (XO (XI
    XH))))))) :: ((Npos (XO (XI (XI (XI (XO (XI XH))))))) :: ((Npos (XI (XI
    (XO (XO (XI (XI XH))))))) :: ((Npos (XO (XO (XI (XO (XI (XI
    XH))))))) :: ((Npos (XO (XI (XO (XO (XI (XI XH))))))) :: ((Npos (XI (XO
    (XO (XO (XO (XI XH))))))) :: ((Npos (XI (XO (XO (XI (XO (XI
    XH))))))) :: ((Npos (XO (XI (XI (XI (XO (XI XH))))))) :: ((Npos (XO (XO
    (XI (XO (XI (XI XH))))))) :: ((Npos (XO (XO (XO (XO (XO
    XH)))))) :: ((Npos (XO (XI (XO (XO (XO (XI XH))))))) :: ((Npos (XI (XO
    (XI (XO (XO (XI XH))))))) :: ((Npos (XO (XI (XI (XO (XO (XI
    XH))))))) :: ((Npos (XI (XI (XI (XI (XO (XI XH))))))) :: ((Npos (XO (XI
    (XO (XO (XI (XI XH))))))) :: ((Npos (XI (XO (XI (XO (XO (XI
    XH))))))) :: ((Npos (XO (XO (XO (XO (XO XH)))))) :: ((Npos (XI (XO (XI
    (XO (XI (XI XH))))))) :: ((Npos (XI (XI (XO (XO (XI (XI
    XH))))))) :: ((Npos (XI (XO (XI (XO (XO (XI XH))))))) :: ((Npos (XO (XI
    (XO XH)))) :: ((Npos (XO (XI (XO XH)))) :: ((Npos (XO (XO (XI (XO (XI (XI
    XH))))))) :: ((Npos (XO (XI (XO (XO (XI (XI XH))))))) :: ((Npos (XI (XO
    (XO (XI (XI (XI XH))))))) :: ((Npos (XO (XI (XO (XI (XI
    XH)))))) :: ((Npos (XO (XI (XO XH)))) :: ((Npos (XO (XO (XO (XO (XO
    XH)))))) :: ((Npos (XO (XO (XO (XO (XO XH)))))) :: ((Npos (XO (XO (XO (XO
    (XO XH)))))) :: ((Npos (XO (XO (XO (XO (XO XH)))))) :: ((Npos (XI (XO (XI
    (XI (XO XH)))))) :: ((Npos (XO (XO (XO (XO (XO XH)))))) :: ((Npos (XO (XI
    (XO (XO (XI (XO XH))))))) :: ((Npos (XI (XO (XI (XO (XO (XI
    XH))))))) :: ((Npos (XI (XI (XI (XO (XO (XI XH))))))) :: ((Npos (XI (XO
    (XO (XI (XO (XI XH))))))) :: ((Npos (XI (XI (XO (XO (XI (XI
    XH))))))) :: ((Npos (XO (XO (XI (XO (XI (XI XH))))))) :: ((Npos (XI (XO
    (XI (XO (XO (XI XH))))))) :: ((Npos (XO (XI (XO (XO (XI (XI
    XH))))))) :: ((Npos (XO (XO (XO (XO (XO XH)))))) :: ((Npos (XO (XO (XI
    (XO (XI (XI XH))))))) :: ((Npos (XO (XO (XO (XI (XO (XI
    XH))))))) :: ((Npos (XI (XO (XI (XO (XO (XI XH))))))) :: ((Npos (XO (XO
    (XO (XO (XO XH)))))) :: ((Npos (XI (XI (XO (XO (XO (XI
    XH))))))) :: ((Npos (XI (XI (XI (XI (XO (XI XH))))))) :: ((Npos (XO (XI
    (XI (XI (XO (XI XH))))))) :: ((Npos (XI (XI (XO (XO (XI (XI
    XH))))))) :: ((Npos (XO (XO (XI (XO (XI (XI XH))))))) :: ((Npos (XO (XI
    (XO (XO (XI (XI XH))))))) :: ((Npos (XI (XO (XO (XO (XO (XI
    XH))))))) :: ((Npos (XI (XO (XO (XI (XO (XI XH))))))) :: ((Npos (XO (XI
    (XI (XI (XO (XI XH))))))) :: ((Npos (XO (XO (XI (XO (XI (XI
    XH))))))) :: ((Npos (XO (XO (XO (XO (XO XH)))))) :: ((Npos (XI (XI (XI
    (XO (XI (XI XH))))))) :: ((Npos (XI (XO (XO (XI (XO (XI
    XH))))))) :: ((Npos (XO (XO (XI (XO (XI (XI XH))))))) :: ((Npos (XO (XO
    (XO (XI (XO (XI XH))))))) :: ((Npos (XO (XO (XO (XO (XO
    XH)))))) :: ((Npos (XO (XO (XI (XO (XI (XI XH))))))) :: ((Npos (XO (XO
    (XO (XI (XO (XI XH))))))) :: ((Npos (XI (XO (XI (XO (XO (XI
    XH))))))) :: ((Npos (XO (XO (XO (XO (XO XH)))))) :: ((Npos (XO (XI (XO
    (XO (XI (XI XH))))))) :: ((Npos (XI (XI (XI (XI (XO (XI
    XH))))))) :: ((Npos (XI (XO (XI (XO (XI (XI XH))))))) :: ((Npos (XO (XO
    (XI (XO (XI (XI XH))))))) :: ((Npos (XI (XO (XI (XO (XO (XI
    XH))))))) :: ((Npos (XO (XI (XO (XO (XI (XI XH))))))) :: ((Npos (XO (XI
    (XO XH)))) :: ((Npos (XO (XO (XO (XO (XO XH)))))) :: ((Npos (XO (XO (XO
    (XO (XO XH)))))) :: ((Npos (XO (XO (XO (XO (XO XH)))))) :: ((Npos (XO (XO
    (XO (XO (XO XH)))))) :: ((Npos (XI (XO (XI (XI (XO XH)))))) :: ((Npos (XO
    (XO (XO (XO (XO XH)))))) :: ((Npos (XI (XI (XO (XO (XO (XO
    XH))))))) :: ((Npos (XO (XO (XO (XI (XO (XI XH))))))) :: ((Npos (XI (XO
    (XI (XO (XO (XI XH))))))) :: ((Npos (XI (XI (XO (XO (XO (XI
    XH))))))) :: ((Npos (XI (XI (XO (XI (XO (XI XH))))))) :: ((Npos (XO (XO
    (XO (XO (XO XH)))))) :: ((Npos (XO (XI (XI (XO (XO (XI
    XH))))))) :: ((Npos (XI (XI (XI (XI (XO (XI XH))))))) :: ((Npos (XO (XI
    (XO (XO (XI (XI XH))))))) :: ((Npos (XO (XO (XO (XO (XO
    XH)))))) :: ((Npos (XO (XO (XI (XO (XI (XI XH))))))) :: ((Npos (XI (XO
    (XO (XI (XI (XI XH))))))) :: ((Npos (XO (XO (XO (XO (XI (XI
    XH))))))) :: ((Npos (XI (XI (XI (XI (XO (XI XH))))))) :: ((Npos (XI (XI
    (XO (XO (XI (XI XH))))))) :: ((Npos (XO (XO (XO (XO (XO
    XH)))))) :: ((Npos (XI (XO (XO (XI (XO (XI XH))))))) :: ((Npos (XO (XI
    (XI (XI (XO (XI XH))))))) :: ((Npos (XO (XO (XO (XO (XO
    XH)))))) :: ((Npos (XO (XO (XI (XO (XI (XI XH))))))) :: ((Npos (XO (XO
    (XO (XI (XO (XI XH))))))) :: ((Npos (XI (XO (XI (XO (XO (XI
    XH))))))) :: ((Npos (XO (XO (XO (XO (XO XH)))))) :: ((Npos (XI (XI (XO
    (XO (XO (XI XH))))))) :: ((Npos (XI (XI (XI (XI (XO (XI
    XH))))))) :: ((Npos (XO (XI (XI (XI (XO (XI XH))))))) :: ((Npos (XI (XI
    (XO (XO (XI (XI XH))))))) :: ((Npos (XO (XO (XI (XO (XI (XI
    XH))))))) :: ((Npos (XO (XI (XO (XO (XI (XI XH))))))) :: ((Npos (XI (XO
    (XO (XO (XO (XI XH))))))) :: ((Npos (XI (XO (XO (XI (XO (XI
    XH))))))) :: ((Npos (XO (XI (XI (XI (XO (XI XH))))))) :: ((Npos (XO (XO
    (XI (XO (XI (XI XH))))))) :: ((Npos (XO (XO (XO (XO (XO
    XH)))))) :: ((Npos (XO (XI (XI (XI (XO (XI XH))))))) :: ((Npos (XI (XO
    (XO (XO (XO (XI XH))))))) :: ((Npos (XI (XO (XI (XI (XO (XI
    XH))))))) :: ((Npos (XI (XO (XI (XO (XO (XI
    XH))))))) :: []))))))))))))))))))))))))))))))))))))))))))))))))))))))))))))))))))))))))))))))))))))))))))))))))))))))))))))))))))))))))))))))))))))))))))))))))))))))))))))))))))))))) :: []))

(** val arrow_InsertError_UnknownConstraint : arrow **)

let arrow_InsertError_UnknownConstraint =
  ANone

(** val arrow_DeleteError_Template : arrow **)

let arrow_DeleteError_Template =
  ADelegate

(** val fmt_DeleteError_NotFound : chunk list **)

let fmt_DeleteError_NotFound =
  (CLit ((Npos (XO (XI (XI (XI (XO (XI XH))))))) :: ((Npos (XI (XI (XI (XI
    (XO (XI XH))))))) :: ((Npos (XO (XO (XI (XO (XI (XI XH))))))) :: ((Npos
    (XO (XO (XO (XO (XO XH)))))) :: ((Npos (XO (XI (XI (XO (XO (XI
    XH))))))) :: ((Npos (XI (XI (XI (XI (XO (XI XH))))))) :: ((Npos (XI (XO
    (XI (XO (XI (XI XH))))))) :: ((Npos (XO (XI (XI (XI (XO (XI
    XH))))))) :: ((Npos (XO (XO (XI (XO (XO (XI XH))))))) :: ((Npos (XO (XI
    (XO XH)))) :: ((Npos (XO (XI (XO XH)))) :: ((Npos (XO (XO (XO (XO (XO
    XH)))))) :: ((Npos (XO (XO (XO (XO (XO XH)))))) :: ((Npos (XO (XO (XO (XO
    (XO XH)))))) :: ((Npos (XO (XO (XO (XO (XO XH)))))) :: ((Npos (XO (XO (XI
    (XO (XI (XO XH))))))) :: ((Npos (XI (XO (XI (XO (XO (XI
    XH))))))) :: ((Npos (XI (XO (XI (XI (XO (XI XH))))))) :: ((Npos (XO (XO
    (XO (XO (XI (XI XH))))))) :: ((Npos (XO (XO (XI (XI (XO (XI
    XH))))))) :: ((Npos (XI (XO (XO (XO (XO (XI XH))))))) :: ((Npos (XO (XO
    (XI (XO (XI (XI XH))))))) :: ((Npos (XI (XO (XI (XO (XO (XI
    XH))))))) :: ((Npos (XO (XI (XO (XI (XI XH)))))) :: ((Npos (XO (XO (XO
    (XO (XO XH)))))) :: [])))))))))))))))))))))))))) :: ((CField ((Npos (XO
    (XO (XI (XO (XI (XI XH))))))) :: ((Npos (XI (XO (XI (XO (XO (XI
    XH))))))) :: ((Npos (XI (XO (XI (XI (XO (XI XH))))))) :: ((Npos (XO (XO
    (XO (XO (XI (XI XH))))))) :: ((Npos (XO (XO (XI (XI (XO (XI
    XH))))))) :: ((Npos (XI (XO (XO (XO (XO (XI XH))))))) :: ((Npos (XO (XO
    (XI (XO (XI (XI XH))))))) :: ((Npos (XI (XO (XI (XO (XO (XI
    XH))))))) :: []))))))))) :: ((CLit ((Npos (XO (XI (XO XH)))) :: ((Npos
    (XO (XI (XO XH)))) :: ((Npos (XO (XO (XO (XI (XO (XI XH))))))) :: ((Npos
    (XI (XO (XI (XO (XO (XI XH))))))) :: ((Npos (XO (XO (XI (XI (XO (XI
    XH))))))) :: ((Npos (XO (XO (XO (XO (XI (XI XH))))))) :: ((Npos (XO (XI
    (XO (XI (XI XH)))))) :: ((Npos (XO (XO (XO (XO (XO XH)))))) :: ((Npos (XO
    (XO (XI (XO (XI (XO XH))))))) :: ((Npos (XO (XO (XO (XI (XO (XI
    XH))))))) :: ((Npos (XI (XO (XI (XO (XO (XI XH))))))) :: ((Npos (XO (XO
    (XO (XO (XO XH)))))) :: ((Npos (XI (XI (XO (XO (XI (XI
    XH))))))) :: ((Npos (XO (XO (XO (XO (XI (XI XH))))))) :: ((Npos (XI (XO
    (XI (XO (XO (XI XH))))))) :: ((Npos (XI (XI (XO (XO (XO (XI
    XH))))))) :: ((Npos (XI (XO (XO (XI (XO (XI XH))))))) :: ((Npos (XO (XI
    (XI (XO (XO (XI XH))))))) :: ((Npos (XI (XO (XO (XI (XO (XI
    XH))))))) :: ((Npos (XI (XO (XI (XO (XO (XI XH))))))) :: ((Npos (XO (XO
    (XI (XO (XO (XI XH))))))) :: ((Npos (XO (XO (XO (XO (XO
    XH)))))) :: ((Npos (XO (XO (XI (XO (XI (XI XH))))))) :: ((Npos (XI (XO
    (XI (XO (XO (XI XH))))))) :: ((Npos (XI (XO (XI (XI (XO (XI
    XH))))))) :: ((Npos (XO (XO (XO (XO (XI (XI XH))))))) :: ((Npos (XO (XO
    (XI (XI (XO (XI XH))))))) :: ((Npos (XI (XO (XO (XO (XO (XI
    XH))))))) :: ((Npos (XO (XO (XI (XO (XI (XI XH))))))) :: ((Npos (XI (XO
    (XI (XO (XO (XI XH))))))) :: ((Npos (XO (XO (XO (XO (XO
    XH)))))) :: ((Npos (XO (XO (XI (XO (XO (XI XH))))))) :: ((Npos (XI (XI
    (XI (XI (XO (XI XH))))))) :: ((Npos (XI (XO (XI (XO (XO (XI
    XH))))))) :: ((Npos (XI (XI (XO (XO (XI (XI XH))))))) :: ((Npos (XO (XO
    (XO (XO (XO XH)))))) :: ((Npos (XO (XI (XI (XI (XO (XI
    XH))))))) :: ((Npos (XI (XI (XI (XI (XO (XI XH))))))) :: ((Npos (XO (XO
    (XI (XO (XI (XI XH))))))) :: ((Npos (XO (XO (XO (XO (XO
    XH)))))) :: ((Npos (XI (XO (XI (XO (XO (XI XH))))))) :: ((Npos (XO (XO
    (XO (XI (XI (XI XH))))))) :: ((Npos (XI (XO (XO (XI (XO (XI
    XH))))))) :: ((Npos (XI (XI (XO (XO (XI (XI XH))))))) :: ((Npos (XO (XO
    (XI (XO (XI (XI XH))))))) :: ((Npos (XO (XO (XO (XO (XO
    XH)))))) :: ((Npos (XI (XO (XO (XI (XO (XI XH))))))) :: ((Npos (XO (XI
    (XI (XI (XO (XI XH))))))) :: ((Npos (XO (XO (XO (XO (XO
    XH)))))) :: ((Npos (XO (XO (XI (XO (XI (XI XH))))))) :: ((Npos (XO (XO
    (XO (XI (XO (XI XH))))))) :: ((Npos (XI (XO (XI (XO (XO (XI
    XH))))))) :: ((Npos (XO (XO (XO (XO (XO XH)))))) :: ((Npos (XO (XI (XO
    (XO (XI (XI XH))))))) :: ((Npos (XI (XI (XI (XI (XO (XI
    XH))))))) :: ((Npos (XI (XO (XI (XO (XI (XI XH))))))) :: ((Npos (XO (XO
    (XI (XO (XI (XI XH))))))) :: ((Npos (XI (XO (XI (XO (XO (XI
    XH))))))) :: ((Npos (XO (XI (XO (XO (XI (XI XH))))))) :: ((Npos (XO (XI
    (XO XH)))) :: ((Npos (XO (XI (XO XH)))) :: ((Npos (XO (XO (XI (XO (XI (XI
    XH))))))) :: ((Npos (XO (XI (XO (XO (XI (XI XH))))))) :: ((Npos (XI (XO
    (XO (XI (XI (XI XH))))))) :: ((Npos (XO (XI (XO (XI (XI
    XH)))))) :: ((Npos (XO (XI (XO XH)))) :: ((Npos (XO (XO (XO (XO (XO
    XH)))))) :: ((Npos (XO (XO (XO (XO (XO XH)))))) :: ((Npos (XO (XO (XO (XO
    (XO XH)))))) :: ((Npos (XO (XO (XO (XO (XO XH)))))) :: ((Npos (XI (XO (XI
    (XI (XO XH)))))) :: ((Npos (XO (XO (XO (XO (XO XH)))))) :: ((Npos (XI (XI
    (XO (XO (XO (XO XH))))))) :: ((Npos (XO (XO (XO (XI (XO (XI
    XH))))))) :: ((Npos (XI (XO (XI (XO (XO (XI XH))))))) :: ((Npos (XI (XI
    (XO (XO (XO (XI XH))))))) :: ((Npos (XI (XI (XO (XI (XO (XI
    XH))))))) :: ((Npos (XO (XO (XO (XO (XO XH)))))) :: ((Npos (XI (XO (XO
    (XI (XO (XI XH))))))) :: ((Npos (XO (XI (XI (XO (XO (XI
    XH))))))) :: ((Npos (XO (XO (XO (XO (XO XH)))))) :: ((Npos (XO (XO (XI
    (XO (XI (XI XH))))))) :: ((Npos (XO (XO (XO (XI (XO (XI
    XH))))))) :: ((Npos (XI (XO (XI (XO (XO (XI XH))))))) :: ((Npos (XO (XO
    (XO (XO (XO XH)))))) :: ((Npos (XO (XO (XI (XO (XI (XI
    XH))))))) :: ((Npos (XI (XO (XI (XO (XO (XI XH))))))) :: ((Npos (XI (XO
    (XI (XI (XO (XI XH))))))) :: ((Npos (XO (XO (XO (XO (XI (XI
    XH))))))) :: ((Npos (XO (XO (XI (XI (XO (XI XH))))))) :: ((Npos (XI (XO
    (XO (XO (XO (XI XH))))))) :: ((Npos (XO (XO (XI (XO (XI (XI
    XH))))))) :: ((Npos (XI (XO (XI (XO (XO (XI XH))))))) :: ((Npos (XO (XO
    (XO (XO (XO XH)))))) :: ((Npos (XI (XO (XO (XI (XO (XI
    XH))))))) :: ((Npos (XI (XI (XO (XO (XI (XI XH))))))) :: ((Npos (XO (XO
    (XO (XO (XO XH)))))) :: ((Npos (XI (XI (XO (XO (XO (XI
    XH))))))) :: ((Npos (XI (XI (XI (XI (XO (XI XH))))))) :: ((Npos (XO (XI
    (XO (XO (XI (XI XH))))))) :: ((Npos (XO (XI (XO (XO (XI (XI
    XH))))))) :: ((Npos (XI (XO (XI (XO (XO (XI XH))))))) :: ((Npos (XI (XI
    (XO (XO (XO (XI XH))))))) :: ((Npos (XO (XO (XI (XO (XI (XI
    XH))))))) :: ((Npos (XO (XI (XO XH)))) :: ((Npos (XO (XO (XO (XO (XO
    XH)))))) :: ((Npos (XO (XO (XO (XO (XO XH)))))) :: ((Npos (XO (XO (XO (XO
    (XO XH)))))) :: ((Npos (XO (XO (XO (XO (XO XH)))))) :: ((Npos (XI (XO (XI
    (XI (XO XH)))))) :: ((Npos (XO (XO (XO (XO (XO XH)))))) :: ((Npos (XO (XI
    (XI (XO (XI (XO XH))))))) :: ((Npos (XI (XO (XI (XO (XO (XI
    XH))))))) :: ((Npos (XO (XI (XO (XO (XI (XI XH))))))) :: ((Npos (XI (XO
    (XO (XI (XO (XI XH))))))) :: ((Npos (XO (XI (XI (XO (XO (XI
    XH))))))) :: ((Npos (XI (XO (XO (XI (XI (XI XH))))))) :: ((Npos (XO (XO
    (XO (XO (XO XH)))))) :: ((Npos (XO (XO (XI (XO (XI (XI
    XH))))))) :: ((Npos (XO (XO (XO (XI (XO (XI XH))))))) :: ((Npos (XI (XO
    (XO (XO (XO (XI XH))))))) :: ((Npos (XO (XO (XI (XO (XI (XI
    XH))))))) :: ((Npos (XO (XO (XO (XO (XO XH)))))) :: ((Npos (XO (XO (XI
    (XO (XI (XI XH))))))) :: ((Npos (XO (XO (XO (XI (XO (XI
    XH))))))) :: ((Npos (XI (XO (XI (XO (XO (XI XH))))))) :: ((Npos (XO (XO
    (XO (XO (XO XH)))))) :: ((Npos (XO (XO (XI (XO (XI (XI
    XH))))))) :: ((Npos (XI (XO (XI (XO (XO (XI XH))))))) :: ((Npos (XI (XO
    (XI (XI (XO (XI XH))))))) :: ((Npos (XO (XO (XO (XO (XI (XI
    XH))))))) :: ((Npos (XO (XO (XI (XI (XO (XI XH))))))) :: ((Npos (XI (XO
    (XO (XO (XO (XI XH))))))) :: ((Npos (XO (XO (XI (XO (XI (XI
    XH))))))) :: ((Npos (XI (XO (XI (XO (XO (XI XH))))))) :: ((Npos (XO (XO
    (XO (XO (XO XH)))))) :: ((Npos (XI (XI (XI (XO (XI (XI
    XH))))))) :: ((Npos (XI (XO (XO (XO (XO (XI XH))))))) :: ((Npos (XI (XI
    (XO (XO (XI (XI XH))))))) :: ((Npos (XO (XO (XO (XO (XO
    XH)))))) :: ((Npos (XO (XO (XO (XO (XI (XI XH))))))) :: ((Npos (XO (XI
    (XO (XO (XI (XI XH))))))) :: ((Npos (XI (XO (XI (XO (XO (XI
    XH))))))) :: ((Npos (XO (XI (XI (XO (XI (XI XH))))))) :: ((Npos (XI (XO
    (XO (XI (XO (XI XH))))))) :: ((Npos (XI (XI (XI (XI (XO (XI
    XH))))))) :: ((Npos (XI (XO (XI (XO (XI (XI XH))))))) :: ((Npos (XI (XI
    (XO (XO (XI (XI XH))))))) :: ((Npos (XO (XO (XI (XI (XO (XI
    XH))))))) :: ((Npos (XI (XO (XO (XI (XI (XI XH))))))) :: ((Npos (XO (XO
    (XO (XO (XO XH)))))) :: ((Npos (XI (XO (XO (XI (XO (XI
    XH))))))) :: ((Npos (XO (XI (XI (XI (XO (XI XH))))))) :: ((Npos (XI (XI
    (XO (XO (XI (XI XH))))))) :: ((Npos (XI (XO (XI (XO (XO (XI
    XH))))))) :: ((Npos (XO (XI (XO (XO (XI (XI XH))))))) :: ((Npos (XO (XO
    (XI (XO (XI (XI XH))))))) :: ((Npos (XI (XO (XI (XO (XO (XI
    XH))))))) :: ((Npos (XO (XO (XI (XO (XO (XI
    XH))))))) :: [])))))))))))))))))))))))))))))))))))))))))))))))))))))))))))))))))))))))))))))))))))))))))))))))))))))))))))))))))))))))))))))))))))))))))))))))))))))))))))))))) :: []))

(** val arrow_DeleteError_NotFound : arrow **)

let arrow_DeleteError_NotFound =
  ANone

(** val fmt_DeleteError_Mismatch : chunk list **)

let fmt_DeleteError_Mismatch =
  (CLit ((Npos (XO (XO (XI (XO (XO (XI XH))))))) :: ((Npos (XI (XO (XI (XO
    (XO (XI XH))))))) :: ((Npos (XO (XO (XI (XI (XO (XI XH))))))) :: ((Npos
    (XI (XO (XI (XO (XO (XI XH))))))) :: ((Npos (XO (XO (XI (XO (XI (XI
    XH))))))) :: ((Npos (XI (XO (XI (XO (XO (XI XH))))))) :: ((Npos (XO (XO
    (XO (XO (XO XH)))))) :: ((Npos (XI (XO (XI (XI (XO (XI
    XH))))))) :: ((Npos (XI (XO (XO (XI (XO (XI XH))))))) :: ((Npos (XI (XI
    (XO (XO (XI (XI XH))))))) :: ((Npos (XI (XO (XI (XI (XO (XI
    XH))))))) :: ((Npos (XI (XO (XO (XO (XO (XI XH))))))) :: ((Npos (XO (XO
    (XI (XO (XI (XI XH))))))) :: ((Npos (XI (XI (XO (XO (XO (XI
    XH))))))) :: ((Npos (XO (XO (XO (XI (XO (XI XH))))))) :: ((Npos (XO (XI
    (XO XH)))) :: ((Npos (XO (XI (XO XH)))) :: ((Npos (XO (XO (XO (XO (XO
    XH)))))) :: ((Npos (XO (XO (XO (XO (XO XH)))))) :: ((Npos (XO (XO (XO (XO
    (XO XH)))))) :: ((Npos (XO (XO (XO (XO (XO XH)))))) :: ((Npos (XO (XO (XI
    (XO (XI (XO XH))))))) :: ((Npos (XI (XO (XI (XO (XO (XI
    XH))))))) :: ((Npos (XI (XO (XI (XI (XO (XI XH))))))) :: ((Npos (XO (XO
    (XO (XO (XI (XI XH))))))) :: ((Npos (XO (XO (XI (XI (XO (XI
    XH))))))) :: ((Npos (XI (XO (XO (XO (XO (XI XH))))))) :: ((Npos (XO (XO
    (XI (XO (XI (XI XH))))))) :: ((Npos (XI (XO (XI (XO (XO (XI
    XH))))))) :: ((Npos (XO (XI (XO (XI (XI XH)))))) :: ((Npos (XO (XO (XO
    (XO (XO XH)))))) :: [])))))))))))))))))))))))))))))))) :: ((CField ((Npos
    (XO (XO (XI (XO (XI (XI XH))))))) :: ((Npos (XI (XO (XI (XO (XO (XI
    XH))))))) :: ((Npos (XI (XO (XI (XI (XO (XI XH))))))) :: ((Npos (XO (XO
    (XO (XO (XI (XI XH))))))) :: ((Npos (XO (XO (XI (XI (XO (XI
    XH))))))) :: ((Npos (XI (XO (XO (XO (XO (XI XH))))))) :: ((Npos (XO (XO
    (XI (XO (XI (XI XH))))))) :: ((Npos (XI (XO (XI (XO (XO (XI
    XH))))))) :: []))))))))) :: ((CLit ((Npos (XO (XI (XO XH)))) :: ((Npos
    (XO (XO (XO (XO (XO XH)))))) :: ((Npos (XO (XO (XO (XO (XO
    XH)))))) :: ((Npos (XO (XO (XO (XO (XO XH)))))) :: ((Npos (XO (XO (XO (XO
    (XO XH)))))) :: ((Npos (XI (XO (XO (XI (XO (XO XH))))))) :: ((Npos (XO
    (XI (XI (XI (XO (XI XH))))))) :: ((Npos (XI (XI (XO (XO (XI (XI
    XH))))))) :: ((Npos (XI (XO (XI (XO (XO (XI XH))))))) :: ((Npos (XO (XI
    (XO (XO (XI (XI XH))))))) :: ((Npos (XO (XO (XI (XO (XI (XI
    XH))))))) :: ((Npos (XI (XO (XI (XO (XO (XI XH))))))) :: ((Npos (XO (XO
    (XI (XO (XO (XI XH))))))) :: ((Npos (XO (XI (XO (XI (XI
    XH)))))) :: ((Npos (XO (XO (XO (XO (XO
    XH)))))) :: [])))))))))))))))) :: ((CField ((Npos (XI (XO (XO (XI (XO (XI
    XH))))))) :: ((Npos (XO (XI (XI (XI (XO (XI XH))))))) :: ((Npos (XI (XI
    (XO (XO (XI (XI XH))))))) :: ((Npos (XI (XO (XI (XO (XO (XI
    XH))))))) :: ((Npos (XO (XI (XO (XO (XI (XI XH))))))) :: ((Npos (XO (XO
    (XI (XO (XI (XI XH))))))) :: ((Npos (XI (XO (XI (XO (XO (XI
    XH))))))) :: ((Npos (XO (XO (XI (XO (XO (XI
    XH))))))) :: []))))))))) :: ((CLit ((Npos (XO (XI (XO XH)))) :: ((Npos
    (XO (XI (XO XH)))) :: ((Npos (XO (XO (XO (XI (XO (XI XH))))))) :: ((Npos
    (XI (XO (XI (XO (XO (XI XH))))))) :: ((Npos (XO (XO (XI (XI (XO (XI
    XH))))))) :: ((Npos (XO (XO (XO (XO (XI (XI XH))))))) :: ((Npos (XO (XI
    (XO (XI (XI XH)))))) :: ((Npos (XO (XO (XO (XO (XO XH)))))) :: ((Npos (XO
    (XO (XI (XO (XI (XO XH))))))) :: ((Npos (XO (XO (XO (XI (XO (XI
    XH))))))) :: ((Npos (XI (XO (XI (XO (XO (XI XH))))))) :: ((Npos (XO (XO
    (XO (XO (XO XH)))))) :: ((Npos (XO (XO (XI (XO (XI (XI
    XH))))))) :: ((Npos (XI (XO (XI (XO (XO (XI XH))))))) :: ((Npos (XI (XO
    (XI (XI (XO (XI XH))))))) :: ((Npos (XO (XO (XO (XO (XI (XI
    XH))))))) :: ((Npos (XO (XO (XI (XI (XO (XI XH))))))) :: ((Npos (XI (XO
    (XO (XO (XO (XI XH))))))) :: ((Npos (XO (XO (XI (XO (XI (XI
    XH))))))) :: ((Npos (XI (XO (XI (XO (XO (XI XH))))))) :: ((Npos (XO (XO
    (XO (XO (XO XH)))))) :: ((Npos (XI (XO (XI (XI (XO (XI
    XH))))))) :: ((Npos (XI (XO (XI (XO (XI (XI XH))))))) :: ((Npos (XI (XI
    (XO (XO (XI (XI XH))))))) :: ((Npos (XO (XO (XI (XO (XI (XI
    XH))))))) :: ((Npos (XO (XO (XO (XO (XO XH)))))) :: ((Npos (XO (XI (XO
    (XO (XO (XI XH))))))) :: ((Npos (XI (XO (XI (XO (XO (XI
    XH))))))) :: ((Npos (XO (XO (XO (XO (XO XH)))))) :: ((Npos (XO (XO (XI
    (XO (XO (XI XH))))))) :: ((Npos (XI (XO (XI (XO (XO (XI
    XH))))))) :: ((Npos (XO (XO (XI (XI (XO (XI XH))))))) :: ((Npos (XI (XO
    (XI (XO (XO (XI XH))))))) :: ((Npos (XO (XO (XI (XO (XI (XI
    XH))))))) :: ((Npos (XI (XO (XI (XO (XO (XI XH))))))) :: ((Npos (XO (XO
    (XI (XO (XO (XI XH))))))) :: ((Npos (XO (XO (XO (XO (XO
    XH)))))) :: ((Npos (XI (XO (XI (XO (XI (XI XH))))))) :: ((Npos (XI (XI
    (XO (XO (XI (XI XH))))))) :: ((Npos (XI (XO (XO (XI (XO (XI
    XH))))))) :: ((Npos (XO (XI (XI (XI (XO (XI XH))))))) :: ((Npos (XI (XI
    (XI (XO (XO (XI XH))))))) :: ((Npos (XO (XO (XO (XO (XO
    XH)))))) :: ((Npos (XO (XO (XI (XO (XI (XI XH))))))) :: ((Npos (XO (XO
    (XO (XI (XO (XI XH))))))) :: ((Npos (XI (XO (XI (XO (XO (XI
    XH))))))) :: ((Npos (XO (XO (XO (XO (XO XH)))))) :: ((Npos (XI (XI (XO
    (XO (XI (XI XH))))))) :: ((Npos (XI (XO (XO (XO (XO (XI
    XH))))))) :: ((Npos (XI (XO (XI (XI (XO (XI XH))))))) :: ((Npos (XI (XO
    (XI (XO (XO (XI XH))))))) :: ((Npos (XO (XO (XO (XO (XO
    XH)))))) :: ((Npos (XO (XI (XI (XO (XO (XI XH))))))) :: ((Npos (XI (XI
    (XI (XI (XO (XI XH))))))) :: ((Npos (XO (XI (XO (XO (XI (XI
    XH))))))) :: ((Npos (XI (XO (XI (XI (XO (XI XH))))))) :: ((Npos (XI (XO
    (XO (XO (XO (XI XH))))))) :: ((Npos (XO (XO (XI (XO (XI (XI
    XH))))))) :: ((Npos (XO (XO (XO (XO (XO XH)))))) :: ((Npos (XI (XO (XO
    (XO (XO (XI XH))))))) :: ((Npos (XI (XI (XO (XO (XI (XI
    XH))))))) :: ((Npos (XO (XO (XO (XO (XO XH)))))) :: ((Npos (XI (XI (XI
    (XO (XI (XI XH))))))) :: ((Npos (XI (XO (XO (XO (XO (XI
    XH))))))) :: ((Npos (XI (XI (XO (XO (XI (XI XH))))))) :: ((Npos (XO (XO
    (XO (XO (XO XH)))))) :: ((Npos (XI (XO (XO (XI (XO (XI
    XH))))))) :: ((Npos (XO (XI (XI (XI (XO (XI XH))))))) :: ((Npos (XI (XI
    (XO (XO (XI (XI XH))))))) :: ((Npos (XI (XO (XI (XO (XO (XI
    XH))))))) :: ((Npos (XO (XI (XO (XO (XI (XI XH))))))) :: ((Npos (XO (XO
    (XI (XO (XI (XI XH))))))) :: ((Npos (XI (XO (XI (XO (XO (XI
    XH))))))) :: ((Npos (XO (XO (XI (XO (XO (XI XH))))))) :: ((Npos (XO (XI
    (XO XH)))) :: ((Npos (XO (XI (XO XH)))) :: ((Npos (XO (XO (XI (XO (XI (XI
    XH))))))) :: ((Npos (XO (XI (XO (XO (XI (XI XH))))))) :: ((Npos (XI (XO
    (XO (XI (XI (XI XH))))))) :: ((Npos (XO (XI (XO (XI (XI
    XH)))))) :: ((Npos (XO (XI (XO XH)))) :: ((Npos (XO (XO (XO (XO (XO
    XH)))))) :: ((Npos (XO (XO (XO (XO (XO XH)))))) :: ((Npos (XO (XO (XO (XO
    (XO XH)))))) :: ((Npos (XO (XO (XO (XO (XO XH)))))) :: ((Npos (XI (XO (XI
    (XI (XO XH)))))) :: ((Npos (XO (XO (XO (XO (XO XH)))))) :: ((Npos (XI (XO
    (XI (XO (XI (XO XH))))))) :: ((Npos (XI (XI (XO (XO (XI (XI
    XH))))))) :: ((Npos (XI (XO (XI (XO (XO (XI XH))))))) :: ((Npos (XO (XO
    (XO (XO (XO XH)))))) :: ((Npos (XO (XO (XI (XO (XI (XI
    XH))))))) :: ((Npos (XO (XO (XO (XI (XO (XI XH))))))) :: ((Npos (XI (XO
    (XI (XO (XO (XI XH))))))) :: ((Npos (XO (XO (XO (XO (XO
    XH)))))) :: ((Npos (XI (XO (XI (XO (XO (XI XH))))))) :: ((Npos (XO (XO
    (XO (XI (XI (XI XH))))))) :: ((Npos (XI (XO (XO (XO (XO (XI
    XH))))))) :: ((Npos (XI (XI (XO (XO (XO (XI XH))))))) :: ((Npos (XO (XO
    (XI (XO (XI (XI XH))))))) :: ((Npos (XO (XO (XO (XO (XO
    XH)))))) :: ((Npos (XO (XO (XI (XO (XI (XI XH))))))) :: ((Npos (XI (XO
    (XI (XO (XO (XI XH))))))) :: ((Npos (XI (XO (XI (XI (XO (XI
    XH))))))) :: ((Npos (XO (XO (XO (XO (XI (XI XH))))))) :: ((Npos (XO (XO
    (XI (XI (XO (XI XH))))))) :: ((Npos (XI (XO (XO (XO (XO (XI
    XH))))))) :: ((Npos (XO (XO (XI (XO (XI (XI XH))))))) :: ((Npos (XI (XO
    (XI (XO (XO (XI XH))))))) :: ((Npos (XO (XO (XO (XO (XO
    XH)))))) :: ((Npos (XO (XI (XI (XO (XO (XI XH))))))) :: ((Npos (XI (XI
    (XI (XI (XO (XI XH))))))) :: ((Npos (XO (XI (XO (XO (XI (XI
    XH))))))) :: ((Npos (XI (XO (XI (XI (XO (XI XH))))))) :: ((Npos (XI (XO
    (XO (XO (XO (XI XH))))))) :: ((Npos (XO (XO (XI (XO (XI (XI
    XH))))))) :: ((Npos (XO (XO (XO (XO (XO XH)))))) :: ((Npos (XI (XI (XO
    (XO (XI (XI XH))))))) :: ((Npos (XO (XO (XO (XI (XO (XI
    XH))))))) :: ((Npos (XI (XI (XI (XI (XO (XI XH))))))) :: ((Npos (XI (XI
    (XI (XO (XI (XI XH))))))) :: ((Npos (XO (XI (XI (XI (XO (XI
    XH))))))) :: ((Npos (XO (XO (XO (XO (XO XH)))))) :: ((Npos (XI (XO (XO
    (XI (XO (XI XH))))))) :: ((Npos (XO (XI (XI (XI (XO (XI
    XH))))))) :: ((Npos (XO (XO (XO (XO (XO XH)))))) :: ((Npos (XI (XI (XI
    (XO (XO XH)))))) :: ((Npos (XI (XO (XO (XI (XO (XO XH))))))) :: ((Npos
    (XO (XI (XI (XI (XO (XI XH))))))) :: ((Npos (XI (XI (XO (XO (XI (XI
    XH))))))) :: ((Npos (XI (XO (XI (XO (XO (XI XH))))))) :: ((Npos (XO (XI
    (XO (XO (XI (XI XH))))))) :: ((Npos (XO (XO (XI (XO (XI (XI
    XH))))))) :: ((Npos (XI (XO (XI (XO (XO (XI XH))))))) :: ((Npos (XO (XO
    (XI (XO (XO (XI XH))))))) :: ((Npos (XI (XI (XI (XO (XO
    XH)))))) :: ((Npos (XO (XI (XO XH)))) :: ((Npos (XO (XO (XO (XO (XO
    XH)))))) :: ((Npos (XO (XO (XO (XO (XO XH)))))) :: ((Npos (XO (XO (XO (XO
    (XO XH)))))) :: ((Npos (XO (XO (XO (XO (XO XH)))))) :: ((Npos (XI (XO (XI
    (XI (XO XH)))))) :: ((Npos (XO (XO (XO (XO (XO XH)))))) :: ((Npos (XI (XI
    (XO (XO (XO (XO XH))))))) :: ((Npos (XO (XO (XO (XI (XO (XI
    XH))))))) :: ((Npos (XI (XO (XI (XO (XO (XI XH))))))) :: ((Npos (XI (XI
    (XO (XO (XO (XI XH))))))) :: ((Npos (XI (XI (XO (XI (XO (XI
    XH))))))) :: ((Npos (XO (XO (XO (XO (XO XH)))))) :: ((Npos (XO (XI (XI
    (XO (XO (XI XH))))))) :: ((Npos (XI (XI (XI (XI (XO (XI
    XH))))))) :: ((Npos (XO (XI (XO (XO (XI (XI XH))))))) :: ((Npos (XO (XO
    (XO (XO (XO XH)))))) :: ((Npos (XO (XO (XI (XO (XO (XI
    XH))))))) :: ((Npos (XI (XO (XO (XI (XO (XI XH))))))) :: ((Npos (XO (XI
    (XI (XO (XO (XI XH))))))) :: ((Npos (XO (XI (XI (XO (XO (XI
    XH))))))) :: ((Npos (XI (XO (XI (XO (XO (XI XH))))))) :: ((Npos (XO (XI
    (XO (XO (XI (XI XH))))))) :: ((Npos (XI (XO (XI (XO (XO (XI
    XH))))))) :: ((Npos (XO (XI (XI (XI (XO (XI XH))))))) :: ((Npos (XI (XI
    (XO (XO (XO (XI XH))))))) :: ((Npos (XI (XO (XI (XO (XO (XI
    XH))))))) :: ((Npos (XI (XI (XO (XO (XI (XI XH))))))) :: ((Npos (XO (XO
    (XO (XO (XO XH)))))) :: ((Npos (XI (XO (XO (XI (XO (XI
    XH))))))) :: ((Npos (XO (XI (XI (XI (XO (XI XH))))))) :: ((Npos (XO (XO
    (XO (XO (XO XH)))))) :: ((Npos (XI (XI (XI (XI (XO (XI
    XH))))))) :: ((Npos (XO (XO (XO (XO (XI (XI XH))))))) :: ((Npos (XO (XO
    (XI (XO (XI (XI XH))))))) :: ((Npos (XI (XO (XO (XI (XO (XI
    XH))))))) :: ((Npos (XI (XI (XI (XI (XO (XI XH))))))) :: ((Npos (XO (XI
    (XI (XI (XO (XI XH))))))) :: ((Npos (XI (XO (XO (XO (XO (XI
    XH))))))) :: ((Npos (XO (XO (XI (XI (XO (XI XH))))))) :: ((Npos (XO (XO
    (XO (XO (XO XH)))))) :: ((Npos (XI (XI (XO (XO (XI (XI
    XH))))))) :: ((Npos (XI (XO (XI (XO (XO (XI XH))))))) :: ((Npos (XI (XI
    (XI (XO (XO (XI XH))))))) :: ((Npos (XI (XO (XI (XI (XO (XI
    XH))))))) :: ((Npos (XI (XO (XI (XO (XO (XI XH))))))) :: ((Npos (XO (XI
    (XI (XI (XO (XI XH))))))) :: ((Npos (XO (XO (XI (XO (XI (XI
    XH))))))) :: ((Npos (XI (XI (XO (XO (XI (XI XH))))))) :: ((Npos (XO (XO
    (XO (XO (XO XH)))))) :: ((Npos (XI (XI (XI (XI (XO (XI
    XH))))))) :: ((Npos (XO (XI (XO (XO (XI (XI XH))))))) :: ((Npos (XO (XO
    (XO (XO (XO XH)))))) :: ((Npos (XO (XO (XI (XO (XI (XI
    XH))))))) :: ((Npos (XO (XI (XO (XO (XI (XI XH))))))) :: ((Npos (XI (XO
    (XO (XO (XO (XI XH))))))) :: ((Npos (XI (XO (XO (XI (XO (XI
    XH))))))) :: ((Npos (XO (XO (XI (XI (XO (XI XH))))))) :: ((Npos (XI (XO
    (XO (XI (XO (XI XH))))))) :: ((Npos (XO (XI (XI (XI (XO (XI
    XH))))))) :: ((Npos (XI (XI (XI (XO (XO (XI XH))))))) :: ((Npos (XO (XO
    (XO (XO (XO XH)))))) :: ((Npos (XI (XI (XO (XO (XI (XI
    XH))))))) :: ((Npos (XO (XO (XI (XI (XO (XI XH))))))) :: ((Npos (XI (XO
    (XO (XO (XO (XI XH))))))) :: ((Npos (XI (XI (XO (XO (XI (XI
    XH))))))) :: ((Npos (XO (XO (XO (XI (XO (XI XH))))))) :: ((Npos (XI (XO
    (XI (XO (XO (XI XH))))))) :: ((Npos (XI (XI (XO (XO (XI (XI
    XH))))))) :: [])))))))))))))))))))))))))))))))))))))))))))))))))))))))))))))))))))))))))))))))))))))))))))))))))))))))))))))))))))))))))))))))))))))))))))))))))))))))))))))))))))))))))))))))))))))))))))))))))))))))))))))) :: []))))

(** val arrow_DeleteError_Mismatch : arrow **)

let arrow_DeleteError_Mismatch =
  ANone

(** val fmt_ConstraintError_DuplicateName : chunk list **)

let fmt_ConstraintError_DuplicateName =
  (CLit ((Npos (XO (XO (XI (XO (XO (XI XH))))))) :: ((Npos (XI (XO (XI (XO
    (XI (XI XH))))))) :: ((Npos (XO (XO (XO (XO (XI (XI XH))))))) :: ((Npos
    (XO (XO (XI (XI (XO (XI XH))))))) :: ((Npos (XI (XO (XO (XI (XO (XI
    XH))))))) :: ((Npos (XI (XI (XO (XO (XO (XI XH))))))) :: ((Npos (XI (XO
    (XO (XO (XO (XI XH))))))) :: ((Npos (XO (XO (XI (XO (XI (XI
    XH))))))) :: ((Npos (XI (XO (XI (XO (XO (XI XH))))))) :: ((Npos (XO (XO
    (XO (XO (XO XH)))))) :: ((Npos (XI (XI (XO (XO (XO (XI
    XH))))))) :: ((Npos (XI (XI (XI (XI (XO (XI XH))))))) :: ((Npos (XO (XI
    (XI (XI (XO (XI XH))))))) :: ((Npos (XI (XI (XO (XO (XI (XI
    XH))))))) :: ((Npos (XO (XO (XI (XO (XI (XI XH))))))) :: ((Npos (XO (XI
    (XO (XO (XI (XI XH))))))) :: ((Npos (XI (XO (XO (XO (XO (XI
    XH))))))) :: ((Npos (XI (XO (XO (XI (XO (XI XH))))))) :: ((Npos (XO (XI
    (XI (XI (XO (XI XH))))))) :: ((Npos (XO (XO (XI (XO (XI (XI
    XH))))))) :: ((Npos (XO (XO (XO (XO (XO XH)))))) :: ((Npos (XO (XI (XI
    (XI (XO (XI XH))))))) :: ((Npos (XI (XO (XO (XO (XO (XI
    XH))))))) :: ((Npos (XI (XO (XI (XI (XO (XI XH))))))) :: ((Npos (XI (XO
    (XI (XO (XO (XI XH))))))) :: ((Npos (XO (XI (XO XH)))) :: ((Npos (XO (XI
    (XO XH)))) :: ((Npos (XO (XO (XI (XO (XI (XO XH))))))) :: ((Npos (XO (XO
    (XO (XI (XO (XI XH))))))) :: ((Npos (XI (XO (XI (XO (XO (XI
    XH))))))) :: ((Npos (XO (XO (XO (XO (XO XH)))))) :: ((Npos (XI (XI (XO
    (XO (XO (XI XH))))))) :: ((Npos (XI (XI (XI (XI (XO (XI
    XH))))))) :: ((Npos (XO (XI (XI (XI (XO (XI XH))))))) :: ((Npos (XI (XI
    (XO (XO (XI (XI XH))))))) :: ((Npos (XO (XO (XI (XO (XI (XI
    XH))))))) :: ((Npos (XO (XI (XO (XO (XI (XI XH))))))) :: ((Npos (XI (XO
    (XO (XO (XO (XI XH))))))) :: ((Npos (XI (XO (XO (XI (XO (XI
    XH))))))) :: ((Npos (XO (XI (XI (XI (XO (XI XH))))))) :: ((Npos (XO (XO
    (XI (XO (XI (XI XH))))))) :: ((Npos (XO (XO (XO (XO (XO
    XH)))))) :: ((Npos (XO (XI (XI (XI (XO (XI XH))))))) :: ((Npos (XI (XO
    (XO (XO (XO (XI XH))))))) :: ((Npos (XI (XO (XI (XI (XO (XI
    XH))))))) :: ((Npos (XI (XO (XI (XO (XO (XI XH))))))) :: ((Npos (XO (XO
    (XO (XO (XO XH)))))) :: ((Npos (XI (XI (XI (XO (XO
    XH)))))) :: []))))))))))))))))))))))))))))))))))))))))))))))))) :: ((CField
    ((Npos (XO (XI (XI (XI (XO (XI XH))))))) :: ((Npos (XI (XO (XO (XO (XO
    (XI XH))))))) :: ((Npos (XI (XO (XI (XI (XO (XI XH))))))) :: ((Npos (XI
    (XO (XI (XO (XO (XI XH))))))) :: []))))) :: ((CLit ((Npos (XI (XI (XI (XO
    (XO XH)))))) :: ((Npos (XO (XO (XO (XO (XO XH)))))) :: ((Npos (XI (XO (XO
    (XI (XO (XI XH))))))) :: ((Npos (XI (XI (XO (XO (XI (XI
    XH))))))) :: ((Npos (XO (XO (XO (XO (XO XH)))))) :: ((Npos (XI (XO (XO
    (XO (XO (XI XH))))))) :: ((Npos (XO (XO (XI (XI (XO (XI
    XH))))))) :: ((Npos (XO (XI (XO (XO (XI (XI XH))))))) :: ((Npos (XI (XO
    (XI (XO (XO (XI XH))))))) :: ((Npos (XI (XO (XO (XO (XO (XI
    XH))))))) :: ((Npos (XO (XO (XI (XO (XO (XI XH))))))) :: ((Npos (XI (XO
    (XO (XI (XI (XI XH))))))) :: ((Npos (XO (XO (XO (XO (XO
    XH)))))) :: ((Npos (XI (XO (XO (XI (XO (XI XH))))))) :: ((Npos (XO (XI
    (XI (XI (XO (XI XH))))))) :: ((Npos (XO (XO (XO (XO (XO
    XH)))))) :: ((Npos (XI (XO (XI (XO (XI (XI XH))))))) :: ((Npos (XI (XI
    (XO (XO (XI (XI XH))))))) :: ((Npos (XI (XO (XI (XO (XO (XI
    XH))))))) :: ((Npos (XO (XI (XO (XI (XI XH)))))) :: ((Npos (XO (XI (XO
    XH)))) :: ((Npos (XO (XO (XO (XO (XO XH)))))) :: ((Npos (XO (XO (XO (XO
    (XO XH)))))) :: ((Npos (XO (XO (XO (XO (XO XH)))))) :: ((Npos (XO (XO (XO
    (XO (XO XH)))))) :: ((Npos (XI (XO (XI (XI (XO XH)))))) :: ((Npos (XO (XO
    (XO (XO (XO XH)))))) :: ((Npos (XI (XO (XI (XO (XO (XI
    XH))))))) :: ((Npos (XO (XO (XO (XI (XI (XI XH))))))) :: ((Npos (XI (XO
    (XO (XI (XO (XI XH))))))) :: ((Npos (XI (XI (XO (XO (XI (XI
    XH))))))) :: ((Npos (XO (XO (XI (XO (XI (XI XH))))))) :: ((Npos (XI (XO
    (XO (XI (XO (XI XH))))))) :: ((Npos (XO (XI (XI (XI (XO (XI
    XH))))))) :: ((Npos (XI (XI (XI (XO (XO (XI XH))))))) :: ((Npos (XO (XO
    (XO (XO (XO XH)))))) :: ((Npos (XI (XI (XO (XO (XO (XI
    XH))))))) :: ((Npos (XI (XI (XI (XI (XO (XI XH))))))) :: ((Npos (XO (XI
    (XI (XI (XO (XI XH))))))) :: ((Npos (XI (XI (XO (XO (XI (XI
    XH))))))) :: ((Npos (XO (XO (XI (XO (XI (XI XH))))))) :: ((Npos (XO (XI
    (XO (XO (XI (XI XH))))))) :: ((Npos (XI (XO (XO (XO (XO (XI
    XH))))))) :: ((Npos (XI (XO (XO (XI (XO (XI XH))))))) :: ((Npos (XO (XI
    (XI (XI (XO (XI XH))))))) :: ((Npos (XO (XO (XI (XO (XI (XI
    XH))))))) :: ((Npos (XO (XO (XO (XO (XO XH)))))) :: ((Npos (XO (XO (XI
    (XO (XI (XI XH))))))) :: ((Npos (XI (XO (XO (XI (XI (XI
    XH))))))) :: ((Npos (XO (XO (XO (XO (XI (XI XH))))))) :: ((Npos (XI (XO
    (XI (XO (XO (XI XH))))))) :: ((Npos (XO (XI (XO (XI (XI
    XH)))))) :: ((Npos (XO (XO (XO (XO (XO XH)))))) :: ((Npos (XI (XI (XI (XO
    (XO
    XH)))))) :: []))))))))))))))))))))))))))))))))))))))))))))))))))))))) :: ((CField
    ((Npos (XI (XO (XI (XO (XO (XI XH))))))) :: ((Npos (XO (XO (XO (XI (XI
    (XI XH))))))) :: ((Npos (XI (XO (XO (XI (XO (XI XH))))))) :: ((Npos (XI
    (XI (XO (XO (XI (XI XH))))))) :: ((Npos (XO (XO (XI (XO (XI (XI
    XH))))))) :: ((Npos (XI (XO (XO (XI (XO (XI XH))))))) :: ((Npos (XO (XI
    (XI (XI (XO (XI XH))))))) :: ((Npos (XI (XI (XI (XO (XO (XI
    XH))))))) :: ((Npos (XI (XI (XI (XI (XI (XO XH))))))) :: ((Npos (XO (XO
    (XI (XO (XI (XI XH))))))) :: ((Npos (XI (XO (XO (XI (XI (XI
    XH))))))) :: ((Npos (XO (XO (XO (XO (XI (XI XH))))))) :: ((Npos (XI (XO
    (XI (XO (XO (XI XH))))))) :: [])))))))))))))) :: ((CLit ((Npos (XI (XI
    (XI (XO (XO XH)))))) :: ((Npos (XO (XI (XO XH)))) :: ((Npos (XO (XO (XO
    (XO (XO XH)))))) :: ((Npos (XO (XO (XO (XO (XO XH)))))) :: ((Npos (XO (XO
    (XO (XO (XO XH)))))) :: ((Npos (XO (XO (XO (XO (XO XH)))))) :: ((Npos (XI
    (XO (XI (XI (XO XH)))))) :: ((Npos (XO (XO (XO (XO (XO XH)))))) :: ((Npos
    (XO (XI (XI (XI (XO (XI XH))))))) :: ((Npos (XI (XO (XI (XO (XO (XI
    XH))))))) :: ((Npos (XI (XI (XI (XO (XI (XI XH))))))) :: ((Npos (XO (XO
    (XO (XO (XO XH)))))) :: ((Npos (XI (XI (XO (XO (XO (XI
    XH))))))) :: ((Npos (XI (XI (XI (XI (XO (XI XH))))))) :: ((Npos (XO (XI
    (XI (XI (XO (XI XH))))))) :: ((Npos (XI (XI (XO (XO (XI (XI
    XH))))))) :: ((Npos (XO (XO (XI (XO (XI (XI XH))))))) :: ((Npos (XO (XI
    (XO (XO (XI (XI XH))))))) :: ((Npos (XI (XO (XO (XO (XO (XI
    XH))))))) :: ((Npos (XI (XO (XO (XI (XO (XI XH))))))) :: ((Npos (XO (XI
    (XI (XI (XO (XI XH))))))) :: ((Npos (XO (XO (XI (XO (XI (XI
    XH))))))) :: ((Npos (XO (XO (XO (XO (XO XH)))))) :: ((Npos (XO (XO (XI
    (XO (XI (XI XH))))))) :: ((Npos (XI (XO (XO (XI (XI (XI
    XH))))))) :: ((Npos (XO (XO (XO (XO (XI (XI XH))))))) :: ((Npos (XI (XO
    (XI (XO (XO (XI XH))))))) :: ((Npos (XO (XI (XO (XI (XI
    XH)))))) :: ((Npos (XO (XO (XO (XO (XO XH)))))) :: ((Npos (XI (XI (XI (XO
    (XO XH)))))) :: []))))))))))))))))))))))))))))))) :: ((CField ((Npos (XO
    (XI (XI (XI (XO (XI XH))))))) :: ((Npos (XI (XO (XI (XO (XO (XI
    XH))))))) :: ((Npos (XI (XI (XI (XO (XI (XI XH))))))) :: ((Npos (XI (XI
    (XI (XI (XI (XO XH))))))) :: ((Npos (XO (XO (XI (XO (XI (XI
    XH))))))) :: ((Npos (XI (XO (XO (XI (XI (XI XH))))))) :: ((Npos (XO (XO
    (XO (XO (XI (XI XH))))))) :: ((Npos (XI (XO (XI (XO (XO (XI
    XH))))))) :: []))))))))) :: ((CLit ((Npos (XI (XI (XI (XO (XO
    XH)))))) :: ((Npos (XO (XI (XO XH)))) :: ((Npos (XO (XI (XO
    XH)))) :: ((Npos (XO (XO (XO (XI (XO (XI XH))))))) :: ((Npos (XI (XO (XI
    (XO (XO (XI XH))))))) :: ((Npos (XO (XO (XI (XI (XO (XI
    XH))))))) :: ((Npos (XO (XO (XO (XO (XI (XI XH))))))) :: ((Npos (XO (XI
    (XO (XI (XI XH)))))) :: ((Npos (XO (XO (XO (XO (XO XH)))))) :: ((Npos (XI
    (XO (XI (XO (XO (XI XH))))))) :: ((Npos (XI (XO (XO (XO (XO (XI
    XH))))))) :: ((Npos (XI (XI (XO (XO (XO (XI XH))))))) :: ((Npos (XO (XO
    (XO (XI (XO (XI XH))))))) :: ((Npos (XO (XO (XO (XO (XO
    XH)))))) :: ((Npos (XI (XI (XO (XO (XO (XI XH))))))) :: ((Npos (XI (XI
    (XI (XI (XO (XI XH))))))) :: ((Npos (XO (XI (XI (XI (XO (XI
    XH))))))) :: ((Npos (XI (XI (XO (XO (XI (XI XH))))))) :: ((Npos (XO (XO
    (XI (XO (XI (XI XH))))))) :: ((Npos (XO (XI (XO (XO (XI (XI
    XH))))))) :: ((Npos (XI (XO (XO (XO (XO (XI XH))))))) :: ((Npos (XI (XO
    (XO (XI (XO (XI XH))))))) :: ((Npos (XO (XI (XI (XI (XO (XI
    XH))))))) :: ((Npos (XO (XO (XI (XO (XI (XI XH))))))) :: ((Npos (XO (XO
    (XO (XO (XO XH)))))) :: ((Npos (XI (XO (XI (XI (XO (XI
    XH))))))) :: ((Npos (XI (XO (XI (XO (XI (XI XH))))))) :: ((Npos (XI (XI
    (XO (XO (XI (XI XH))))))) :: ((Npos (XO (XO (XI (XO (XI (XI
    XH))))))) :: ((Npos (XO (XO (XO (XO (XO XH)))))) :: ((Npos (XO (XO (XO
    (XI (XO (XI XH))))))) :: ((Npos (XI (XO (XO (XO (XO (XI
    XH))))))) :: ((Npos (XO (XI (XI (XO (XI (XI XH))))))) :: ((Npos (XI (XO
    (XI (XO (XO (XI XH))))))) :: ((Npos (XO (XO (XO (XO (XO
    XH)))))) :: ((Npos (XI (XO (XO (XO (XO (XI XH))))))) :: ((Npos (XO (XO
    (XO (XO (XO XH)))))) :: ((Npos (XI (XO (XI (XO (XI (XI
    XH))))))) :: ((Npos (XO (XI (XI (XI (XO (XI XH))))))) :: ((Npos (XI (XO
    (XO (XI (XO (XI XH))))))) :: ((Npos (XI (XO (XO (XO (XI (XI
    XH))))))) :: ((Npos (XI (XO (XI (XO (XI (XI XH))))))) :: ((Npos (XI (XO
    (XI (XO (XO (XI XH))))))) :: ((Npos (XO (XO (XO (XO (XO
    XH)))))) :: ((Npos (XO (XI (XI (XI (XO (XI XH))))))) :: ((Npos (XI (XO
    (XO (XO (XO (XI XH))))))) :: ((Npos (XI (XO (XI (XI (XO (XI
    XH))))))) :: ((Npos (XI (XO (XI (XO (XO (XI XH))))))) :: ((Npos (XO (XI
    (XO XH)))) :: ((Npos (XO (XI (XO XH)))) :: ((Npos (XO (XO (XI (XO (XI (XI
    XH))))))) :: ((Npos (XO (XI (XO (XO (XI (XI XH))))))) :: ((Npos (XI (XO
    (XO (XI (XI (XI XH))))))) :: ((Npos (XO (XI (XO (XI (XI
    XH)))))) :: ((Npos (XO (XI (XO XH)))) :: ((Npos (XO (XO (XO (XO (XO
    XH)))))) :: ((Npos (XO (XO (XO (XO (XO XH)))))) :: ((Npos (XO (XO (XO (XO
    (XO XH)))))) :: ((Npos (XO (XO (XO (XO (XO XH)))))) :: ((Npos (XI (XO (XI
    (XI (XO XH)))))) :: ((Npos (XO (XO (XO (XO (XO XH)))))) :: ((Npos (XI (XI
    (XO (XO (XO (XO XH))))))) :: ((Npos (XO (XO (XO (XI (XO (XI
    XH))))))) :: ((Npos (XI (XO (XI (XO (XO (XI XH))))))) :: ((Npos (XI (XI
    (XO (XO (XO (XI XH))))))) :: ((Npos (XI (XI (XO (XI (XO (XI
    XH))))))) :: ((Npos (XO (XO (XO (XO (XO XH)))))) :: ((Npos (XI (XO (XO
    (XI (XO (XI XH))))))) :: ((Npos (XO (XI (XI (XO (XO (XI
    XH))))))) :: ((Npos (XO (XO (XO (XO (XO XH)))))) :: ((Npos (XI (XO (XO
    (XI (XI (XI XH))))))) :: ((Npos (XI (XI (XI (XI (XO (XI
    XH))))))) :: ((Npos (XI (XO (XI (XO (XI (XI XH))))))) :: ((Npos (XO (XO
    (XO (XO (XO XH)))))) :: ((Npos (XO (XO (XO (XI (XO (XI
    XH))))))) :: ((Npos (XI (XO (XO (XO (XO (XI XH))))))) :: ((Npos (XO (XI
    (XI (XO (XI (XI XH))))))) :: ((Npos (XI (XO (XI (XO (XO (XI
    XH))))))) :: ((Npos (XO (XO (XO (XO (XO XH)))))) :: ((Npos (XI (XO (XO
    (XO (XO (XI XH))))))) :: ((Npos (XI (XI (XO (XO (XO (XI
    XH))))))) :: ((Npos (XI (XI (XO (XO (XO (XI XH))))))) :: ((Npos (XI (XO
    (XO (XI (XO (XI XH))))))) :: ((Npos (XO (XO (XI (XO (XO (XI
    XH))))))) :: ((Npos (XI (XO (XI (XO (XO (XI XH))))))) :: ((Npos (XO (XI
    (XI (XI (XO (XI XH))))))) :: ((Npos (XO (XO (XI (XO (XI (XI
    XH))))))) :: ((Npos (XI (XO (XO (XO (XO (XI XH))))))) :: ((Npos (XO (XO
    (XI (XI (XO (XI XH))))))) :: ((Npos (XO (XO (XI (XI (XO (XI
    XH))))))) :: ((Npos (XI (XO (XO (XI (XI (XI XH))))))) :: ((Npos (XO (XO
    (XO (XO (XO XH)))))) :: ((Npos (XI (XO (XO (XO (XO (XI
    XH))))))) :: ((Npos (XO (XO (XI (XO (XO (XI XH))))))) :: ((Npos (XO (XO
    (XI (XO (XO (XI XH))))))) :: ((Npos (XI (XO (XI (XO (XO (XI
    XH))))))) :: ((Npos (XO (XO (XI (XO (XO (XI XH))))))) :: ((Npos (XO (XO
    (XO (XO (XO XH)))))) :: ((Npos (XO (XO (XI (XO (XI (XI
    XH))))))) :: ((Npos (XO (XO (XO (XI (XO (XI XH))))))) :: ((Npos (XI (XO
    (XI (XO (XO (XI XH))))))) :: ((Npos (XO (XO (XO (XO (XO
    XH)))))) :: ((Npos (XI (XI (XO (XO (XI (XI XH))))))) :: ((Npos (XI (XO
    (XO (XO (XO (XI XH))))))) :: ((Npos (XI (XO (XI (XI (XO (XI
    XH))))))) :: ((Npos (XI (XO (XI (XO (XO (XI XH))))))) :: ((Npos (XO (XO
    (XO (XO (XO XH)))))) :: ((Npos (XI (XI (XO (XO (XO (XI
    XH))))))) :: ((Npos (XI (XI (XI (XI (XO (XI XH))))))) :: ((Npos (XO (XI
    (XI (XI (XO (XI XH))))))) :: ((Npos (XI (XI (XO (XO (XI (XI
    XH))))))) :: ((Npos (XO (XO (XI (XO (XI (XI XH))))))) :: ((Npos (XO (XI
    (XO (XO (XI (XI XH))))))) :: ((Npos (XI (XO (XO (XO (XO (XI
    XH))))))) :: ((Npos (XI (XO (XO (XI (XO (XI XH))))))) :: ((Npos (XO (XI
    (XI (XI (XO (XI XH))))))) :: ((Npos (XO (XO (XI (XO (XI (XI
    XH))))))) :: ((Npos (XO (XO (XO (XO (XO XH)))))) :: ((Npos (XO (XO (XI
    (XO (XI (XI XH))))))) :: ((Npos (XI (XI (XI (XO (XI (XI
    XH))))))) :: ((Npos (XI (XO (XO (XI (XO (XI XH))))))) :: ((Npos (XI (XI
    (XO (XO (XO (XI XH))))))) :: ((Npos (XI (XO (XI (XO (XO (XI
    XH))))))) :: ((Npos (XO (XI (XO XH)))) :: ((Npos (XO (XO (XO (XO (XO
    XH)))))) :: ((Npos (XO (XO (XO (XO (XO XH)))))) :: ((Npos (XO (XO (XO (XO
    (XO XH)))))) :: ((Npos (XO (XO (XO (XO (XO XH)))))) :: ((Npos (XI (XO (XI
    (XI (XO XH)))))) :: ((Npos (XO (XO (XO (XO (XO XH)))))) :: ((Npos (XI (XO
    (XI (XO (XO (XO XH))))))) :: ((Npos (XO (XI (XI (XI (XO (XI
    XH))))))) :: ((Npos (XI (XI (XO (XO (XI (XI XH))))))) :: ((Npos (XI (XO
    (XI (XO (XI (XI XH))))))) :: ((Npos (XO (XI (XO (XO (XI (XI
    XH))))))) :: ((Npos (XI (XO (XI (XO (XO (XI XH))))))) :: ((Npos (XO (XO
    (XO (XO (XO XH)))))) :: ((Npos (XO (XO (XI (XO (XO (XI
    XH))))))) :: ((Npos (XI (XO (XO (XI (XO (XI XH))))))) :: ((Npos (XO (XI
    (XI (XO (XO (XI XH))))))) :: ((Npos (XO (XI (XI (XO (XO (XI
    XH))))))) :: ((Npos (XI (XO (XI (XO (XO (XI XH))))))) :: ((Npos (XO (XI
    (XO (XO (XI (XI XH))))))) :: ((Npos (XI (XO (XI (XO (XO (XI
    XH))))))) :: ((Npos (XO (XI (XI (XI (XO (XI XH))))))) :: ((Npos (XO (XO
    (XI (XO (XI (XI XH))))))) :: ((Npos (XO (XO (XO (XO (XO
    XH)))))) :: ((Npos (XI (XI (XO (XO (XO (XI XH))))))) :: ((Npos (XI (XI
    (XI (XI (XO (XI XH))))))) :: ((Npos (XO (XI (XI (XI (XO (XI
    XH))))))) :: ((Npos (XI (XI (XO (XO (XI (XI XH))))))) :: ((Npos (XO (XO
    (XI (XO (XI (XI XH))))))) :: ((Npos (XO (XI (XO (XO (XI (XI
    XH))))))) :: ((Npos (XI (XO (XO (XO (XO (XI XH))))))) :: ((Npos (XI (XO
    (XO (XI (XO (XI XH))))))) :: ((Npos (XO (XI (XI (XI (XO (XI
    XH))))))) :: ((Npos (XO (XO (XI (XO (XI (XI XH))))))) :: ((Npos (XI (XI
    (XO (XO (XI (XI XH))))))) :: ((Npos (XO (XO (XO (XO (XO
    XH)))))) :: ((Npos (XO (XO (XO (XI (XO (XI XH))))))) :: ((Npos (XI (XO
    (XO (XO (XO (XI XH))))))) :: ((Npos (XO (XI (XI (XO (XI (XI
    XH))))))) :: ((Npos (XI (XO (XI (XO (XO (XI XH))))))) :: ((Npos (XO (XO
    (XO (XO (XO XH)))))) :: ((Npos (XO (XO (XI (XO (XO (XI
    XH))))))) :: ((Npos (XI (XO (XO (XI (XO (XI XH))))))) :: ((Npos (XO (XI
    (XI (XO (XO (XI XH))))))) :: ((Npos (XO (XI (XI (XO (XO (XI
    XH))))))) :: ((Npos (XI (XO (XI (XO (XO (XI XH))))))) :: ((Npos (XO (XI
    (XO (XO (XI (XI XH))))))) :: ((Npos (XI (XO (XI (XO (XO (XI
    XH))))))) :: ((Npos (XO (XI (XI (XI (XO (XI XH))))))) :: ((Npos (XO (XO
    (XI (XO (XI (XI XH))))))) :: ((Npos (XO (XO (XO (XO (XO
    XH)))))) :: ((Npos (XO (XI (XI (XI (XO (XI XH))))))) :: ((Npos (XI (XO
    (XO (XO (XO (XI XH))))))) :: ((Npos (XI (XO (XI (XI (XO (XI
    XH))))))) :: ((Npos (XI (XO (XI (XO (XO (XI XH))))))) :: ((Npos (XI (XI
    (XO (XO (XI (XI
    XH))))))) :: [])))))))))))))))))))))))))))))))))))))))))))))))))))))))))))))))))))))))))))))))))))))))))))))))))))))))))))))))))))))))))))))))))))))))))))))))))))))))))))))))))))))))))))))))))))) :: []))))))

(** val arrow_ConstraintError_DuplicateName : arrow **)

let arrow_ConstraintError_DuplicateName =
  ANone

(** val b : n list -> bytes **)

let b l =
  l

(** val f_template : bytes **)

let f_template =
  b ((Npos (XO (XO (XI (XO (XI (XI XH))))))) :: ((Npos (XI (XO (XI (XO (XO
    (XI XH))))))) :: ((Npos (XI (XO (XI (XI (XO (XI XH))))))) :: ((Npos (XO
    (XO (XO (XO (XI (XI XH))))))) :: ((Npos (XO (XO (XI (XI (XO (XI
    XH))))))) :: ((Npos (XI (XO (XO (XO (XO (XI XH))))))) :: ((Npos (XO (XO
    (XI (XO (XI (XI XH))))))) :: ((Npos (XI (XO (XI (XO (XO (XI
    XH))))))) :: []))))))))

(** val f_position : bytes **)

let f_position =
  b ((Npos (XO (XO (XO (XO (XI (XI XH))))))) :: ((Npos (XI (XI (XI (XI (XO
    (XI XH))))))) :: ((Npos (XI (XI (XO (XO (XI (XI XH))))))) :: ((Npos (XI
    (XO (XO (XI (XO (XI XH))))))) :: ((Npos (XO (XO (XI (XO (XI (XI
    XH))))))) :: ((Npos (XI (XO (XO (XI (XO (XI XH))))))) :: ((Npos (XI (XI
    (XI (XI (XO (XI XH))))))) :: ((Npos (XO (XI (XI (XI (XO (XI
    XH))))))) :: []))))))))

(** val f_start : bytes **)

let f_start =
  b ((Npos (XI (XI (XO (XO (XI (XI XH))))))) :: ((Npos (XO (XO (XI (XO (XI
    (XI XH))))))) :: ((Npos (XI (XO (XO (XO (XO (XI XH))))))) :: ((Npos (XO
    (XI (XO (XO (XI (XI XH))))))) :: ((Npos (XO (XO (XI (XO (XI (XI
    XH))))))) :: [])))))

(** val f_length : bytes **)

let f_length =
  b ((Npos (XO (XO (XI (XI (XO (XI XH))))))) :: ((Npos (XI (XO (XI (XO (XO
    (XI XH))))))) :: ((Npos (XO (XI (XI (XI (XO (XI XH))))))) :: ((Npos (XI
    (XI (XI (XO (XO (XI XH))))))) :: ((Npos (XO (XO (XI (XO (XI (XI
    XH))))))) :: ((Npos (XO (XO (XO (XI (XO (XI XH))))))) :: []))))))

(** val f_name : bytes **)

let f_name =
  b ((Npos (XO (XI (XI (XI (XO (XI XH))))))) :: ((Npos (XI (XO (XO (XO (XO
    (XI XH))))))) :: ((Npos (XI (XO (XI (XI (XO (XI XH))))))) :: ((Npos (XI
    (XO (XI (XO (XO (XI XH))))))) :: []))))

(** val f_arrow : bytes **)

let f_arrow =
  b ((Npos (XI (XO (XO (XO (XO (XI XH))))))) :: ((Npos (XO (XI (XO (XO (XI
    (XI XH))))))) :: ((Npos (XO (XI (XO (XO (XI (XI XH))))))) :: ((Npos (XI
    (XI (XI (XI (XO (XI XH))))))) :: ((Npos (XI (XI (XI (XO (XI (XI
    XH))))))) :: [])))))

(** val f_conflicts : bytes **)

let f_conflicts =
  b ((Npos (XI (XI (XO (XO (XO (XI XH))))))) :: ((Npos (XI (XI (XI (XI (XO
    (XI XH))))))) :: ((Npos (XO (XI (XI (XI (XO (XI XH))))))) :: ((Npos (XO
    (XI (XI (XO (XO (XI XH))))))) :: ((Npos (XO (XO (XI (XI (XO (XI
    XH))))))) :: ((Npos (XI (XO (XO (XI (XO (XI XH))))))) :: ((Npos (XI (XI
    (XO (XO (XO (XI XH))))))) :: ((Npos (XO (XO (XI (XO (XI (XI
    XH))))))) :: ((Npos (XI (XI (XO (XO (XI (XI XH))))))) :: [])))))))))

(** val f_constraint : bytes **)

let f_constraint =
  b ((Npos (XI (XI (XO (XO (XO (XI XH))))))) :: ((Npos (XI (XI (XI (XI (XO
    (XI XH))))))) :: ((Npos (XO (XI (XI (XI (XO (XI XH))))))) :: ((Npos (XI
    (XI (XO (XO (XI (XI XH))))))) :: ((Npos (XO (XO (XI (XO (XI (XI
    XH))))))) :: ((Npos (XO (XI (XO (XO (XI (XI XH))))))) :: ((Npos (XI (XO
    (XO (XO (XO (XI XH))))))) :: ((Npos (XI (XO (XO (XI (XO (XI
    XH))))))) :: ((Npos (XO (XI (XI (XI (XO (XI XH))))))) :: ((Npos (XO (XO
    (XI (XO (XI (XI XH))))))) :: []))))))))))

(** val f_inserted : bytes **)

let f_inserted =
  b ((Npos (XI (XO (XO (XI (XO (XI XH))))))) :: ((Npos (XO (XI (XI (XI (XO
    (XI XH))))))) :: ((Npos (XI (XI (XO (XO (XI (XI XH))))))) :: ((Npos (XI
    (XO (XI (XO (XO (XI XH))))))) :: ((Npos (XO (XI (XO (XO (XI (XI
    XH))))))) :: ((Npos (XO (XO (XI (XO (XI (XI XH))))))) :: ((Npos (XI (XO
    (XI (XO (XO (XI XH))))))) :: ((Npos (XO (XO (XI (XO (XO (XI
    XH))))))) :: []))))))))

(** val f_existing_type : bytes **)

let f_existing_type =
  b ((Npos (XI (XO (XI (XO (XO (XI XH))))))) :: ((Npos (XO (XO (XO (XI (XI
    (XI XH))))))) :: ((Npos (XI (XO (XO (XI (XO (XI XH))))))) :: ((Npos (XI
    (XI (XO (XO (XI (XI XH))))))) :: ((Npos (XO (XO (XI (XO (XI (XI
    XH))))))) :: ((Npos (XI (XO (XO (XI (XO (XI XH))))))) :: ((Npos (XO (XI
    (XI (XI (XO (XI XH))))))) :: ((Npos (XI (XI (XI (XO (XO (XI
    XH))))))) :: ((Npos (XI (XI (XI (XI (XI (XO XH))))))) :: ((Npos (XO (XO
    (XI (XO (XI (XI XH))))))) :: ((Npos (XI (XO (XO (XI (XI (XI
    XH))))))) :: ((Npos (XO (XO (XO (XO (XI (XI XH))))))) :: ((Npos (XI (XO
    (XI (XO (XO (XI XH))))))) :: [])))))))))))))

(** val f_new_type : bytes **)

let f_new_type =
  b ((Npos (XO (XI (XI (XI (XO (XI XH))))))) :: ((Npos (XI (XO (XI (XO (XO
    (XI XH))))))) :: ((Npos (XI (XI (XI (XO (XI (XI XH))))))) :: ((Npos (XI
    (XI (XI (XI (XI (XO XH))))))) :: ((Npos (XO (XO (XI (XO (XI (XI
    XH))))))) :: ((Npos (XI (XO (XO (XI (XI (XI XH))))))) :: ((Npos (XO (XO
    (XO (XO (XI (XI XH))))))) :: ((Npos (XI (XO (XI (XO (XO (XI
    XH))))))) :: []))))))))

(** val f_first : bytes **)

let f_first =
  b ((Npos (XO (XI (XI (XO (XO (XI XH))))))) :: ((Npos (XI (XO (XO (XI (XO
    (XI XH))))))) :: ((Npos (XO (XI (XO (XO (XI (XI XH))))))) :: ((Npos (XI
    (XI (XO (XO (XI (XI XH))))))) :: ((Npos (XO (XO (XI (XO (XI (XI
    XH))))))) :: [])))))

(** val f_first_length : bytes **)

let f_first_length =
  b ((Npos (XO (XI (XI (XO (XO (XI XH))))))) :: ((Npos (XI (XO (XO (XI (XO
    (XI XH))))))) :: ((Npos (XO (XI (XO (XO (XI (XI XH))))))) :: ((Npos (XI
    (XI (XO (XO (XI (XI XH))))))) :: ((Npos (XO (XO (XI (XO (XI (XI
    XH))))))) :: ((Npos (XI (XI (XI (XI (XI (XO XH))))))) :: ((Npos (XO (XO
    (XI (XI (XO (XI XH))))))) :: ((Npos (XI (XO (XI (XO (XO (XI
    XH))))))) :: ((Npos (XO (XI (XI (XI (XO (XI XH))))))) :: ((Npos (XI (XI
    (XI (XO (XO (XI XH))))))) :: ((Npos (XO (XO (XI (XO (XI (XI
    XH))))))) :: ((Npos (XO (XO (XO (XI (XO (XI XH))))))) :: []))))))))))))

(** val f_second : bytes **)

let f_second =
  b ((Npos (XI (XI (XO (XO (XI (XI XH))))))) :: ((Npos (XI (XO (XI (XO (XO
    (XI XH))))))) :: ((Npos (XI (XI (XO (XO (XO (XI XH))))))) :: ((Npos (XI
    (XI (XI (XI (XO (XI XH))))))) :: ((Npos (XO (XI (XI (XI (XO (XI
    XH))))))) :: ((Npos (XO (XO (XI (XO (XO (XI XH))))))) :: []))))))

(** val f_second_length : bytes **)

let f_second_length =
  b ((Npos (XI (XI (XO (XO (XI (XI XH))))))) :: ((Npos (XI (XO (XI (XO (XO
    (XI XH))))))) :: ((Npos (XI (XI (XO (XO (XO (XI XH))))))) :: ((Npos (XI
    (XI (XI (XI (XO (XI XH))))))) :: ((Npos (XO (XI (XI (XI (XO (XI
    XH))))))) :: ((Npos (XO (XO (XI (XO (XO (XI XH))))))) :: ((Npos (XI (XI
    (XI (XI (XI (XO XH))))))) :: ((Npos (XO (XO (XI (XI (XO (XI
    XH))))))) :: ((Npos (XI (XO (XI (XO (XO (XI XH))))))) :: ((Npos (XO (XI
    (XI (XI (XO (XI XH))))))) :: ((Npos (XI (XI (XI (XO (XO (XI
    XH))))))) :: ((Npos (XO (XO (XI (XO (XI (XI XH))))))) :: ((Npos (XO (XO
    (XO (XI (XO (XI XH))))))) :: [])))))))))))))

(** val lookup : 'a1 -> bytes -> (bytes * 'a1) list -> 'a1 **)

let lookup d k env =
  match find (fun kv -> beqb (fst kv) k) env with
  | Some kv -> snd kv
  | None -> d

(** val cARET : byte **)

let cARET =
  Npos (XO (XI (XI (XI (XI (XO XH))))))

(** val sP : byte **)

let sP =
  Npos (XO (XO (XO (XO (XO XH)))))

(** val set_carets : bytes -> nat -> nat -> bytes **)

let rec set_carets s a l =
  match s with
  | [] -> []
  | c :: s' ->
    (match a with
     | O -> (match l with
             | O -> s
             | S l' -> cARET :: (set_carets s' O l'))
     | S a' -> c :: (set_carets s' a' l))

(** val arrow_text :
    arrow -> (bytes * bytes) list -> (bytes * nat) list -> bytes **)

let arrow_text ar senv nenv =
  match ar with
  | ASpacesFixed (pos, n0) ->
    app (repeat sP (lookup O pos nenv)) (repeat cARET n0)
  | ASpacesCarets (pos, len) ->
    app (repeat sP (lookup O pos nenv)) (repeat cARET (lookup O len nenv))
  | ADupRanges ->
    set_carets
      (set_carets (repeat sP (length (lookup [] f_template senv)))
        (lookup O f_first nenv) (lookup O f_first_length nenv))
      (lookup O f_second nenv) (lookup O f_second_length nenv)
  | _ -> []

(** val join_nl : bytes list -> bytes **)

let rec join_nl = function
| [] -> []
| x :: l' -> (match l' with
              | [] -> x
              | _ :: _ -> app x (app nL (join_nl l')))

(** val conflicts_text : arrow -> bytes list -> bytes **)

let conflicts_text ar conflicts =
  match ar with
  | AConflictList indent ->
    trim_end
      (join_nl
        (map (fun c ->
          app (repeat sP indent)
            (app ((Npos (XI (XO (XI (XI (XO XH)))))) :: (sP :: [])) c))
          conflicts))
  | _ -> []

(** val interp :
    chunk list -> arrow -> (bytes * bytes) list -> (bytes * nat) list ->
    bytes list -> bytes **)

let interp fmt ar senv nenv conflicts =
  flat_map (fun c ->
    match c with
    | CLit s -> s
    | CField f ->
      if beqb f f_arrow
      then arrow_text ar senv nenv
      else if beqb f f_conflicts
           then conflicts_text ar conflicts
           else lookup [] f senv) fmt

(** val render_terr : terr -> bytes **)

let render_terr = function
| EEmpty -> interp fmt_TemplateError_Empty arrow_TemplateError_Empty [] [] []
| EMissingLeadingSlash t ->
  interp fmt_TemplateError_MissingLeadingSlash
    arrow_TemplateError_MissingLeadingSlash ((f_template, t) :: []) [] []
| EEmptyBraces (t, p0) ->
  interp fmt_TemplateError_EmptyBraces arrow_TemplateError_EmptyBraces
    ((f_template, t) :: []) ((f_position, p0) :: []) []
| EUnbalancedBrace (t, p0) ->
  interp fmt_TemplateError_UnbalancedBrace
    arrow_TemplateError_UnbalancedBrace ((f_template, t) :: []) ((f_position,
    p0) :: []) []
| EEmptyParentheses (t, p0) ->
  interp fmt_TemplateError_EmptyParentheses
    arrow_TemplateError_EmptyParentheses ((f_template, t) :: [])
    ((f_position, p0) :: []) []
| EUnbalancedParenthesis (t, p0) ->
  interp fmt_TemplateError_UnbalancedParenthesis
    arrow_TemplateError_UnbalancedParenthesis ((f_template, t) :: [])
    ((f_position, p0) :: []) []
| EEmptyParameter (t, s, l) ->
  interp fmt_TemplateError_EmptyParameter arrow_TemplateError_EmptyParameter
    ((f_template, t) :: []) ((f_start, s) :: ((f_length, l) :: [])) []
| EInvalidParameter (t, n0, s, l) ->
  interp fmt_TemplateError_InvalidParameter
    arrow_TemplateError_InvalidParameter ((f_template, t) :: ((f_name,
    n0) :: [])) ((f_start, s) :: ((f_length, l) :: [])) []
| EDuplicateParameter (t, n0, f, fl0, s, sl) ->
  interp fmt_TemplateError_DuplicateParameter
    arrow_TemplateError_DuplicateParameter ((f_template, t) :: ((f_name,
    n0) :: [])) ((f_first, f) :: ((f_first_length, fl0) :: ((f_second,
    s) :: ((f_second_length, sl) :: [])))) []
| EEmptyWildcard (t, s, l) ->
  interp fmt_TemplateError_EmptyWildcard arrow_TemplateError_EmptyWildcard
    ((f_template, t) :: []) ((f_start, s) :: ((f_length, l) :: [])) []
| EEmptyConstraint (t, s, l) ->
  interp fmt_TemplateError_EmptyConstraint
    arrow_TemplateError_EmptyConstraint ((f_template, t) :: []) ((f_start,
    s) :: ((f_length, l) :: [])) []
| EInvalidConstraint (t, n0, s, l) ->
  interp fmt_TemplateError_InvalidConstraint
    arrow_TemplateError_InvalidConstraint ((f_template, t) :: ((f_name,
    n0) :: [])) ((f_start, s) :: ((f_length, l) :: [])) []
| ETouchingParameters (t, s, l) ->
  interp fmt_TemplateError_TouchingParameters
    arrow_TemplateError_TouchingParameters ((f_template, t) :: []) ((f_start,
    s) :: ((f_length, l) :: [])) []

(** val is_delegate : arrow -> bool **)

let is_delegate = function
| ADelegate -> true
| _ -> false

(** val render_insert_err : insert_err -> bytes **)

let render_insert_err = function
| IETemplate te ->
  if is_delegate arrow_InsertError_Template then render_terr te else []
| IEConflict (t, cs) ->
  interp fmt_InsertError_Conflict arrow_InsertError_Conflict ((f_template,
    t) :: []) [] cs
| IEUnknownConstraint c ->
  interp fmt_InsertError_UnknownConstraint
    arrow_InsertError_UnknownConstraint ((f_constraint, c) :: []) [] []

(** val render_delete_err : delete_err -> bytes **)

let render_delete_err = function
| DETemplate te ->
  if is_delegate arrow_DeleteError_Template then render_terr te else []
| DENotFound t ->
  interp fmt_DeleteError_NotFound arrow_DeleteError_NotFound ((f_template,
    t) :: []) [] []
| DEMismatch (t, i) ->
  interp fmt_DeleteError_Mismatch arrow_DeleteError_Mismatch ((f_template,
    t) :: ((f_inserted, i) :: [])) [] []

(** val render_constraint_err : constraint_err -> bytes **)

let render_constraint_err = function
| CEDuplicateName (n0, old, new0) ->
  interp fmt_ConstraintError_DuplicateName
    arrow_ConstraintError_DuplicateName ((f_name, n0) :: ((f_existing_type,
    old) :: ((f_new_type, new0) :: []))) [] []

(** val is_digit : byte -> bool **)

let is_digit b0 =
  (&&) (N.leb (Npos (XO (XO (XO (XO (XI XH)))))) b0)
    (N.leb b0 (Npos (XI (XO (XO (XI (XI XH)))))))

(** val is_lower : byte -> bool **)

let is_lower b0 =
  (&&) (N.leb (Npos (XI (XO (XO (XO (XO (XI XH))))))) b0)
    (N.leb b0 (Npos (XO (XI (XO (XI (XI (XI XH))))))))

(** val dec_val : n -> bytes -> n **)

let rec dec_val acc = function
| [] -> acc
| b0 :: s' ->
  dec_val
    (N.min (Npos (XO (XO (XO (XI (XO (XI (XI (XI (XI XH))))))))))
      (N.add (N.mul acc (Npos (XO (XI (XO XH)))))
        (N.sub b0 (Npos (XO (XO (XO (XO (XI XH))))))))) s'

(** val u8_ok : bytes -> bool **)

let u8_ok v =
  let digits =
    match v with
    | [] -> v
    | b0 :: r ->
      (match b0 with
       | N0 -> v
       | Npos p0 ->
         (match p0 with
          | XI p1 ->
            (match p1 with
             | XI p2 ->
               (match p2 with
                | XO p3 ->
                  (match p3 with
                   | XI p4 ->
                     (match p4 with
                      | XO p5 -> (match p5 with
                                  | XH -> r
                                  | _ -> v)
                      | _ -> v)
                   | _ -> v)
                | _ -> v)
             | _ -> v)
          | _ -> v))
  in
  (match digits with
   | [] -> false
   | _ :: _ ->
     (&&) (forallb is_digit digits)
       (N.leb (dec_val N0 digits) (Npos (XI (XI (XI (XI (XI (XI (XI
         XH))))))))))

(** val nAME_LOWER : bytes **)

let nAME_LOWER =
  (Npos (XO (XO (XI (XI (XO (XI XH))))))) :: ((Npos (XI (XI (XI (XI (XO (XI
    XH))))))) :: ((Npos (XI (XI (XI (XO (XI (XI XH))))))) :: ((Npos (XI (XO
    (XI (XO (XO (XI XH))))))) :: ((Npos (XO (XI (XO (XO (XI (XI
    XH))))))) :: []))))

(** val nAME_EVEN : bytes **)

let nAME_EVEN =
  (Npos (XI (XO (XI (XO (XO (XI XH))))))) :: ((Npos (XO (XI (XI (XO (XI (XI
    XH))))))) :: ((Npos (XI (XO (XI (XO (XO (XI XH))))))) :: ((Npos (XO (XI
    (XI (XI (XO (XI XH))))))) :: [])))

(** val nAME_NOA : bytes **)

let nAME_NOA =
  (Npos (XO (XI (XI (XI (XO (XI XH))))))) :: ((Npos (XI (XI (XI (XI (XO (XI
    XH))))))) :: ((Npos (XI (XO (XO (XO (XO (XI XH))))))) :: []))

(** val nAME_U8 : bytes **)

let nAME_U8 =
  (Npos (XI (XO (XI (XO (XI (XI XH))))))) :: ((Npos (XO (XO (XO (XI (XI
    XH)))))) :: [])

(** val cfun : bytes -> bytes -> bool **)

let cfun name v =
  if beqb name nAME_LOWER
  then forallb is_lower v
  else if beqb name nAME_EVEN
       then even (length v)
       else if beqb name nAME_NOA
            then negb
                   (match rev v with
                    | [] -> false
                    | b0 :: _ ->
                      (match b0 with
                       | N0 -> false
                       | Npos p0 ->
                         (match p0 with
                          | XI p1 ->
                            (match p1 with
                             | XO p2 ->
                               (match p2 with
                                | XO p3 ->
                                  (match p3 with
                                   | XO p4 ->
                                     (match p4 with
                                      | XO p5 ->
                                        (match p5 with
                                         | XI p6 ->
                                           (match p6 with
                                            | XH -> true
                                            | _ -> false)
                                         | _ -> false)
                                      | _ -> false)
                                   | _ -> false)
                                | _ -> false)
                             | _ -> false)
                          | _ -> false)))
            else if beqb name nAME_U8 then u8_ok v else false

type tok = bytes

(** val w0 : string -> bytes **)

let w0 s =
  map n_of_ascii (list_ascii_of_string s)

(** val split_sp : bytes -> bytes -> tok list **)

let rec split_sp s cur =
  match s with
  | [] -> (match cur with
           | [] -> []
           | _ :: _ -> (rev cur) :: [])
  | c :: s' ->
    if N.eqb c (Npos (XO (XO (XO (XO (XO XH))))))
    then (match cur with
          | [] -> split_sp s' []
          | _ :: _ -> (rev cur) :: (split_sp s' []))
    else split_sp s' (c :: cur)

(** val tokens : bytes -> tok list **)

let tokens line =
  split_sp line []

type 'a p = tok list -> ('a * tok list) option

(** val pret : 'a1 -> 'a1 p **)

let pret a ts =
  Some (a, ts)

(** val pbind : 'a1 p -> ('a1 -> 'a2 p) -> 'a2 p **)

let pbind p0 f ts =
  match p0 ts with
  | Some p1 -> let (a, ts') = p1 in f a ts'
  | None -> None

(** val pfail : 'a1 p **)

let pfail _ =
  None

(** val ptok : tok p **)

let ptok = function
| [] -> None
| t :: ts' -> Some (t, ts')

(** val hexval : n -> n option **)

let hexval c =
  if (&&) (N.leb (Npos (XO (XO (XO (XO (XI XH)))))) c)
       (N.leb c (Npos (XI (XO (XO (XI (XI XH)))))))
  then Some (N.sub c (Npos (XO (XO (XO (XO (XI XH)))))))
  else if (&&) (N.leb (Npos (XI (XO (XO (XO (XO (XI XH))))))) c)
            (N.leb c (Npos (XO (XI (XI (XO (XO (XI XH))))))))
       then Some (N.sub c (Npos (XI (XI (XI (XO (XI (XO XH))))))))
       else None

(** val unhex : bytes -> bytes option **)

let rec unhex = function
| [] -> Some []
| a :: l ->
  (match l with
   | [] -> None
   | b0 :: s' ->
     (match hexval a with
      | Some x ->
        (match hexval b0 with
         | Some y ->
           (match unhex s' with
            | Some r ->
              Some ((N.add (N.mul x (Npos (XO (XO (XO (XO XH)))))) y) :: r)
            | None -> None)
         | None -> None)
      | None -> None))

(** val phex : bytes p **)

let phex =
  pbind ptok (fun t ->
    match t with
    | [] -> pfail
    | b0 :: h ->
      (match b0 with
       | N0 -> pfail
       | Npos p0 ->
         (match p0 with
          | XO p1 ->
            (match p1 with
             | XO p2 ->
               (match p2 with
                | XO p3 ->
                  (match p3 with
                   | XI p4 ->
                     (match p4 with
                      | XI p5 ->
                        (match p5 with
                         | XI p6 ->
                           (match p6 with
                            | XH ->
                              (match unhex h with
                               | Some b1 -> pret b1
                               | None -> pfail)
                            | _ -> pfail)
                         | _ -> pfail)
                      | _ -> pfail)
                   | _ -> pfail)
                | _ -> pfail)
             | _ -> pfail)
          | _ -> pfail)))

(** val decval : n -> bytes -> n option **)

let rec decval acc = function
| [] -> Some acc
| c :: s' ->
  if (&&) (N.leb (Npos (XO (XO (XO (XO (XI XH)))))) c)
       (N.leb c (Npos (XI (XO (XO (XI (XI XH)))))))
  then decval
         (N.add (N.mul acc (Npos (XO (XI (XO XH)))))
           (N.sub c (Npos (XO (XO (XO (XO (XI XH)))))))) s'
  else None

(** val pnum : n p **)

let pnum =
  pbind ptok (fun t ->
    match t with
    | [] -> pfail
    | _ :: _ -> (match decval N0 t with
                 | Some n0 -> pret n0
                 | None -> pfail))

(** val pnat : nat p **)

let pnat =
  pbind pnum (fun n0 -> pret (N.to_nat n0))

(** val pbool : bool p **)

let pbool =
  pbind pnum (fun n0 -> pret (negb (N.eqb n0 N0)))

(** val popt : 'a1 p -> 'a1 option p **)

let popt p0 =
  pbind ptok (fun t ->
    if beqb t ((Npos (XO (XI (XI (XI (XO (XO XH))))))) :: [])
    then pret None
    else if beqb t ((Npos (XI (XI (XO (XO (XI (XO XH))))))) :: [])
         then pbind p0 (fun a -> pret (Some a))
         else pfail)

(** val prep : nat -> 'a1 p -> 'a1 list p **)

let rec prep n0 p0 =
  match n0 with
  | O -> pret []
  | S n' -> pbind p0 (fun a -> pbind (prep n' p0) (fun r -> pret (a :: r)))

(** val plist : 'a1 p -> 'a1 list p **)

let plist p0 =
  pbind pnat (fun n0 -> prep n0 p0)

type sres = (((bytes * bytes option) * n) * params) option

type rsearch_res =
| SPanic
| SRes of sres

type event =
| EvNew of n
| EvClone of n * n
| EvConstraint of n * bytes * bytes * (constraint_err, unit) result * bytes
| EvInsert of n * bytes * n * (insert_err, unit) result * bytes * node * bytes
| EvDelete of n * bytes * (delete_err, n) result * bytes * node * bytes
| EvSearch of n * bytes * rsearch_res
| EvDumpOf of n * node * bytes
| EvSame of n * n
| EvParse of bytes * expansion list out * bytes
| EvBuiltin of bytes * bytes * bool * bool
| EvOci of bytes * bytes * (bytes * params) option
| EvEnd

(** val pterr : terr p **)

let pterr =
  pbind ptok (fun t ->
    match t with
    | [] -> pfail
    | b0 :: l ->
      (match b0 with
       | N0 -> pfail
       | Npos p0 ->
         (match p0 with
          | XI p1 ->
            (match p1 with
             | XO p2 ->
               (match p2 with
                | XI p3 ->
                  (match p3 with
                   | XO p4 ->
                     (match p4 with
                      | XO p5 ->
                        (match p5 with
                         | XI p6 ->
                           (match p6 with
                            | XH ->
                              (match l with
                               | [] -> pfail
                               | d :: l0 ->
                                 (match d with
                                  | N0 ->
                                    (match l0 with
                                     | [] ->
                                       (match N.sub d (Npos (XO (XO (XO (XO
                                                (XI XH)))))) with
                                        | N0 -> pret EEmpty
                                        | Npos p7 ->
                                          (match p7 with
                                           | XI p8 ->
                                             (match p8 with
                                              | XI p9 ->
                                                (match p9 with
                                                 | XH ->
                                                   pbind phex (fun x ->
                                                     pbind phex (fun n0 ->
                                                       pbind pnat (fun s ->
                                                         pbind pnat
                                                           (fun l1 ->
                                                           pret
                                                             (EInvalidParameter
                                                             (x, n0, s, l1))))))
                                                 | _ -> pfail)
                                              | XO p9 ->
                                                (match p9 with
                                                 | XI _ -> pfail
                                                 | XO p10 ->
                                                   (match p10 with
                                                    | XH ->
                                                      pbind phex (fun x ->
                                                        pbind pnat (fun s ->
                                                          pbind pnat
                                                            (fun l1 ->
                                                            pret
                                                              (EEmptyWildcard
                                                              (x, s, l1)))))
                                                    | _ -> pfail)
                                                 | XH ->
                                                   pbind phex (fun x ->
                                                     pbind pnat (fun p10 ->
                                                       pret
                                                         (EUnbalancedParenthesis
                                                         (x, p10)))))
                                              | XH ->
                                                pbind phex (fun x ->
                                                  pbind pnat (fun p9 ->
                                                    pret (EUnbalancedBrace
                                                      (x, p9)))))
                                           | XO p8 ->
                                             (match p8 with
                                              | XI p9 ->
                                                (match p9 with
                                                 | XH ->
                                                   pbind phex (fun x ->
                                                     pbind pnat (fun s ->
                                                       pbind pnat (fun l1 ->
                                                         pret
                                                           (EEmptyParameter
                                                           (x, s, l1)))))
                                                 | _ -> pfail)
                                              | XO p9 ->
                                                (match p9 with
                                                 | XI _ -> pfail
                                                 | XO p10 ->
                                                   (match p10 with
                                                    | XH ->
                                                      pbind phex (fun x ->
                                                        pbind phex (fun n0 ->
                                                          pbind pnat
                                                            (fun f ->
                                                            pbind pnat
                                                              (fun fl0 ->
                                                              pbind pnat
                                                                (fun s ->
                                                                pbind pnat
                                                                  (fun sl ->
                                                                  pret
                                                                    (EDuplicateParameter
                                                                    (x, n0,
                                                                    f, fl0,
                                                                    s, sl))))))))
                                                    | _ -> pfail)
                                                 | XH ->
                                                   pbind phex (fun x ->
                                                     pbind pnat (fun p10 ->
                                                       pret
                                                         (EEmptyParentheses
                                                         (x, p10)))))
                                              | XH ->
                                                pbind phex (fun x ->
                                                  pbind pnat (fun p9 ->
                                                    pret (EEmptyBraces (x,
                                                      p9)))))
                                           | XH ->
                                             pbind phex (fun x ->
                                               pret (EMissingLeadingSlash x))))
                                     | _ :: _ -> pfail)
                                  | Npos p7 ->
                                    (match p7 with
                                     | XI p8 ->
                                       (match p8 with
                                        | XO p9 ->
                                          (match p9 with
                                           | XO p10 ->
                                             (match p10 with
                                              | XO p11 ->
                                                (match p11 with
                                                 | XI p12 ->
                                                   (match p12 with
                                                    | XH ->
                                                      (match l0 with
                                                       | [] ->
                                                         (match N.sub d (Npos
                                                                  (XO (XO (XO
                                                                  (XO (XI
                                                                  XH)))))) with
                                                          | N0 -> pret EEmpty
                                                          | Npos p13 ->
                                                            (match p13 with
                                                             | XI p14 ->
                                                               (match p14 with
                                                                | XI p15 ->
                                                                  (match p15 with
                                                                   | XH ->
                                                                    pbind
                                                                    phex
                                                                    (fun x ->
                                                                    pbind
                                                                    phex
                                                                    (fun n0 ->
                                                                    pbind
                                                                    pnat
                                                                    (fun s ->
                                                                    pbind
                                                                    pnat
                                                                    (fun l1 ->
                                                                    pret
                                                                    (EInvalidParameter
                                                                    (x, n0,
                                                                    s, l1))))))
                                                                   | _ ->
                                                                    pfail)
                                                                | XO p15 ->
                                                                  (match p15 with
                                                                   | XI _ ->
                                                                    pfail
                                                                   | XO p16 ->
                                                                    (match p16 with
                                                                    | XH ->
                                                                    pbind
                                                                    phex
                                                                    (fun x ->
                                                                    pbind
                                                                    pnat
                                                                    (fun s ->
                                                                    pbind
                                                                    pnat
                                                                    (fun l1 ->
                                                                    pret
                                                                    (EEmptyWildcard
                                                                    (x, s,
                                                                    l1)))))
                                                                    | _ ->
                                                                    pfail)
                                                                   | XH ->
                                                                    pbind
                                                                    phex
                                                                    (fun x ->
                                                                    pbind
                                                                    pnat
                                                                    (fun p16 ->
                                                                    pret
                                                                    (EUnbalancedParenthesis
                                                                    (x, p16)))))
                                                                | XH ->
                                                                  pbind phex
                                                                    (fun x ->
                                                                    pbind
                                                                    pnat
                                                                    (fun p15 ->
                                                                    pret
                                                                    (EUnbalancedBrace
                                                                    (x, p15)))))
                                                             | XO p14 ->
                                                               (match p14 with
                                                                | XI p15 ->
                                                                  (match p15 with
                                                                   | XH ->
                                                                    pbind
                                                                    phex
                                                                    (fun x ->
                                                                    pbind
                                                                    pnat
                                                                    (fun s ->
                                                                    pbind
                                                                    pnat
                                                                    (fun l1 ->
                                                                    pret
                                                                    (EEmptyParameter
                                                                    (x, s,
                                                                    l1)))))
                                                                   | _ ->
                                                                    pfail)
                                                                | XO p15 ->
                                                                  (match p15 with
                                                                   | XI _ ->
                                                                    pfail
                                                                   | XO p16 ->
                                                                    (match p16 with
                                                                    | XH ->
                                                                    pbind
                                                                    phex
                                                                    (fun x ->
                                                                    pbind
                                                                    phex
                                                                    (fun n0 ->
                                                                    pbind
                                                                    pnat
                                                                    (fun f ->
                                                                    pbind
                                                                    pnat
                                                                    (fun fl0 ->
                                                                    pbind
                                                                    pnat
                                                                    (fun s ->
                                                                    pbind
                                                                    pnat
                                                                    (fun sl ->
                                                                    pret
                                                                    (EDuplicateParameter
                                                                    (x, n0,
                                                                    f, fl0,
                                                                    s, sl))))))))
                                                                    | _ ->
                                                                    pfail)
                                                                   | XH ->
                                                                    pbind
                                                                    phex
                                                                    (fun x ->
                                                                    pbind
                                                                    pnat
                                                                    (fun p16 ->
                                                                    pret
                                                                    (EEmptyParentheses
                                                                    (x, p16)))))
                                                                | XH ->
                                                                  pbind phex
                                                                    (fun x ->
                                                                    pbind
                                                                    pnat
                                                                    (fun p15 ->
                                                                    pret
                                                                    (EEmptyBraces
                                                                    (x, p15)))))
                                                             | XH ->
                                                               pbind phex
                                                                 (fun x ->
                                                                 pret
                                                                   (EMissingLeadingSlash
                                                                   x))))
                                                       | d0 :: l1 ->
                                                         (match l1 with
                                                          | [] ->
                                                            (match N.sub d0
                                                                    (Npos (XO
                                                                    (XO (XO
                                                                    (XO (XI
                                                                    XH)))))) with
                                                             | N0 ->
                                                               pbind phex
                                                                 (fun x ->
                                                                 pbind pnat
                                                                   (fun s ->
                                                                   pbind pnat
                                                                    (fun l2 ->
                                                                    pret
                                                                    (EEmptyConstraint
                                                                    (x, s,
                                                                    l2)))))
                                                             | Npos p13 ->
                                                               (match p13 with
                                                                | XI _ ->
                                                                  pfail
                                                                | XO p14 ->
                                                                  (match p14 with
                                                                   | XH ->
                                                                    pbind
                                                                    phex
                                                                    (fun x ->
                                                                    pbind
                                                                    pnat
                                                                    (fun s ->
                                                                    pbind
                                                                    pnat
                                                                    (fun l2 ->
                                                                    pret
                                                                    (ETouchingParameters
                                                                    (x, s,
                                                                    l2)))))
                                                                   | _ ->
                                                                    pfail)
                                                                | XH ->
                                                                  pbind phex
                                                                    (fun x ->
                                                                    pbind
                                                                    phex
                                                                    (fun n0 ->
                                                                    pbind
                                                                    pnat
                                                                    (fun s ->
                                                                    pbind
                                                                    pnat
                                                                    (fun l2 ->
                                                                    pret
                                                                    (EInvalidConstraint
                                                                    (x, n0,
                                                                    s, l2))))))))
                                                          | _ :: _ -> pfail))
                                                    | _ ->
                                                      (match l0 with
                                                       | [] ->
                                                         (match N.sub d (Npos
                                                                  (XO (XO (XO
                                                                  (XO (XI
                                                                  XH)))))) with
                                                          | N0 -> pret EEmpty
                                                          | Npos p13 ->
                                                            (match p13 with
                                                             | XI p14 ->
                                                               (match p14 with
                                                                | XI p15 ->
                                                                  (match p15 with
                                                                   | XH ->
                                                                    pbind
                                                                    phex
                                                                    (fun x ->
                                                                    pbind
                                                                    phex
                                                                    (fun n0 ->
                                                                    pbind
                                                                    pnat
                                                                    (fun s ->
                                                                    pbind
                                                                    pnat
                                                                    (fun l1 ->
                                                                    pret
                                                                    (EInvalidParameter
                                                                    (x, n0,
                                                                    s, l1))))))
                                                                   | _ ->
                                                                    pfail)
                                                                | XO p15 ->
                                                                  (match p15 with
                                                                   | XI _ ->
                                                                    pfail
                                                                   | XO p16 ->
                                                                    (match p16 with
                                                                    | XH ->
                                                                    pbind
                                                                    phex
                                                                    (fun x ->
                                                                    pbind
                                                                    pnat
                                                                    (fun s ->
                                                                    pbind
                                                                    pnat
                                                                    (fun l1 ->
                                                                    pret
                                                                    (EEmptyWildcard
                                                                    (x, s,
                                                                    l1)))))
                                                                    | _ ->
                                                                    pfail)
                                                                   | XH ->
                                                                    pbind
                                                                    phex
                                                                    (fun x ->
                                                                    pbind
                                                                    pnat
                                                                    (fun p16 ->
                                                                    pret
                                                                    (EUnbalancedParenthesis
                                                                    (x, p16)))))
                                                                | XH ->
                                                                  pbind phex
                                                                    (fun x ->
                                                                    pbind
                                                                    pnat
                                                                    (fun p15 ->
                                                                    pret
                                                                    (EUnbalancedBrace
                                                                    (x, p15)))))
                                                             | XO p14 ->
                                                               (match p14 with
                                                                | XI p15 ->
                                                                  (match p15 with
                                                                   | XH ->
                                                                    pbind
                                                                    phex
                                                                    (fun x ->
                                                                    pbind
                                                                    pnat
                                                                    (fun s ->
                                                                    pbind
                                                                    pnat
                                                                    (fun l1 ->
                                                                    pret
                                                                    (EEmptyParameter
                                                                    (x, s,
                                                                    l1)))))
                                                                   | _ ->
                                                                    pfail)
                                                                | XO p15 ->
                                                                  (match p15 with
                                                                   | XI _ ->
                                                                    pfail
                                                                   | XO p16 ->
                                                                    (match p16 with
                                                                    | XH ->
                                                                    pbind
                                                                    phex
                                                                    (fun x ->
                                                                    pbind
                                                                    phex
                                                                    (fun n0 ->
                                                                    pbind
                                                                    pnat
                                                                    (fun f ->
                                                                    pbind
                                                                    pnat
                                                                    (fun fl0 ->
                                                                    pbind
                                                                    pnat
                                                                    (fun s ->
                                                                    pbind
                                                                    pnat
                                                                    (fun sl ->
                                                                    pret
                                                                    (EDuplicateParameter
                                                                    (x, n0,
                                                                    f, fl0,
                                                                    s, sl))))))))
                                                                    | _ ->
                                                                    pfail)
                                                                   | XH ->
                                                                    pbind
                                                                    phex
                                                                    (fun x ->
                                                                    pbind
                                                                    pnat
                                                                    (fun p16 ->
                                                                    pret
                                                                    (EEmptyParentheses
                                                                    (x, p16)))))
                                                                | XH ->
                                                                  pbind phex
                                                                    (fun x ->
                                                                    pbind
                                                                    pnat
                                                                    (fun p15 ->
                                                                    pret
                                                                    (EEmptyBraces
                                                                    (x, p15)))))
                                                             | XH ->
                                                               pbind phex
                                                                 (fun x ->
                                                                 pret
                                                                   (EMissingLeadingSlash
                                                                   x))))
                                                       | _ :: _ -> pfail))
                                                 | _ ->
                                                   (match l0 with
                                                    | [] ->
                                                      (match N.sub d (Npos
                                                               (XO (XO (XO
                                                               (XO (XI
                                                               XH)))))) with
                                                       | N0 -> pret EEmpty
                                                       | Npos p12 ->
                                                         (match p12 with
                                                          | XI p13 ->
                                                            (match p13 with
                                                             | XI p14 ->
                                                               (match p14 with
                                                                | XH ->
                                                                  pbind phex
                                                                    (fun x ->
                                                                    pbind
                                                                    phex
                                                                    (fun n0 ->
                                                                    pbind
                                                                    pnat
                                                                    (fun s ->
                                                                    pbind
                                                                    pnat
                                                                    (fun l1 ->
                                                                    pret
                                                                    (EInvalidParameter
                                                                    (x, n0,
                                                                    s, l1))))))
                                                                | _ -> pfail)
                                                             | XO p14 ->
                                                               (match p14 with
                                                                | XI _ ->
                                                                  pfail
                                                                | XO p15 ->
                                                                  (match p15 with
                                                                   | XH ->
                                                                    pbind
                                                                    phex
                                                                    (fun x ->
                                                                    pbind
                                                                    pnat
                                                                    (fun s ->
                                                                    pbind
                                                                    pnat
                                                                    (fun l1 ->
                                                                    pret
                                                                    (EEmptyWildcard
                                                                    (x, s,
                                                                    l1)))))
                                                                   | _ ->
                                                                    pfail)
                                                                | XH ->
                                                                  pbind phex
                                                                    (fun x ->
                                                                    pbind
                                                                    pnat
                                                                    (fun p15 ->
                                                                    pret
                                                                    (EUnbalancedParenthesis
                                                                    (x, p15)))))
                                                             | XH ->
                                                               pbind phex
                                                                 (fun x ->
                                                                 pbind pnat
                                                                   (fun p14 ->
                                                                   pret
                                                                    (EUnbalancedBrace
                                                                    (x, p14)))))
                                                          | XO p13 ->
                                                            (match p13 with
                                                             | XI p14 ->
                                                               (match p14 with
                                                                | XH ->
                                                                  pbind phex
                                                                    (fun x ->
                                                                    pbind
                                                                    pnat
                                                                    (fun s ->
                                                                    pbind
                                                                    pnat
                                                                    (fun l1 ->
                                                                    pret
                                                                    (EEmptyParameter
                                                                    (x, s,
                                                                    l1)))))
                                                                | _ -> pfail)
                                                             | XO p14 ->
                                                               (match p14 with
                                                                | XI _ ->
                                                                  pfail
                                                                | XO p15 ->
                                                                  (match p15 with
                                                                   | XH ->
                                                                    pbind
                                                                    phex
                                                                    (fun x ->
                                                                    pbind
                                                                    phex
                                                                    (fun n0 ->
                                                                    pbind
                                                                    pnat
                                                                    (fun f ->
                                                                    pbind
                                                                    pnat
                                                                    (fun fl0 ->
                                                                    pbind
                                                                    pnat
                                                                    (fun s ->
                                                                    pbind
                                                                    pnat
                                                                    (fun sl ->
                                                                    pret
                                                                    (EDuplicateParameter
                                                                    (x, n0,
                                                                    f, fl0,
                                                                    s, sl))))))))
                                                                   | _ ->
                                                                    pfail)
                                                                | XH ->
                                                                  pbind phex
                                                                    (fun x ->
                                                                    pbind
                                                                    pnat
                                                                    (fun p15 ->
                                                                    pret
                                                                    (EEmptyParentheses
                                                                    (x, p15)))))
                                                             | XH ->
                                                               pbind phex
                                                                 (fun x ->
                                                                 pbind pnat
                                                                   (fun p14 ->
                                                                   pret
                                                                    (EEmptyBraces
                                                                    (x, p14)))))
                                                          | XH ->
                                                            pbind phex
                                                              (fun x ->
                                                              pret
                                                                (EMissingLeadingSlash
                                                                x))))
                                                    | _ :: _ -> pfail))
                                              | _ ->
                                                (match l0 with
                                                 | [] ->
                                                   (match N.sub d (Npos (XO
                                                            (XO (XO (XO (XI
                                                            XH)))))) with
                                                    | N0 -> pret EEmpty
                                                    | Npos p11 ->
                                                      (match p11 with
                                                       | XI p12 ->
                                                         (match p12 with
                                                          | XI p13 ->
                                                            (match p13 with
                                                             | XH ->
                                                               pbind phex
                                                                 (fun x ->
                                                                 pbind phex
                                                                   (fun n0 ->
                                                                   pbind pnat
                                                                    (fun s ->
                                                                    pbind
                                                                    pnat
                                                                    (fun l1 ->
                                                                    pret
                                                                    (EInvalidParameter
                                                                    (x, n0,
                                                                    s, l1))))))
                                                             | _ -> pfail)
                                                          | XO p13 ->
                                                            (match p13 with
                                                             | XI _ -> pfail
                                                             | XO p14 ->
                                                               (match p14 with
                                                                | XH ->
                                                                  pbind phex
                                                                    (fun x ->
                                                                    pbind
                                                                    pnat
                                                                    (fun s ->
                                                                    pbind
                                                                    pnat
                                                                    (fun l1 ->
                                                                    pret
                                                                    (EEmptyWildcard
                                                                    (x, s,
                                                                    l1)))))
                                                                | _ -> pfail)
                                                             | XH ->
                                                               pbind phex
                                                                 (fun x ->
                                                                 pbind pnat
                                                                   (fun p14 ->
                                                                   pret
                                                                    (EUnbalancedParenthesis
                                                                    (x, p14)))))
                                                          | XH ->
                                                            pbind phex
                                                              (fun x ->
                                                              pbind pnat
                                                                (fun p13 ->
                                                                pret
                                                                  (EUnbalancedBrace
                                                                  (x, p13)))))
                                                       | XO p12 ->
                                                         (match p12 with
                                                          | XI p13 ->
                                                            (match p13 with
                                                             | XH ->
                                                               pbind phex
                                                                 (fun x ->
                                                                 pbind pnat
                                                                   (fun s ->
                                                                   pbind pnat
                                                                    (fun l1 ->
                                                                    pret
                                                                    (EEmptyParameter
                                                                    (x, s,
                                                                    l1)))))
                                                             | _ -> pfail)
                                                          | XO p13 ->
                                                            (match p13 with
                                                             | XI _ -> pfail
                                                             | XO p14 ->
                                                               (match p14 with
                                                                | XH ->
                                                                  pbind phex
                                                                    (fun x ->
                                                                    pbind
                                                                    phex
                                                                    (fun n0 ->
                                                                    pbind
                                                                    pnat
                                                                    (fun f ->
                                                                    pbind
                                                                    pnat
                                                                    (fun fl0 ->
                                                                    pbind
                                                                    pnat
                                                                    (fun s ->
                                                                    pbind
                                                                    pnat
                                                                    (fun sl ->
                                                                    pret
                                                                    (EDuplicateParameter
                                                                    (x, n0,
                                                                    f, fl0,
                                                                    s, sl))))))))
                                                                | _ -> pfail)
                                                             | XH ->
                                                               pbind phex
                                                                 (fun x ->
                                                                 pbind pnat
                                                                   (fun p14 ->
                                                                   pret
                                                                    (EEmptyParentheses
                                                                    (x, p14)))))
                                                          | XH ->
                                                            pbind phex
                                                              (fun x ->
                                                              pbind pnat
                                                                (fun p13 ->
                                                                pret
                                                                  (EEmptyBraces
                                                                  (x, p13)))))
                                                       | XH ->
                                                         pbind phex (fun x ->
                                                           pret
                                                             (EMissingLeadingSlash
                                                             x))))
                                                 | _ :: _ -> pfail))
                                           | _ ->
                                             (match l0 with
                                              | [] ->
                                                (match N.sub d (Npos (XO (XO
                                                         (XO (XO (XI XH)))))) with
                                                 | N0 -> pret EEmpty
                                                 | Npos p10 ->
                                                   (match p10 with
                                                    | XI p11 ->
                                                      (match p11 with
                                                       | XI p12 ->
                                                         (match p12 with
                                                          | XH ->
                                                            pbind phex
                                                              (fun x ->
                                                              pbind phex
                                                                (fun n0 ->
                                                                pbind pnat
                                                                  (fun s ->
                                                                  pbind pnat
                                                                    (fun l1 ->
                                                                    pret
                                                                    (EInvalidParameter
                                                                    (x, n0,
                                                                    s, l1))))))
                                                          | _ -> pfail)
                                                       | XO p12 ->
                                                         (match p12 with
                                                          | XI _ -> pfail
                                                          | XO p13 ->
                                                            (match p13 with
                                                             | XH ->
                                                               pbind phex
                                                                 (fun x ->
                                                                 pbind pnat
                                                                   (fun s ->
                                                                   pbind pnat
                                                                    (fun l1 ->
                                                                    pret
                                                                    (EEmptyWildcard
                                                                    (x, s,
                                                                    l1)))))
                                                             | _ -> pfail)
                                                          | XH ->
                                                            pbind phex
                                                              (fun x ->
                                                              pbind pnat
                                                                (fun p13 ->
                                                                pret
                                                                  (EUnbalancedParenthesis
                                                                  (x, p13)))))
                                                       | XH ->
                                                         pbind phex (fun x ->
                                                           pbind pnat
                                                             (fun p12 ->
                                                             pret
                                                               (EUnbalancedBrace
                                                               (x, p12)))))
                                                    | XO p11 ->
                                                      (match p11 with
                                                       | XI p12 ->
                                                         (match p12 with
                                                          | XH ->
                                                            pbind phex
                                                              (fun x ->
                                                              pbind pnat
                                                                (fun s ->
                                                                pbind pnat
                                                                  (fun l1 ->
                                                                  pret
                                                                    (EEmptyParameter
                                                                    (x, s,
                                                                    l1)))))
                                                          | _ -> pfail)
                                                       | XO p12 ->
                                                         (match p12 with
                                                          | XI _ -> pfail
                                                          | XO p13 ->
                                                            (match p13 with
                                                             | XH ->
                                                               pbind phex
                                                                 (fun x ->
                                                                 pbind phex
                                                                   (fun n0 ->
                                                                   pbind pnat
                                                                    (fun f ->
                                                                    pbind
                                                                    pnat
                                                                    (fun fl0 ->
                                                                    pbind
                                                                    pnat
                                                                    (fun s ->
                                                                    pbind
                                                                    pnat
                                                                    (fun sl ->
                                                                    pret
                                                                    (EDuplicateParameter
                                                                    (x, n0,
                                                                    f, fl0,
                                                                    s, sl))))))))
                                                             | _ -> pfail)
                                                          | XH ->
                                                            pbind phex
                                                              (fun x ->
                                                              pbind pnat
                                                                (fun p13 ->
                                                                pret
                                                                  (EEmptyParentheses
                                                                  (x, p13)))))
                                                       | XH ->
                                                         pbind phex (fun x ->
                                                           pbind pnat
                                                             (fun p12 ->
                                                             pret
                                                               (EEmptyBraces
                                                               (x, p12)))))
                                                    | XH ->
                                                      pbind phex (fun x ->
                                                        pret
                                                          (EMissingLeadingSlash
                                                          x))))
                                              | _ :: _ -> pfail))
                                        | _ ->
                                          (match l0 with
                                           | [] ->
                                             (match N.sub d (Npos (XO (XO (XO
                                                      (XO (XI XH)))))) with
                                              | N0 -> pret EEmpty
                                              | Npos p9 ->
                                                (match p9 with
                                                 | XI p10 ->
                                                   (match p10 with
                                                    | XI p11 ->
                                                      (match p11 with
                                                       | XH ->
                                                         pbind phex (fun x ->
                                                           pbind phex
                                                             (fun n0 ->
                                                             pbind pnat
                                                               (fun s ->
                                                               pbind pnat
                                                                 (fun l1 ->
                                                                 pret
                                                                   (EInvalidParameter
                                                                   (x, n0, s,
                                                                   l1))))))
                                                       | _ -> pfail)
                                                    | XO p11 ->
                                                      (match p11 with
                                                       | XI _ -> pfail
                                                       | XO p12 ->
                                                         (match p12 with
                                                          | XH ->
                                                            pbind phex
                                                              (fun x ->
                                                              pbind pnat
                                                                (fun s ->
                                                                pbind pnat
                                                                  (fun l1 ->
                                                                  pret
                                                                    (EEmptyWildcard
                                                                    (x, s,
                                                                    l1)))))
                                                          | _ -> pfail)
                                                       | XH ->
                                                         pbind phex (fun x ->
                                                           pbind pnat
                                                             (fun p12 ->
                                                             pret
                                                               (EUnbalancedParenthesis
                                                               (x, p12)))))
                                                    | XH ->
                                                      pbind phex (fun x ->
                                                        pbind pnat
                                                          (fun p11 ->
                                                          pret
                                                            (EUnbalancedBrace
                                                            (x, p11)))))
                                                 | XO p10 ->
                                                   (match p10 with
                                                    | XI p11 ->
                                                      (match p11 with
                                                       | XH ->
                                                         pbind phex (fun x ->
                                                           pbind pnat
                                                             (fun s ->
                                                             pbind pnat
                                                               (fun l1 ->
                                                               pret
                                                                 (EEmptyParameter
                                                                 (x, s, l1)))))
                                                       | _ -> pfail)
                                                    | XO p11 ->
                                                      (match p11 with
                                                       | XI _ -> pfail
                                                       | XO p12 ->
                                                         (match p12 with
                                                          | XH ->
                                                            pbind phex
                                                              (fun x ->
                                                              pbind phex
                                                                (fun n0 ->
                                                                pbind pnat
                                                                  (fun f ->
                                                                  pbind pnat
                                                                    (fun fl0 ->
                                                                    pbind
                                                                    pnat
                                                                    (fun s ->
                                                                    pbind
                                                                    pnat
                                                                    (fun sl ->
                                                                    pret
                                                                    (EDuplicateParameter
                                                                    (x, n0,
                                                                    f, fl0,
                                                                    s, sl))))))))
                                                          | _ -> pfail)
                                                       | XH ->
                                                         pbind phex (fun x ->
                                                           pbind pnat
                                                             (fun p12 ->
                                                             pret
                                                               (EEmptyParentheses
                                                               (x, p12)))))
                                                    | XH ->
                                                      pbind phex (fun x ->
                                                        pbind pnat
                                                          (fun p11 ->
                                                          pret (EEmptyBraces
                                                            (x, p11)))))
                                                 | XH ->
                                                   pbind phex (fun x ->
                                                     pret
                                                       (EMissingLeadingSlash
                                                       x))))
                                           | _ :: _ -> pfail))
                                     | _ ->
                                       (match l0 with
                                        | [] ->
                                          (match N.sub d (Npos (XO (XO (XO
                                                   (XO (XI XH)))))) with
                                           | N0 -> pret EEmpty
                                           | Npos p8 ->
                                             (match p8 with
                                              | XI p9 ->
                                                (match p9 with
                                                 | XI p10 ->
                                                   (match p10 with
                                                    | XH ->
                                                      pbind phex (fun x ->
                                                        pbind phex (fun n0 ->
                                                          pbind pnat
                                                            (fun s ->
                                                            pbind pnat
                                                              (fun l1 ->
                                                              pret
                                                                (EInvalidParameter
                                                                (x, n0, s,
                                                                l1))))))
                                                    | _ -> pfail)
                                                 | XO p10 ->
                                                   (match p10 with
                                                    | XI _ -> pfail
                                                    | XO p11 ->
                                                      (match p11 with
                                                       | XH ->
                                                         pbind phex (fun x ->
                                                           pbind pnat
                                                             (fun s ->
                                                             pbind pnat
                                                               (fun l1 ->
                                                               pret
                                                                 (EEmptyWildcard
                                                                 (x, s, l1)))))
                                                       | _ -> pfail)
                                                    | XH ->
                                                      pbind phex (fun x ->
                                                        pbind pnat
                                                          (fun p11 ->
                                                          pret
                                                            (EUnbalancedParenthesis
                                                            (x, p11)))))
                                                 | XH ->
                                                   pbind phex (fun x ->
                                                     pbind pnat (fun p10 ->
                                                       pret (EUnbalancedBrace
                                                         (x, p10)))))
                                              | XO p9 ->
                                                (match p9 with
                                                 | XI p10 ->
                                                   (match p10 with
                                                    | XH ->
                                                      pbind phex (fun x ->
                                                        pbind pnat (fun s ->
                                                          pbind pnat
                                                            (fun l1 ->
                                                            pret
                                                              (EEmptyParameter
                                                              (x, s, l1)))))
                                                    | _ -> pfail)
                                                 | XO p10 ->
                                                   (match p10 with
                                                    | XI _ -> pfail
                                                    | XO p11 ->
                                                      (match p11 with
                                                       | XH ->
                                                         pbind phex (fun x ->
                                                           pbind phex
                                                             (fun n0 ->
                                                             pbind pnat
                                                               (fun f ->
                                                               pbind pnat
                                                                 (fun fl0 ->
                                                                 pbind pnat
                                                                   (fun s ->
                                                                   pbind pnat
                                                                    (fun sl ->
                                                                    pret
                                                                    (EDuplicateParameter
                                                                    (x, n0,
                                                                    f, fl0,
                                                                    s, sl))))))))
                                                       | _ -> pfail)
                                                    | XH ->
                                                      pbind phex (fun x ->
                                                        pbind pnat
                                                          (fun p11 ->
                                                          pret
                                                            (EEmptyParentheses
                                                            (x, p11)))))
                                                 | XH ->
                                                   pbind phex (fun x ->
                                                     pbind pnat (fun p10 ->
                                                       pret (EEmptyBraces (x,
                                                         p10)))))
                                              | XH ->
                                                pbind phex (fun x ->
                                                  pret (EMissingLeadingSlash
                                                    x))))
                                        | _ :: _ -> pfail))))
                            | _ -> pfail)
                         | _ -> pfail)
                      | _ -> pfail)
                   | _ -> pfail)
                | _ -> pfail)
             | _ -> pfail)
          | _ -> pfail)))

(** val pinsert_res : (insert_err, unit) result p **)

let pinsert_res =
  pbind ptok (fun t ->
    if beqb t
         (w0 (String ((Ascii (true, true, true, true, false, true, true,
           false)), (String ((Ascii (true, true, false, true, false, true,
           true, false)), EmptyString)))))
    then pret (ROk ())
    else if beqb t
              (w0 (String ((Ascii (false, false, false, false, true, true,
                true, false)), (String ((Ascii (true, false, false, false,
                false, true, true, false)), (String ((Ascii (false, true,
                true, true, false, true, true, false)), (String ((Ascii
                (true, false, false, true, false, true, true, false)),
                (String ((Ascii (true, true, false, false, false, true, true,
                false)), EmptyString)))))))))))
         then pret (RPanic O)
         else if beqb t
                   (w0 (String ((Ascii (false, false, true, false, true,
                     true, true, false)), (String ((Ascii (true, false, true,
                     false, false, true, true, false)), (String ((Ascii
                     (false, true, false, false, true, true, true, false)),
                     (String ((Ascii (false, true, false, false, true, true,
                     true, false)), EmptyString)))))))))
              then pbind pterr (fun e -> pret (RErr (IETemplate e)))
              else if beqb t
                        (w0 (String ((Ascii (true, true, false, false, false,
                          true, true, false)), (String ((Ascii (true, true,
                          true, true, false, true, true, false)), (String
                          ((Ascii (false, true, true, true, false, true,
                          true, false)), (String ((Ascii (false, true, true,
                          false, false, true, true, false)), (String ((Ascii
                          (false, false, true, true, false, true, true,
                          false)), (String ((Ascii (true, false, false, true,
                          false, true, true, false)), (String ((Ascii (true,
                          true, false, false, false, true, true, false)),
                          (String ((Ascii (false, false, true, false, true,
                          true, true, false)), EmptyString)))))))))))))))))
                   then pbind phex (fun x ->
                          pbind (plist phex) (fun cs ->
                            pret (RErr (IEConflict (x, cs)))))
                   else if beqb t
                             (w0 (String ((Ascii (true, false, true, false,
                               true, true, true, false)), (String ((Ascii
                               (false, true, true, true, false, true, true,
                               false)), (String ((Ascii (true, true, false,
                               true, false, true, true, false)), (String
                               ((Ascii (false, true, true, true, false, true,
                               true, false)), (String ((Ascii (true, true,
                               true, true, false, true, true, false)),
                               (String ((Ascii (true, true, true, false,
                               true, true, true, false)), (String ((Ascii
                               (false, true, true, true, false, true, true,
                               false)), EmptyString)))))))))))))))
                        then pbind phex (fun c ->
                               pret (RErr (IEUnknownConstraint c)))
                        else pfail)

(** val pdelete_res : (delete_err, n) result p **)

let pdelete_res =
  pbind ptok (fun t ->
    if beqb t
         (w0 (String ((Ascii (true, true, true, true, false, true, true,
           false)), (String ((Ascii (true, true, false, true, false, true,
           true, false)), EmptyString)))))
    then pbind pnum (fun d -> pret (ROk d))
    else if beqb t
              (w0 (String ((Ascii (false, false, false, false, true, true,
                true, false)), (String ((Ascii (true, false, false, false,
                false, true, true, false)), (String ((Ascii (false, true,
                true, true, false, true, true, false)), (String ((Ascii
                (true, false, false, true, false, true, true, false)),
                (String ((Ascii (true, true, false, false, false, true, true,
                false)), EmptyString)))))))))))
         then pret (RPanic O)
         else if beqb t
                   (w0 (String ((Ascii (false, false, true, false, true,
                     true, true, false)), (String ((Ascii (true, false, true,
                     false, false, true, true, false)), (String ((Ascii
                     (false, true, false, false, true, true, true, false)),
                     (String ((Ascii (false, true, false, false, true, true,
                     true, false)), EmptyString)))))))))
              then pbind pterr (fun e -> pret (RErr (DETemplate e)))
              else if beqb t
                        (w0 (String ((Ascii (false, true, true, true, false,
                          true, true, false)), (String ((Ascii (true, true,
                          true, true, false, true, true, false)), (String
                          ((Ascii (false, false, true, false, true, true,
                          true, false)), (String ((Ascii (false, true, true,
                          false, false, true, true, false)), (String ((Ascii
                          (true, true, true, true, false, true, true,
                          false)), (String ((Ascii (true, false, true, false,
                          true, true, true, false)), (String ((Ascii (false,
                          true, true, true, false, true, true, false)),
                          (String ((Ascii (false, false, true, false, false,
                          true, true, false)), EmptyString)))))))))))))))))
                   then pbind phex (fun x -> pret (RErr (DENotFound x)))
                   else if beqb t
                             (w0 (String ((Ascii (true, false, true, true,
                               false, true, true, false)), (String ((Ascii
                               (true, false, false, true, false, true, true,
                               false)), (String ((Ascii (true, true, false,
                               false, true, true, true, false)), (String
                               ((Ascii (true, false, true, true, false, true,
                               true, false)), (String ((Ascii (true, false,
                               false, false, false, true, true, false)),
                               (String ((Ascii (false, false, true, false,
                               true, true, true, false)), (String ((Ascii
                               (true, true, false, false, false, true, true,
                               false)), (String ((Ascii (false, false, false,
                               true, false, true, true, false)),
                               EmptyString)))))))))))))))))
                        then pbind phex (fun x ->
                               pbind phex (fun i ->
                                 pret (RErr (DEMismatch (x, i)))))
                        else pfail)

(** val pconstraint_res : (constraint_err, unit) result p **)

let pconstraint_res =
  pbind ptok (fun t ->
    if beqb t
         (w0 (String ((Ascii (true, true, true, true, false, true, true,
           false)), (String ((Ascii (true, true, false, true, false, true,
           true, false)), EmptyString)))))
    then pret (ROk ())
    else if beqb t
              (w0 (String ((Ascii (false, false, false, false, true, true,
                true, false)), (String ((Ascii (true, false, false, false,
                false, true, true, false)), (String ((Ascii (false, true,
                true, true, false, true, true, false)), (String ((Ascii
                (true, false, false, true, false, true, true, false)),
                (String ((Ascii (true, true, false, false, false, true, true,
                false)), EmptyString)))))))))))
         then pret (RPanic O)
         else if beqb t
                   (w0 (String ((Ascii (false, false, true, false, false,
                     true, true, false)), (String ((Ascii (true, false, true,
                     false, true, true, true, false)), (String ((Ascii
                     (false, false, false, false, true, true, true, false)),
                     EmptyString)))))))
              then pbind phex (fun n0 ->
                     pbind phex (fun e ->
                       pbind phex (fun nw ->
                         pret (RErr (CEDuplicateName (n0, e, nw))))))
              else pfail)

(** val pparam : (bytes * bytes) p **)

let pparam =
  pbind phex (fun n0 -> pbind phex (fun v -> pret (n0, v)))

(** val psearch_res : rsearch_res p **)

let psearch_res =
  pbind ptok (fun t ->
    if beqb t
         (w0 (String ((Ascii (false, true, true, true, false, true, true,
           false)), (String ((Ascii (true, true, true, true, false, true,
           true, false)), (String ((Ascii (false, true, true, true, false,
           true, true, false)), (String ((Ascii (true, false, true, false,
           false, true, true, false)), EmptyString)))))))))
    then pret (SRes None)
    else if beqb t
              (w0 (String ((Ascii (false, false, false, false, true, true,
                true, false)), (String ((Ascii (true, false, false, false,
                false, true, true, false)), (String ((Ascii (false, true,
                true, true, false, true, true, false)), (String ((Ascii
                (true, false, false, true, false, true, true, false)),
                (String ((Ascii (true, true, false, false, false, true, true,
                false)), EmptyString)))))))))))
         then pret SPanic
         else if beqb t
                   (w0 (String ((Ascii (true, true, false, false, true, true,
                     true, false)), (String ((Ascii (true, true, true, true,
                     false, true, true, false)), (String ((Ascii (true,
                     false, true, true, false, true, true, false)), (String
                     ((Ascii (true, false, true, false, false, true, true,
                     false)), EmptyString)))))))))
              then pbind phex (fun tm ->
                     pbind (popt phex) (fun ex ->
                       pbind pnum (fun d ->
                         pbind (plist pparam) (fun ps ->
                           pret (SRes (Some (((tm, ex), d), ps)))))))
              else pfail)

(** val pdata : info option p **)

let pdata =
  pbind ptok (fun t ->
    if beqb t ((Npos (XO (XI (XI (XI (XO (XO XH))))))) :: [])
    then pret None
    else if beqb t ((Npos (XO (XO (XI (XO (XO (XO XH))))))) :: [])
         then pbind pnum (fun d ->
                pbind phex (fun tm ->
                  pbind (popt phex) (fun ex ->
                    pbind pnum (fun dp ->
                      pbind pnum (fun ln ->
                        pret (Some { i_template = tm; i_expanded = ex;
                          i_depth = dp; i_length = ln; i_data = d }))))))
         else pfail)

(** val pnode : nat -> node p **)

let rec pnode = function
| O -> pfail
| S f ->
  let pkid =
    pbind phex (fun k ->
      pbind (popt phex) (fun c ->
        pbind (pnode f) (fun n0 -> pret ((k, c), n0))))
  in
  pbind ptok (fun t ->
    if beqb t ((Npos (XO (XI (XI (XI (XO (XI XH))))))) :: [])
    then pbind pdata (fun d ->
           pbind pbool (fun df ->
             pbind pbool (fun wf ->
               pbind pbool (fun dirty ->
                 pbind (plist pkid) (fun st ->
                   pbind (plist pkid) (fun dc ->
                     pbind (plist pkid) (fun dy ->
                       pbind (plist pkid) (fun wc ->
                         pbind (plist pkid) (fun wi ->
                           pbind (plist pkid) (fun ec ->
                             pbind (plist pkid) (fun en ->
                               pret { n_data = d; n_st = st; n_dc = dc;
                                 n_dy = dy; n_wc = wc; n_wi = wi; n_ec = ec;
                                 n_en = en; n_dflag = df; n_wflag = wf;
                                 n_dirty = dirty })))))))))))
    else pfail)

(** val ppart : part p **)

let ppart =
  pbind ptok (fun t ->
    if beqb t ((Npos (XI (XI (XO (XO (XI (XI XH))))))) :: [])
    then pbind phex (fun x -> pret (PS x))
    else if beqb t ((Npos (XO (XO (XI (XO (XO (XI XH))))))) :: [])
         then pbind phex (fun n0 ->
                pbind (popt phex) (fun c -> pret (PD (n0, c))))
         else if beqb t ((Npos (XI (XI (XI (XO (XI (XI XH))))))) :: [])
              then pbind phex (fun n0 ->
                     pbind (popt phex) (fun c -> pret (PW (n0, c))))
              else pfail)

(** val pexpansion : expansion p **)

let pexpansion =
  pbind phex (fun raw -> pbind (plist ppart) (fun ps -> pret (raw, ps)))

(** val pparse_res : expansion list out p **)

let pparse_res =
  pbind ptok (fun t ->
    if beqb t
         (w0 (String ((Ascii (true, true, true, true, false, true, true,
           false)), (String ((Ascii (true, true, false, true, false, true,
           true, false)), EmptyString)))))
    then pbind (plist pexpansion) (fun es -> pret (Ret es))
    else if beqb t
              (w0 (String ((Ascii (false, false, false, false, true, true,
                true, false)), (String ((Ascii (true, false, false, false,
                false, true, true, false)), (String ((Ascii (false, true,
                true, true, false, true, true, false)), (String ((Ascii
                (true, false, false, true, false, true, true, false)),
                (String ((Ascii (true, true, false, false, false, true, true,
                false)), EmptyString)))))))))))
         then pret (Panic O)
         else if beqb t
                   (w0 (String ((Ascii (false, false, true, false, true,
                     true, true, false)), (String ((Ascii (true, false, true,
                     false, false, true, true, false)), (String ((Ascii
                     (false, true, false, false, true, true, true, false)),
                     (String ((Ascii (false, true, false, false, true, true,
                     true, false)), EmptyString)))))))))
              then pbind pterr (fun e -> pret (Err e))
              else pfail)

(** val pevent : nat -> event p **)

let pevent fuel =
  pbind ptok (fun t ->
    if beqb t
         (w0 (String ((Ascii (false, true, true, true, false, true, true,
           false)), (String ((Ascii (true, false, true, false, false, true,
           true, false)), (String ((Ascii (true, true, true, false, true,
           true, true, false)), EmptyString)))))))
    then pbind pnum (fun r -> pret (EvNew r))
    else if beqb t
              (w0 (String ((Ascii (true, true, false, false, false, true,
                true, false)), (String ((Ascii (false, false, true, true,
                false, true, true, false)), (String ((Ascii (true, true,
                true, true, false, true, true, false)), (String ((Ascii
                (false, true, true, true, false, true, true, false)), (String
                ((Ascii (true, false, true, false, false, true, true,
                false)), EmptyString)))))))))))
         then pbind pnum (fun a ->
                pbind pnum (fun b0 -> pret (EvClone (a, b0))))
         else if beqb t
                   (w0 (String ((Ascii (true, true, false, false, false,
                     true, true, false)), (String ((Ascii (true, true, true,
                     true, false, true, true, false)), (String ((Ascii
                     (false, true, true, true, false, true, true, false)),
                     (String ((Ascii (true, true, false, false, true, true,
                     true, false)), (String ((Ascii (false, false, true,
                     false, true, true, true, false)), (String ((Ascii
                     (false, true, false, false, true, true, true, false)),
                     (String ((Ascii (true, false, false, false, false, true,
                     true, false)), (String ((Ascii (true, false, false,
                     true, false, true, true, false)), (String ((Ascii
                     (false, true, true, true, false, true, true, false)),
                     (String ((Ascii (false, false, true, false, true, true,
                     true, false)), EmptyString)))))))))))))))))))))
              then pbind pnum (fun r ->
                     pbind phex (fun n0 ->
                       pbind phex (fun ty ->
                         pbind pconstraint_res (fun res0 ->
                           pbind phex (fun rd ->
                             pret (EvConstraint (r, n0, ty, res0, rd)))))))
              else if beqb t
                        (w0 (String ((Ascii (true, false, false, true, false,
                          true, true, false)), (String ((Ascii (false, true,
                          true, true, false, true, true, false)), (String
                          ((Ascii (true, true, false, false, true, true,
                          true, false)), (String ((Ascii (true, false, true,
                          false, false, true, true, false)), (String ((Ascii
                          (false, true, false, false, true, true, true,
                          false)), (String ((Ascii (false, false, true,
                          false, true, true, true, false)),
                          EmptyString)))))))))))))
                   then pbind pnum (fun r ->
                          pbind phex (fun tm ->
                            pbind pnum (fun d ->
                              pbind pinsert_res (fun res0 ->
                                pbind phex (fun rd ->
                                  pbind (pnode fuel) (fun dump ->
                                    pbind phex (fun disp ->
                                      pret (EvInsert (r, tm, d, res0, rd,
                                        dump, disp)))))))))
                   else if beqb t
                             (w0 (String ((Ascii (false, false, true, false,
                               false, true, true, false)), (String ((Ascii
                               (true, false, true, false, false, true, true,
                               false)), (String ((Ascii (false, false, true,
                               true, false, true, true, false)), (String
                               ((Ascii (true, false, true, false, false,
                               true, true, false)), (String ((Ascii (false,
                               false, true, false, true, true, true, false)),
                               (String ((Ascii (true, false, true, false,
                               false, true, true, false)),
                               EmptyString)))))))))))))
                        then pbind pnum (fun r ->
                               pbind phex (fun tm ->
                                 pbind pdelete_res (fun res0 ->
                                   pbind phex (fun rd ->
                                     pbind (pnode fuel) (fun dump ->
                                       pbind phex (fun disp ->
                                         pret (EvDelete (r, tm, res0, rd,
                                           dump, disp))))))))
                        else if beqb t
                                  (w0 (String ((Ascii (true, true, false,
                                    false, true, true, true, false)), (String
                                    ((Ascii (true, false, true, false, false,
                                    true, true, false)), (String ((Ascii
                                    (true, false, false, false, false, true,
                                    true, false)), (String ((Ascii (false,
                                    true, false, false, true, true, true,
                                    false)), (String ((Ascii (true, true,
                                    false, false, false, true, true, false)),
                                    (String ((Ascii (false, false, false,
                                    true, false, true, true, false)),
                                    EmptyString)))))))))))))
                             then pbind pnum (fun r ->
                                    pbind phex (fun p0 ->
                                      pbind psearch_res (fun res0 ->
                                        pret (EvSearch (r, p0, res0)))))
                             else if beqb t
                                       (w0 (String ((Ascii (false, false,
                                         true, false, false, true, true,
                                         false)), (String ((Ascii (true,
                                         false, true, false, true, true,
                                         true, false)), (String ((Ascii
                                         (true, false, true, true, false,
                                         true, true, false)), (String ((Ascii
                                         (false, false, false, false, true,
                                         true, true, false)), (String ((Ascii
                                         (true, true, true, true, false,
                                         true, true, false)), (String ((Ascii
                                         (false, true, true, false, false,
                                         true, true, false)),
                                         EmptyString)))))))))))))
                                  then pbind pnum (fun r ->
                                         pbind (pnode fuel) (fun dump ->
                                           pbind phex (fun disp ->
                                             pret (EvDumpOf (r, dump, disp)))))
                                  else if beqb t
                                            (w0 (String ((Ascii (true, true,
                                              false, false, true, true, true,
                                              false)), (String ((Ascii (true,
                                              false, false, false, false,
                                              true, true, false)), (String
                                              ((Ascii (true, false, true,
                                              true, false, true, true,
                                              false)), (String ((Ascii (true,
                                              false, true, false, false,
                                              true, true, false)),
                                              EmptyString)))))))))
                                       then pbind pnum (fun a ->
                                              pbind pnum (fun b0 ->
                                                pret (EvSame (a, b0))))
                                       else if beqb t
                                                 (w0 (String ((Ascii (false,
                                                   false, false, false, true,
                                                   true, true, false)),
                                                   (String ((Ascii (true,
                                                   false, false, false,
                                                   false, true, true,
                                                   false)), (String ((Ascii
                                                   (false, true, false,
                                                   false, true, true, true,
                                                   false)), (String ((Ascii
                                                   (true, true, false, false,
                                                   true, true, true, false)),
                                                   (String ((Ascii (true,
                                                   false, true, false, false,
                                                   true, true, false)),
                                                   EmptyString)))))))))))
                                            then pbind phex (fun tm ->
                                                   pbind pparse_res
                                                     (fun res0 ->
                                                     pbind phex (fun rd ->
                                                       pret (EvParse (tm,
                                                         res0, rd)))))
                                            else if beqb t
                                                      (w0 (String ((Ascii
                                                        (false, true, false,
                                                        false, false, true,
                                                        true, false)),
                                                        (String ((Ascii
                                                        (true, false, true,
                                                        false, true, true,
                                                        true, false)),
                                                        (String ((Ascii
                                                        (true, false, false,
                                                        true, false, true,
                                                        true, false)),
                                                        (String ((Ascii
                                                        (false, false, true,
                                                        true, false, true,
                                                        true, false)),
                                                        (String ((Ascii
                                                        (false, false, true,
                                                        false, true, true,
                                                        true, false)),
                                                        (String ((Ascii
                                                        (true, false, false,
                                                        true, false, true,
                                                        true, false)),
                                                        (String ((Ascii
                                                        (false, true, true,
                                                        true, false, true,
                                                        true, false)),
                                                        EmptyString)))))))))))))))
                                                 then pbind phex (fun n0 ->
                                                        pbind phex (fun v ->
                                                          pbind pbool
                                                            (fun a ->
                                                            pbind pbool
                                                              (fun b0 ->
                                                              pret (EvBuiltin
                                                                (n0, v, a,
                                                                b0))))))
                                                 else if beqb t
                                                           (w0 (String
                                                             ((Ascii (true,
                                                             true, true,
                                                             true, false,
                                                             true, true,
                                                             false)), (String
                                                             ((Ascii (true,
                                                             true, false,
                                                             false, false,
                                                             true, true,
                                                             false)), (String
                                                             ((Ascii (true,
                                                             false, false,
                                                             true, false,
                                                             true, true,
                                                             false)),
                                                             EmptyString)))))))
                                                      then pbind phex
                                                             (fun m ->
                                                             pbind phex
                                                               (fun u ->
                                                               pbind
                                                                 (popt
                                                                   (pbind
                                                                    phex
                                                                    (fun h ->
                                                                    pbind
                                                                    (plist
                                                                    pparam)
                                                                    (fun ps ->
                                                                    pret (h,
                                                                    ps)))))
                                                                 (fun r ->
                                                                 pret (EvOci
                                                                   (m, u, r)))))
                                                      else if beqb t
                                                                (w0 (String
                                                                  ((Ascii
                                                                  (true,
                                                                  false,
                                                                  true,
                                                                  false,
                                                                  false,
                                                                  true, true,
                                                                  false)),
                                                                  (String
                                                                  ((Ascii
                                                                  (false,
                                                                  true, true,
                                                                  true,
                                                                  false,
                                                                  true, true,
                                                                  false)),
                                                                  (String
                                                                  ((Ascii
                                                                  (false,
                                                                  false,
                                                                  true,
                                                                  false,
                                                                  false,
                                                                  true, true,
                                                                  false)),
                                                                  EmptyString)))))))
                                                           then pret EvEnd
                                                           else pfail)

(** val parse_line : bytes -> event option **)

let parse_line line =
  let ts = tokens line in
  (match pevent (S (length ts)) ts with
   | Some p0 ->
     let (e, l) = p0 in (match l with
                         | [] -> Some e
                         | _ :: _ -> None)
   | None -> None)

type fkind =
| FBadLine
| FPanic
| FOpsInsert
| FOpsDelete
| FOpsConstraint
| FOpsSearch
| FTree
| FFlags
| FDisplay
| FRenderInsert
| FRenderDelete
| FRenderConstraint
| FRenderParse
| FRenderField
| FParse
| FGrammar
| FErrOk
| FInv
| FCanonical
| FRoutes
| FWalkGenuine
| FWalkMissed
| FWalkPriority
| FGreedy
| FSpecInsert
| FSpecDelete
| FSpecConstraint
| FNoop
| FRoundtrip
| FInterfere
| FNotRouted
| FSame
| FDumpOf
| FBuiltin
| FOci
| FUnknownRouter

type finding = fkind * bytes list

(** val oinfo_eqb : info option -> info option -> bool **)

let oinfo_eqb a b0 =
  match a with
  | Some x -> (match b0 with
               | Some y -> info_eqb x y
               | None -> false)
  | None -> (match b0 with
             | Some _ -> false
             | None -> true)

(** val node_eqb : node -> node -> bool **)

let rec node_eqb a b0 =
  let kids_eqb =
    let rec go l m =
      match l with
      | [] -> (match m with
               | [] -> true
               | _ :: _ -> false)
      | x :: l' ->
        (match m with
         | [] -> false
         | y :: m' ->
           (&&) ((&&) (keqb (fst x) (fst y)) (node_eqb (snd x) (snd y)))
             (go l' m'))
    in go
  in
  (&&)
    ((&&)
      ((&&)
        ((&&)
          ((&&)
            ((&&)
              ((&&) (oinfo_eqb a.n_data b0.n_data) (kids_eqb a.n_st b0.n_st))
              (kids_eqb a.n_dc b0.n_dc)) (kids_eqb a.n_dy b0.n_dy))
          (kids_eqb a.n_wc b0.n_wc)) (kids_eqb a.n_wi b0.n_wi))
      (kids_eqb a.n_ec b0.n_ec)) (kids_eqb a.n_en b0.n_en)

(** val flags_eqb : node -> node -> bool **)

let rec flags_eqb a b0 =
  let kids_eqb =
    let rec go l m =
      match l with
      | [] -> (match m with
               | [] -> true
               | _ :: _ -> false)
      | x :: l' ->
        (match m with
         | [] -> false
         | y :: m' -> (&&) (flags_eqb (snd x) (snd y)) (go l' m'))
    in go
  in
  (&&)
    ((&&)
      ((&&)
        ((&&)
          ((&&)
            ((&&)
              ((&&)
                ((&&)
                  ((&&) (eqb0 a.n_dflag b0.n_dflag)
                    (eqb0 a.n_wflag b0.n_wflag)) (eqb0 a.n_dirty b0.n_dirty))
                (kids_eqb a.n_st b0.n_st)) (kids_eqb a.n_dc b0.n_dc))
            (kids_eqb a.n_dy b0.n_dy)) (kids_eqb a.n_wc b0.n_wc))
        (kids_eqb a.n_wi b0.n_wi)) (kids_eqb a.n_ec b0.n_ec))
    (kids_eqb a.n_en b0.n_en)

(** val nat_list_eqb : nat list -> nat list -> bool **)

let rec nat_list_eqb a b0 =
  match a with
  | [] -> (match b0 with
           | [] -> true
           | _ :: _ -> false)
  | x :: a' ->
    (match b0 with
     | [] -> false
     | y :: b' -> (&&) (eqb x y) (nat_list_eqb a' b'))

(** val terr_key : terr -> (n * bytes list) * nat list **)

let terr_key = function
| EEmpty -> ((N0, []), [])
| EMissingLeadingSlash t -> (((Npos XH), (t :: [])), [])
| EEmptyBraces (t, p0) -> (((Npos (XO XH)), (t :: [])), (p0 :: []))
| EUnbalancedBrace (t, p0) -> (((Npos (XI XH)), (t :: [])), (p0 :: []))
| EEmptyParentheses (t, p0) -> (((Npos (XO (XO XH))), (t :: [])), (p0 :: []))
| EUnbalancedParenthesis (t, p0) ->
  (((Npos (XI (XO XH))), (t :: [])), (p0 :: []))
| EEmptyParameter (t, s, l) ->
  (((Npos (XO (XI XH))), (t :: [])), (s :: (l :: [])))
| EInvalidParameter (t, n0, s, l) ->
  (((Npos (XI (XI XH))), (t :: (n0 :: []))), (s :: (l :: [])))
| EDuplicateParameter (t, n0, f, fl0, s, sl) ->
  (((Npos (XO (XO (XO XH)))), (t :: (n0 :: []))),
    (f :: (fl0 :: (s :: (sl :: [])))))
| EEmptyWildcard (t, s, l) ->
  (((Npos (XI (XO (XO XH)))), (t :: [])), (s :: (l :: [])))
| EEmptyConstraint (t, s, l) ->
  (((Npos (XO (XI (XO XH)))), (t :: [])), (s :: (l :: [])))
| EInvalidConstraint (t, n0, s, l) ->
  (((Npos (XI (XI (XO XH)))), (t :: (n0 :: []))), (s :: (l :: [])))
| ETouchingParameters (t, s, l) ->
  (((Npos (XO (XO (XI XH)))), (t :: [])), (s :: (l :: [])))

(** val key3_eqb :
    ((n * bytes list) * nat list) -> ((n * bytes list) * nat list) -> bool **)

let key3_eqb a b0 =
  (&&)
    ((&&) (N.eqb (fst (fst a)) (fst (fst b0)))
      (list_beqb (snd (fst a)) (snd (fst b0))))
    (nat_list_eqb (snd a) (snd b0))

(** val terr_eqb : terr -> terr -> bool **)

let terr_eqb a b0 =
  key3_eqb (terr_key a) (terr_key b0)

(** val ierr_eqb : insert_err -> insert_err -> bool **)

let ierr_eqb a b0 =
  match a with
  | IETemplate x -> (match b0 with
                     | IETemplate y -> terr_eqb x y
                     | _ -> false)
  | IEConflict (t, cs) ->
    (match b0 with
     | IEConflict (t', cs') -> (&&) (beqb t t') (list_beqb cs cs')
     | _ -> false)
  | IEUnknownConstraint c ->
    (match b0 with
     | IEUnknownConstraint c' -> beqb c c'
     | _ -> false)

(** val derr_eqb : delete_err -> delete_err -> bool **)

let derr_eqb a b0 =
  match a with
  | DETemplate x -> (match b0 with
                     | DETemplate y -> terr_eqb x y
                     | _ -> false)
  | DENotFound t -> (match b0 with
                     | DENotFound t' -> beqb t t'
                     | _ -> false)
  | DEMismatch (t, i) ->
    (match b0 with
     | DEMismatch (t', i') -> (&&) (beqb t t') (beqb i i')
     | _ -> false)

(** val cerr_eqb : constraint_err -> constraint_err -> bool **)

let cerr_eqb a b0 =
  let CEDuplicateName (n0, e, t) = a in
  let CEDuplicateName (n', e', t') = b0 in
  (&&) ((&&) (beqb n0 n') (beqb e e')) (beqb t t')

(** val result_eqb :
    ('a1 -> 'a1 -> bool) -> ('a2 -> 'a2 -> bool) -> ('a1, 'a2) result ->
    ('a1, 'a2) result -> bool **)

let result_eqb ee ae a b0 =
  match a with
  | ROk x -> (match b0 with
              | ROk y -> ae x y
              | _ -> false)
  | RErr x -> (match b0 with
               | RErr y -> ee x y
               | _ -> false)
  | RPanic _ -> (match b0 with
                 | RPanic _ -> true
                 | _ -> false)

(** val part_eqb : part -> part -> bool **)

let part_eqb a b0 =
  match a with
  | PS x -> (match b0 with
             | PS y -> beqb x y
             | _ -> false)
  | PD (n0, c) ->
    (match b0 with
     | PD (m, d) -> (&&) (beqb n0 m) (obeqb c d)
     | _ -> false)
  | PW (n0, c) ->
    (match b0 with
     | PW (m, d) -> (&&) (beqb n0 m) (obeqb c d)
     | _ -> false)

(** val parts_eqb : part list -> part list -> bool **)

let rec parts_eqb a b0 =
  match a with
  | [] -> (match b0 with
           | [] -> true
           | _ :: _ -> false)
  | x :: a' ->
    (match b0 with
     | [] -> false
     | y :: b' -> (&&) (part_eqb x y) (parts_eqb a' b'))

(** val exps_eqb : expansion list -> expansion list -> bool **)

let rec exps_eqb a b0 =
  match a with
  | [] -> (match b0 with
           | [] -> true
           | _ :: _ -> false)
  | x :: a' ->
    (match b0 with
     | [] -> false
     | y :: b' ->
       (&&) ((&&) (beqb (fst x) (fst y)) (parts_eqb (snd x) (snd y)))
         (exps_eqb a' b'))

(** val out_eqb : expansion list out -> expansion list out -> bool **)

let out_eqb a b0 =
  match a with
  | Ret x -> (match b0 with
              | Ret y -> exps_eqb x y
              | _ -> false)
  | Err x -> (match b0 with
              | Err y -> terr_eqb x y
              | _ -> false)
  | Panic _ -> (match b0 with
                | Panic _ -> true
                | _ -> false)
  | Fuel -> false

(** val params_eqb : params -> params -> bool **)

let params_eqb a b0 =
  (&&) (list_beqb (map fst a) (map fst b0))
    (list_beqb (map snd a) (map snd b0))

(** val sres_of : res -> sres **)

let sres_of r =
  option_map (fun ip -> ((((fst ip).i_template, (fst ip).i_expanded),
    (fst ip).i_data), (snd ip))) r

(** val sres_eqb : sres -> sres -> bool **)

let sres_eqb a b0 =
  match a with
  | Some p0 ->
    let (p1, ps) = p0 in
    let (p2, d) = p1 in
    let (t, e) = p2 in
    (match b0 with
     | Some p3 ->
       let (p4, ps') = p3 in
       let (p5, d') = p4 in
       let (t', e') = p5 in
       (&&) ((&&) ((&&) (beqb t t') (obeqb e e')) (N.eqb d d'))
         (params_eqb ps ps')
     | None -> false)
  | None -> (match b0 with
             | Some _ -> false
             | None -> true)

(** val infix_b : bytes -> bytes -> bool **)

let rec infix_b needle hay =
  match starts_with needle hay with
  | Some _ -> true
  | None -> (match hay with
             | [] -> false
             | _ :: hay' -> infix_b needle hay')

(** val routes_sub : routes -> routes -> bool **)

let routes_sub a b0 =
  forallb (fun x ->
    existsb (fun y ->
      (&&) (route_eqb (fst x) (fst y)) (info_eqb (snd x) (snd y))) b0) a

(** val routes_same : routes -> routes -> bool **)

let routes_same a b0 =
  (&&) ((&&) (eqb (length a) (length b0)) (routes_sub a b0)) (routes_sub b0 a)

(** val slice_b : bytes -> nat -> nat -> bytes option **)

let slice_b s a l =
  if leb (add a l) (length s) then Some (firstn l (skipn a s)) else None

(** val unmatched_parens : nat -> bytes -> nat -> nat list -> nat list **)

let rec unmatched_parens fuel s pos stack =
  match fuel with
  | O -> []
  | S f ->
    (match s with
     | [] -> stack
     | c :: s' ->
       if N.eqb c bSL
       then (match s' with
             | [] -> stack
             | _ :: s'' -> unmatched_parens f s'' (add pos (S (S O))) stack)
       else if N.eqb c lP
            then unmatched_parens f s' (S pos) (pos :: stack)
            else if N.eqb c rP
                 then (match stack with
                       | [] -> pos :: (unmatched_parens f s' (S pos) [])
                       | _ :: st' -> unmatched_parens f s' (S pos) st')
                 else unmatched_parens f s' (S pos) stack)

(** val unescaped_at : nat -> bytes -> nat -> nat -> bool **)

let rec unescaped_at fuel s cur pos =
  match fuel with
  | O -> false
  | S f ->
    (match s with
     | [] -> false
     | c :: s' ->
       if eqb cur pos
       then true
       else if N.eqb c bSL
            then (match s' with
                  | [] -> false
                  | _ :: s'' ->
                    if eqb (S cur) pos
                    then false
                    else unescaped_at f s'' (add cur (S (S O))) pos)
            else unescaped_at f s' (S cur) pos)

(** val first_brace_fault : nat -> bytes -> nat -> nat option **)

let rec first_brace_fault fuel s pos =
  match fuel with
  | O -> None
  | S f ->
    (match s with
     | [] -> None
     | c :: s' ->
       if N.eqb c bSL
       then (match s' with
             | [] -> None
             | _ :: s'' -> first_brace_fault f s'' (add pos (S (S O))))
       else if N.eqb c rB
            then Some pos
            else if N.eqb c lB
                 then (match brace_content s' O with
                       | Some p0 ->
                         let (content, rest) = p0 in
                         first_brace_fault f rest
                           (add (add pos (S (S O))) (length content))
                       | None -> Some pos)
                 else first_brace_fault f s' (S pos))

(** val param_at : bytes -> nat -> (nat * bytes) option **)

let param_at s a =
  match skipn a s with
  | [] -> None
  | c :: s' ->
    if N.eqb c lB
    then (match brace_content s' O with
          | Some p0 ->
            let (content, _) = p0 in
            Some ((add (S (S O)) (length content)), content)
          | None -> None)
    else None

(** val content_name : bytes -> bytes **)

let content_name content =
  let n0 = fst (split_colon content) in if hd_is sTAR n0 then tl n0 else n0

(** val err_ok_b : bytes -> terr -> bool **)

let err_ok_b input e =
  let is_exp = fun t ->
    match expansions_spec input with
    | Some es -> existsb (beqb t) es
    | None -> false
  in
  (match e with
   | EEmpty -> is_nil input
   | EMissingLeadingSlash t -> (&&) (is_exp t) (negb (hd_is sL t))
   | EEmptyBraces (t, p0) ->
     (&&) (is_exp t)
       (match slice_b t p0 (S (S O)) with
        | Some s -> beqb s (lB :: (rB :: []))
        | None -> false)
   | EUnbalancedBrace (t, p0) ->
     (&&) (is_exp t)
       (match first_brace_fault (S (length t)) t O with
        | Some q -> eqb p0 q
        | None -> false)
   | EEmptyParentheses (t, p0) ->
     (&&)
       ((&&) (beqb t input)
         (match slice_b t p0 (S (S O)) with
          | Some s -> beqb s (lP :: (rP :: []))
          | None -> false)) (unescaped_at (S (length t)) t O p0)
   | EUnbalancedParenthesis (t, p0) ->
     (&&) (beqb t input)
       (existsb (eqb p0) (unmatched_parens (S (length t)) t O []))
   | EEmptyParameter (t, s, l) ->
     (&&) (is_exp t)
       (match param_at t s with
        | Some p0 ->
          let (l', content) = p0 in
          (&&) ((&&) (eqb l l') (is_nil (fst (split_colon content))))
            (negb (is_nil content))
        | None -> false)
   | EInvalidParameter (t, n0, s, l) ->
     (&&) (is_exp t)
       (match param_at t s with
        | Some p0 ->
          let (l', content) = p0 in
          (&&) ((&&) (eqb l l') (beqb (content_name content) n0))
            (existsb invalid_name_char n0)
        | None -> false)
   | EDuplicateParameter (t, n0, f, fl0, s, sl) ->
     (&&) ((&&) (is_exp t) (leb (add f fl0) s))
       (match param_at t f with
        | Some p0 ->
          let (l1, c1) = p0 in
          (match param_at t s with
           | Some p1 ->
             let (l2, c2) = p1 in
             (&&)
               ((&&) ((&&) (eqb l1 fl0) (eqb l2 sl))
                 (beqb (content_name c1) n0)) (beqb (content_name c2) n0)
           | None -> false)
        | None -> false)
   | EEmptyWildcard (t, s, l) ->
     (&&) (is_exp t)
       (match param_at t s with
        | Some p0 ->
          let (l', content) = p0 in
          (&&) (eqb l l') (beqb (fst (split_colon content)) (sTAR :: []))
        | None -> false)
   | EEmptyConstraint (t, s, l) ->
     (&&) (is_exp t)
       (match param_at t s with
        | Some p0 ->
          let (l', content) = p0 in
          (&&) (eqb l l')
            (match snd (split_colon content) with
             | Some b0 -> (match b0 with
                           | [] -> true
                           | _ :: _ -> false)
             | None -> false)
        | None -> false)
   | EInvalidConstraint (t, n0, s, l) ->
     (&&) (is_exp t)
       (match param_at t s with
        | Some p0 ->
          let (l', content) = p0 in
          (&&) (eqb l l')
            (match snd (split_colon content) with
             | Some c -> (&&) (beqb c n0) (existsb invalid_name_char n0)
             | None -> false)
        | None -> false)
   | ETouchingParameters (t, s, l) ->
     (&&) (is_exp t)
       (match param_at t s with
        | Some p0 ->
          let (l1, _) = p0 in
          (match param_at t (add s l1) with
           | Some p1 -> let (l2, _) = p1 in eqb l (add l1 l2)
           | None -> false)
        | None -> false))

(** val terr_template : terr -> bytes **)

let terr_template = function
| EEmpty -> []
| EMissingLeadingSlash t -> t
| EEmptyBraces (t, _) -> t
| EUnbalancedBrace (t, _) -> t
| EEmptyParentheses (t, _) -> t
| EUnbalancedParenthesis (t, _) -> t
| EEmptyParameter (t, _, _) -> t
| EInvalidParameter (t, _, _, _) -> t
| EDuplicateParameter (t, _, _, _, _, _) -> t
| EEmptyWildcard (t, _, _) -> t
| EEmptyConstraint (t, _, _) -> t
| EInvalidConstraint (t, _, _, _) -> t
| ETouchingParameters (t, _, _) -> t

(** val tEMPLATE_LABEL : bytes **)

let tEMPLATE_LABEL =
  w0 (String ((Ascii (false, false, false, false, false, true, false,
    false)), (String ((Ascii (false, false, false, false, false, true, false,
    false)), (String ((Ascii (false, false, false, false, false, true, false,
    false)), (String ((Ascii (false, false, false, false, false, true, false,
    false)), (String ((Ascii (false, false, true, false, true, false, true,
    false)), (String ((Ascii (true, false, true, false, false, true, true,
    false)), (String ((Ascii (true, false, true, true, false, true, true,
    false)), (String ((Ascii (false, false, false, false, true, true, true,
    false)), (String ((Ascii (false, false, true, true, false, true, true,
    false)), (String ((Ascii (true, false, false, false, false, true, true,
    false)), (String ((Ascii (false, false, true, false, true, true, true,
    false)), (String ((Ascii (true, false, true, false, false, true, true,
    false)), (String ((Ascii (false, true, false, true, true, true, false,
    false)), (String ((Ascii (false, false, false, false, false, true, false,
    false)), EmptyString))))))))))))))))))))))))))))

(** val cARET_INDENT : bytes **)

let cARET_INDENT =
  w0 (String ((Ascii (false, false, false, false, false, true, false,
    false)), (String ((Ascii (false, false, false, false, false, true, false,
    false)), (String ((Ascii (false, false, false, false, false, true, false,
    false)), (String ((Ascii (false, false, false, false, false, true, false,
    false)), (String ((Ascii (false, false, false, false, false, true, false,
    false)), (String ((Ascii (false, false, false, false, false, true, false,
    false)), (String ((Ascii (false, false, false, false, false, true, false,
    false)), (String ((Ascii (false, false, false, false, false, true, false,
    false)), (String ((Ascii (false, false, false, false, false, true, false,
    false)), (String ((Ascii (false, false, false, false, false, true, false,
    false)), (String ((Ascii (false, false, false, false, false, true, false,
    false)), (String ((Ascii (false, false, false, false, false, true, false,
    false)), (String ((Ascii (false, false, false, false, false, true, false,
    false)), (String ((Ascii (false, false, false, false, false, true, false,
    false)), EmptyString))))))))))))))))))))))))))))

(** val terr_caret : terr -> (nat * nat) option **)

let terr_caret = function
| EEmptyBraces (_, p0) -> Some (p0, (S (S O)))
| EUnbalancedBrace (_, p0) -> Some (p0, (S O))
| EEmptyParentheses (_, p0) -> Some (p0, (S (S O)))
| EUnbalancedParenthesis (_, p0) -> Some (p0, (S O))
| EEmptyParameter (_, s, l) -> Some (s, l)
| EInvalidParameter (_, _, s, l) -> Some (s, l)
| EEmptyWildcard (_, s, l) -> Some (s, l)
| EEmptyConstraint (_, s, l) -> Some (s, l)
| EInvalidConstraint (_, _, s, l) -> Some (s, l)
| ETouchingParameters (_, s, l) -> Some (s, l)
| _ -> None

(** val terr_render_ok : terr -> bytes -> bool **)

let terr_render_ok e rendered =
  match e with
  | EEmpty -> true
  | _ ->
    let t = terr_template e in
    (match terr_caret e with
     | Some p0 ->
       let (p1, l) = p0 in
       (&&)
         (infix_b
           (app tEMPLATE_LABEL
             (app t
               (app nL
                 (app cARET_INDENT
                   (app (repeat (Npos (XO (XO (XO (XO (XO XH)))))) p1)
                     (repeat (Npos (XO (XI (XI (XI (XI (XO XH))))))) l))))))
           rendered)
         (negb
           (infix_b
             (app tEMPLATE_LABEL
               (app t
                 (app nL
                   (app cARET_INDENT
                     (app (repeat (Npos (XO (XO (XO (XO (XO XH)))))) p1)
                       (repeat (Npos (XO (XI (XI (XI (XI (XO XH))))))) (S l)))))))
             rendered))
     | None -> infix_b (app tEMPLATE_LABEL t) rendered)

type rst = { rs_dump : node; rs_disp : bytes; rs_cons : (bytes * bytes) list;
             rs_live : live; rs_undo : ((bytes * node) * bytes) option;
             rs_before : ((bool * bytes) * (bytes * sres) list) option;
             rs_searches : (bytes * sres) list }

type state = (n * rst) list

(** val get_r : state -> n -> rst option **)

let rec get_r s rid =
  match s with
  | [] -> None
  | p0 :: s' ->
    let (r, x) = p0 in if N.eqb r rid then Some x else get_r s' rid

(** val set_r : state -> n -> rst -> state **)

let rec set_r s rid x =
  match s with
  | [] -> (rid, x) :: []
  | p0 :: s' ->
    let (r, y) = p0 in
    if N.eqb r rid then (rid, x) :: s' else (r, y) :: (set_r s' rid x)

(** val bUILTIN_NAMES : bytes list **)

let bUILTIN_NAMES =
  map w0 ((String ((Ascii (true, false, true, false, true, true, true,
    false)), (String ((Ascii (false, false, false, true, true, true, false,
    false)), EmptyString)))) :: ((String ((Ascii (true, false, true, false,
    true, true, true, false)), (String ((Ascii (true, false, false, false,
    true, true, false, false)), (String ((Ascii (false, true, true, false,
    true, true, false, false)), EmptyString)))))) :: ((String ((Ascii (true,
    false, true, false, true, true, true, false)), (String ((Ascii (true,
    true, false, false, true, true, false, false)), (String ((Ascii (false,
    true, false, false, true, true, false, false)),
    EmptyString)))))) :: ((String ((Ascii (true, false, true, false, true,
    true, true, false)), (String ((Ascii (false, true, true, false, true,
    true, false, false)), (String ((Ascii (false, false, true, false, true,
    true, false, false)), EmptyString)))))) :: ((String ((Ascii (true, false,
    true, false, true, true, true, false)), (String ((Ascii (true, false,
    false, false, true, true, false, false)), (String ((Ascii (false, true,
    false, false, true, true, false, false)), (String ((Ascii (false, false,
    false, true, true, true, false, false)), EmptyString)))))))) :: ((String
    ((Ascii (true, false, true, false, true, true, true, false)), (String
    ((Ascii (true, true, false, false, true, true, true, false)), (String
    ((Ascii (true, false, false, true, false, true, true, false)), (String
    ((Ascii (false, true, false, true, true, true, true, false)), (String
    ((Ascii (true, false, true, false, false, true, true, false)),
    EmptyString)))))))))) :: ((String ((Ascii (true, false, false, true,
    false, true, true, false)), (String ((Ascii (false, false, false, true,
    true, true, false, false)), EmptyString)))) :: ((String ((Ascii (true,
    false, false, true, false, true, true, false)), (String ((Ascii (true,
    false, false, false, true, true, false, false)), (String ((Ascii (false,
    true, true, false, true, true, false, false)),
    EmptyString)))))) :: ((String ((Ascii (true, false, false, true, false,
    true, true, false)), (String ((Ascii (true, true, false, false, true,
    true, false, false)), (String ((Ascii (false, true, false, false, true,
    true, false, false)), EmptyString)))))) :: ((String ((Ascii (true, false,
    false, true, false, true, true, false)), (String ((Ascii (false, true,
    true, false, true, true, false, false)), (String ((Ascii (false, false,
    true, false, true, true, false, false)), EmptyString)))))) :: ((String
    ((Ascii (true, false, false, true, false, true, true, false)), (String
    ((Ascii (true, false, false, false, true, true, false, false)), (String
    ((Ascii (false, true, false, false, true, true, false, false)), (String
    ((Ascii (false, false, false, true, true, true, false, false)),
    EmptyString)))))))) :: ((String ((Ascii (true, false, false, true, false,
    true, true, false)), (String ((Ascii (true, true, false, false, true,
    true, true, false)), (String ((Ascii (true, false, false, true, false,
    true, true, false)), (String ((Ascii (false, true, false, true, true,
    true, true, false)), (String ((Ascii (true, false, true, false, false,
    true, true, false)), EmptyString)))))))))) :: ((String ((Ascii (false,
    true, true, false, false, true, true, false)), (String ((Ascii (true,
    true, false, false, true, true, false, false)), (String ((Ascii (false,
    true, false, false, true, true, false, false)),
    EmptyString)))))) :: ((String ((Ascii (false, true, true, false, false,
    true, true, false)), (String ((Ascii (false, true, true, false, true,
    true, false, false)), (String ((Ascii (false, false, true, false, true,
    true, false, false)), EmptyString)))))) :: ((String ((Ascii (false, true,
    false, false, false, true, true, false)), (String ((Ascii (true, true,
    true, true, false, true, true, false)), (String ((Ascii (true, true,
    true, true, false, true, true, false)), (String ((Ascii (false, false,
    true, true, false, true, true, false)), EmptyString)))))))) :: ((String
    ((Ascii (true, false, false, true, false, true, true, false)), (String
    ((Ascii (false, false, false, false, true, true, true, false)), (String
    ((Ascii (false, true, true, false, true, true, true, false)), (String
    ((Ascii (false, false, true, false, true, true, false, false)),
    EmptyString)))))))) :: ((String ((Ascii (true, false, false, true, false,
    true, true, false)), (String ((Ascii (false, false, false, false, true,
    true, true, false)), (String ((Ascii (false, true, true, false, true,
    true, true, false)), (String ((Ascii (false, true, true, false, true,
    true, false, false)), EmptyString)))))))) :: [])))))))))))))))))

(** val bUILTIN_TYPES : bytes list **)

let bUILTIN_TYPES =
  map w0 ((String ((Ascii (true, false, true, false, true, true, true,
    false)), (String ((Ascii (false, false, false, true, true, true, false,
    false)), EmptyString)))) :: ((String ((Ascii (true, false, true, false,
    true, true, true, false)), (String ((Ascii (true, false, false, false,
    true, true, false, false)), (String ((Ascii (false, true, true, false,
    true, true, false, false)), EmptyString)))))) :: ((String ((Ascii (true,
    false, true, false, true, true, true, false)), (String ((Ascii (true,
    true, false, false, true, true, false, false)), (String ((Ascii (false,
    true, false, false, true, true, false, false)),
    EmptyString)))))) :: ((String ((Ascii (true, false, true, false, true,
    true, true, false)), (String ((Ascii (false, true, true, false, true,
    true, false, false)), (String ((Ascii (false, false, true, false, true,
    true, false, false)), EmptyString)))))) :: ((String ((Ascii (true, false,
    true, false, true, true, true, false)), (String ((Ascii (true, false,
    false, false, true, true, false, false)), (String ((Ascii (false, true,
    false, false, true, true, false, false)), (String ((Ascii (false, false,
    false, true, true, true, false, false)), EmptyString)))))))) :: ((String
    ((Ascii (true, false, true, false, true, true, true, false)), (String
    ((Ascii (true, true, false, false, true, true, true, false)), (String
    ((Ascii (true, false, false, true, false, true, true, false)), (String
    ((Ascii (false, true, false, true, true, true, true, false)), (String
    ((Ascii (true, false, true, false, false, true, true, false)),
    EmptyString)))))))))) :: ((String ((Ascii (true, false, false, true,
    false, true, true, false)), (String ((Ascii (false, false, false, true,
    true, true, false, false)), EmptyString)))) :: ((String ((Ascii (true,
    false, false, true, false, true, true, false)), (String ((Ascii (true,
    false, false, false, true, true, false, false)), (String ((Ascii (false,
    true, true, false, true, true, false, false)),
    EmptyString)))))) :: ((String ((Ascii (true, false, false, true, false,
    true, true, false)), (String ((Ascii (true, true, false, false, true,
    true, false, false)), (String ((Ascii (false, true, false, false, true,
    true, false, false)), EmptyString)))))) :: ((String ((Ascii (true, false,
    false, true, false, true, true, false)), (String ((Ascii (false, true,
    true, false, true, true, false, false)), (String ((Ascii (false, false,
    true, false, true, true, false, false)), EmptyString)))))) :: ((String
    ((Ascii (true, false, false, true, false, true, true, false)), (String
    ((Ascii (true, false, false, false, true, true, false, false)), (String
    ((Ascii (false, true, false, false, true, true, false, false)), (String
    ((Ascii (false, false, false, true, true, true, false, false)),
    EmptyString)))))))) :: ((String ((Ascii (true, false, false, true, false,
    true, true, false)), (String ((Ascii (true, true, false, false, true,
    true, true, false)), (String ((Ascii (true, false, false, true, false,
    true, true, false)), (String ((Ascii (false, true, false, true, true,
    true, true, false)), (String ((Ascii (true, false, true, false, false,
    true, true, false)), EmptyString)))))))))) :: ((String ((Ascii (false,
    true, true, false, false, true, true, false)), (String ((Ascii (true,
    true, false, false, true, true, false, false)), (String ((Ascii (false,
    true, false, false, true, true, false, false)),
    EmptyString)))))) :: ((String ((Ascii (false, true, true, false, false,
    true, true, false)), (String ((Ascii (false, true, true, false, true,
    true, false, false)), (String ((Ascii (false, false, true, false, true,
    true, false, false)), EmptyString)))))) :: ((String ((Ascii (false, true,
    false, false, false, true, true, false)), (String ((Ascii (true, true,
    true, true, false, true, true, false)), (String ((Ascii (true, true,
    true, true, false, true, true, false)), (String ((Ascii (false, false,
    true, true, false, true, true, false)), EmptyString)))))))) :: ((String
    ((Ascii (true, true, false, false, false, true, true, false)), (String
    ((Ascii (true, true, true, true, false, true, true, false)), (String
    ((Ascii (false, true, false, false, true, true, true, false)), (String
    ((Ascii (true, false, true, false, false, true, true, false)), (String
    ((Ascii (false, true, false, true, true, true, false, false)), (String
    ((Ascii (false, true, false, true, true, true, false, false)), (String
    ((Ascii (false, true, true, true, false, true, true, false)), (String
    ((Ascii (true, false, true, false, false, true, true, false)), (String
    ((Ascii (false, false, true, false, true, true, true, false)), (String
    ((Ascii (false, true, false, true, true, true, false, false)), (String
    ((Ascii (false, true, false, true, true, true, false, false)), (String
    ((Ascii (true, false, false, true, false, true, true, false)), (String
    ((Ascii (false, false, false, false, true, true, true, false)), (String
    ((Ascii (true, true, true, true, true, false, true, false)), (String
    ((Ascii (true, false, false, false, false, true, true, false)), (String
    ((Ascii (false, false, true, false, false, true, true, false)), (String
    ((Ascii (false, false, true, false, false, true, true, false)), (String
    ((Ascii (false, true, false, false, true, true, true, false)), (String
    ((Ascii (false, true, false, true, true, true, false, false)), (String
    ((Ascii (false, true, false, true, true, true, false, false)), (String
    ((Ascii (true, false, false, true, false, false, true, false)), (String
    ((Ascii (false, false, false, false, true, true, true, false)), (String
    ((Ascii (false, true, true, false, true, true, true, false)), (String
    ((Ascii (false, false, true, false, true, true, false, false)), (String
    ((Ascii (true, false, false, false, false, false, true, false)), (String
    ((Ascii (false, false, true, false, false, true, true, false)), (String
    ((Ascii (false, false, true, false, false, true, true, false)), (String
    ((Ascii (false, true, false, false, true, true, true, false)),
    EmptyString)))))))))))))))))))))))))))))))))))))))))))))))))))))))) :: ((String
    ((Ascii (true, true, false, false, false, true, true, false)), (String
    ((Ascii (true, true, true, true, false, true, true, false)), (String
    ((Ascii (false, true, false, false, true, true, true, false)), (String
    ((Ascii (true, false, true, false, false, true, true, false)), (String
    ((Ascii (false, true, false, true, true, true, false, false)), (String
    ((Ascii (false, true, false, true, true, true, false, false)), (String
    ((Ascii (false, true, true, true, false, true, true, false)), (String
    ((Ascii (true, false, true, false, false, true, true, false)), (String
    ((Ascii (false, false, true, false, true, true, true, false)), (String
    ((Ascii (false, true, false, true, true, true, false, false)), (String
    ((Ascii (false, true, false, true, true, true, false, false)), (String
    ((Ascii (true, false, false, true, false, true, true, false)), (String
    ((Ascii (false, false, false, false, true, true, true, false)), (String
    ((Ascii (true, true, true, true, true, false, true, false)), (String
    ((Ascii (true, false, false, false, false, true, true, false)), (String
    ((Ascii (false, false, true, false, false, true, true, false)), (String
    ((Ascii (false, false, true, false, false, true, true, false)), (String
    ((Ascii (false, true, false, false, true, true, true, false)), (String
    ((Ascii (false, true, false, true, true, true, false, false)), (String
    ((Ascii (false, true, false, true, true, true, false, false)), (String
    ((Ascii (true, false, false, true, false, false, true, false)), (String
    ((Ascii (false, false, false, false, true, true, true, false)), (String
    ((Ascii (false, true, true, false, true, true, true, false)), (String
    ((Ascii (false, true, true, false, true, true, false, false)), (String
    ((Ascii (true, false, false, false, false, false, true, false)), (String
    ((Ascii (false, false, true, false, false, true, true, false)), (String
    ((Ascii (false, false, true, false, false, true, true, false)), (String
    ((Ascii (false, true, false, false, true, true, true, false)),
    EmptyString)))))))))))))))))))))))))))))))))))))))))))))))))))))))) :: [])))))))))))))))))

(** val new_rst : rst **)

let new_rst =
  { rs_dump = empty_node; rs_disp = []; rs_cons =
    (combine bUILTIN_NAMES bUILTIN_TYPES); rs_live = []; rs_undo = None;
    rs_before = None; rs_searches = [] }

(** val fl : bool -> fkind -> bytes list -> finding list **)

let fl c k d =
  if c then [] else (k, d) :: []

(** val registered_b : (bytes * bytes) list -> bytes -> bool **)

let registered_b cons c =
  existsb (fun nt -> beqb (fst nt) c) cons

(** val check_dump : live -> node -> bytes -> finding list **)

let check_dump lv dump disp =
  app (fl (inv_b dump) FInv [])
    (app (fl (canonical_b dump) FCanonical [])
      (app (fl (routes_same (routes_of dump) (live_routes lv)) FRoutes [])
        (fl (beqb (display dump) disp) FDisplay
          ((display dump) :: (disp :: [])))))

(** val single_group_free : live -> route option **)

let single_group_free = function
| [] -> None
| p0 :: l ->
  let (t, d) = p0 in
  (match l with
   | [] ->
     (match template_routes t d with
      | Some r0 ->
        (match r0 with
         | [] -> None
         | p1 :: l0 ->
           let (r, _) = p1 in (match l0 with
                               | [] -> Some r
                               | _ :: _ -> None))
      | None -> None)
   | _ :: _ -> None)

(** val check_search : rst -> bytes -> sres -> finding list **)

let check_search x path r =
  let m = sres_of (search cfun x.rs_dump path) in
  let wres = w cfun (live_routes x.rs_live) path in
  let wr = sres_of wres in
  app (fl (sres_eqb m r) FOpsSearch (path :: []))
    (app
      (if sres_eqb wr r
       then []
       else (match r with
             | Some p0 ->
               let (p1, ps) = p0 in
               let (p2, d) = p1 in
               let (t, e) = p2 in
               if existsb (fun ri ->
                    (&&)
                      ((&&)
                        ((&&)
                          ((&&) (beqb (snd ri).i_template t)
                            (obeqb (snd ri).i_expanded e))
                          (N.eqb (snd ri).i_data d))
                        (list_beqb (param_names (fst ri)) (map fst ps)))
                      (fits_with cfun (fst ri) path (map snd ps)))
                    (live_routes x.rs_live)
               then (FWalkPriority, (path :: [])) :: []
               else (FWalkGenuine, (path :: [])) :: []
             | None ->
               if any_fits_b cfun (live_routes x.rs_live) path
               then (FWalkMissed, (path :: [])) :: []
               else (FWalkPriority, (path :: [])) :: []))
      (app
        (match single_group_free x.rs_live with
         | Some route0 ->
           (match r with
            | Some p0 ->
              let (_, ps) = p0 in
              fl (leftmost_longest_b cfun route0 path (map snd ps)) FGreedy
                (path :: [])
            | None -> [])
         | None -> [])
        (match x.rs_before with
         | Some p0 ->
           let (p1, olds) = p0 in
           let (ins, t) = p1 in
           (match find (fun pr -> beqb (fst pr) path) olds with
            | Some p2 ->
              let (_, old) = p2 in
              if tfits_b cfun t path
              then if ins
                   then fl (match r with
                            | Some _ -> true
                            | None -> false) FNotRouted (t :: (path :: []))
                   else []
              else fl (sres_eqb old r) FInterfere (t :: (path :: []))
            | None -> [])
         | None -> [])))

(** val check_insert :
    rst -> bytes -> n -> (insert_err, unit) result -> bytes -> node -> bytes
    -> rst * finding list **)

let check_insert x t d r rendered dump disp =
  let pre = { r_root = x.rs_dump; r_constraints = x.rs_cons } in
  let (m', mres) = rinsert pre t d in
  let spec = insert_spec x.rs_live (registered_b x.rs_cons) t in
  let ok0 = match r with
            | ROk _ -> true
            | _ -> false in
  let lv' = if ok0 then app x.rs_live ((t, d) :: []) else x.rs_live in
  let f_spec =
    match spec with
    | ISMalformed ->
      (match r with
       | ROk _ -> (FSpecInsert, (t :: [])) :: []
       | RErr e ->
         (match e with
          | IETemplate _ -> []
          | _ -> (FSpecInsert, (t :: [])) :: [])
       | RPanic _ -> [])
    | ISUnknown cs ->
      (match r with
       | ROk _ -> (FSpecInsert, (t :: [])) :: []
       | RErr e ->
         (match e with
          | IEUnknownConstraint c ->
            fl (existsb (beqb c) cs) FSpecInsert (t :: [])
          | _ -> (FSpecInsert, (t :: [])) :: [])
       | RPanic _ -> [])
    | ISConflict cs ->
      (match r with
       | ROk _ -> (FSpecInsert, (t :: [])) :: []
       | RErr e ->
         (match e with
          | IEConflict (t', cs') ->
            fl ((&&) (beqb t t') (list_beqb cs cs')) FSpecInsert (t :: [])
          | _ -> (FSpecInsert, (t :: [])) :: [])
       | RPanic _ -> [])
    | ISOk ->
      (match r with
       | RErr _ -> (FSpecInsert, (t :: [])) :: []
       | _ -> [])
  in
  let f_render =
    match r with
    | ROk _ -> []
    | RErr e ->
      app
        (fl (beqb (render_insert_err e) rendered) FRenderInsert
          (rendered :: []))
        (app
          (match e with
           | IETemplate te ->
             fl (terr_render_ok te rendered) FRenderField (rendered :: [])
           | IEConflict (t', cs) ->
             fl
               ((&&) (infix_b t' rendered)
                 (forallb (fun c -> infix_b c rendered) cs)) FRenderField
               (rendered :: [])
           | IEUnknownConstraint c ->
             fl (infix_b c rendered) FRenderField (rendered :: []))
          (match e with
           | IETemplate te -> fl (err_ok_b t te) FErrOk (t :: [])
           | _ -> []))
    | RPanic _ -> []
  in
  let fs =
    app (match r with
         | RPanic _ -> (FPanic, (t :: [])) :: []
         | _ -> [])
      (app
        (fl (result_eqb ierr_eqb (fun _ _ -> true) mres r) FOpsInsert
          (t :: []))
        (app f_spec
          (app f_render
            (app (fl (node_eqb m'.r_root dump) FTree (t :: []))
              (app (fl (flags_eqb m'.r_root dump) FFlags (t :: []))
                (app (check_dump lv' dump disp)
                  (if ok0
                   then []
                   else fl
                          ((&&) (node_eqb x.rs_dump dump)
                            (beqb x.rs_disp disp)) FNoop (t :: []))))))))
  in
  ({ rs_dump = dump; rs_disp = disp; rs_cons = x.rs_cons; rs_live = lv';
  rs_undo = (if ok0 then Some ((t, x.rs_dump), x.rs_disp) else None);
  rs_before = (if ok0 then Some ((true, t), x.rs_searches) else x.rs_before);
  rs_searches = (if ok0 then [] else x.rs_searches) }, fs)

(** val check_delete :
    rst -> bytes -> (delete_err, n) result -> bytes -> node -> bytes ->
    rst * finding list **)

let check_delete x t r rendered dump disp =
  let pre = { r_root = x.rs_dump; r_constraints = x.rs_cons } in
  let (m', mres) = rdelete pre t in
  let spec = delete_spec x.rs_live t in
  let ok0 = match r with
            | ROk _ -> true
            | _ -> false in
  let lv' = if ok0 then live_remove x.rs_live t else x.rs_live in
  let f_spec =
    match spec with
    | DSMalformed ->
      (match r with
       | ROk _ -> (FSpecDelete, (t :: [])) :: []
       | RErr e ->
         (match e with
          | DETemplate _ -> []
          | _ -> (FSpecDelete, (t :: [])) :: [])
       | RPanic _ -> [])
    | DSOk d ->
      (match r with
       | ROk d' -> fl (N.eqb d d') FSpecDelete (t :: [])
       | RErr _ -> (FSpecDelete, (t :: [])) :: []
       | RPanic _ -> [])
    | DSMismatch os ->
      (match r with
       | ROk _ -> (FSpecDelete, (t :: [])) :: []
       | RErr e ->
         (match e with
          | DEMismatch (t', i) ->
            fl ((&&) (beqb t t') (existsb (beqb i) os)) FSpecDelete (t :: [])
          | _ -> (FSpecDelete, (t :: [])) :: [])
       | RPanic _ -> [])
    | DSNotFound ->
      (match r with
       | ROk _ -> (FSpecDelete, (t :: [])) :: []
       | RErr e ->
         (match e with
          | DENotFound t' -> fl (beqb t t') FSpecDelete (t :: [])
          | _ -> (FSpecDelete, (t :: [])) :: [])
       | RPanic _ -> [])
  in
  let f_render =
    match r with
    | ROk _ -> []
    | RErr e ->
      app
        (fl (beqb (render_delete_err e) rendered) FRenderDelete
          (rendered :: []))
        (app
          (match e with
           | DETemplate te ->
             fl (terr_render_ok te rendered) FRenderField (rendered :: [])
           | DENotFound t' ->
             fl (infix_b t' rendered) FRenderField (rendered :: [])
           | DEMismatch (t', i) ->
             fl ((&&) (infix_b t' rendered) (infix_b i rendered))
               FRenderField (rendered :: []))
          (match e with
           | DETemplate te -> fl (err_ok_b t te) FErrOk (t :: [])
           | _ -> []))
    | RPanic _ -> []
  in
  let f_round =
    match x.rs_undo with
    | Some p0 ->
      let (p1, s0) = p0 in
      let (t0, d0) = p1 in
      if ok0
      then if beqb t0 t
           then fl ((&&) (node_eqb d0 dump) (beqb s0 disp)) FRoundtrip
                  (t :: [])
           else []
      else []
    | None -> []
  in
  let fs =
    app (match r with
         | RPanic _ -> (FPanic, (t :: [])) :: []
         | _ -> [])
      (app (fl (result_eqb derr_eqb N.eqb mres r) FOpsDelete (t :: []))
        (app f_spec
          (app f_render
            (app f_round
              (app (fl (node_eqb m'.r_root dump) FTree (t :: []))
                (app (fl (flags_eqb m'.r_root dump) FFlags (t :: []))
                  (app (check_dump lv' dump disp)
                    (if ok0
                     then []
                     else fl
                            ((&&) (node_eqb x.rs_dump dump)
                              (beqb x.rs_disp disp)) FNoop (t :: [])))))))))
  in
  ({ rs_dump = dump; rs_disp = disp; rs_cons = x.rs_cons; rs_live = lv';
  rs_undo = None; rs_before =
  (if ok0 then Some ((false, t), x.rs_searches) else x.rs_before);
  rs_searches = (if ok0 then [] else x.rs_searches) }, fs)

(** val check_constraint :
    rst -> bytes -> bytes -> (constraint_err, unit) result -> bytes ->
    rst * finding list **)

let check_constraint x name ty r rendered =
  let pre = { r_root = x.rs_dump; r_constraints = x.rs_cons } in
  let (_, mres) = rconstraint pre name ty in
  let fs =
    app (match r with
         | RPanic _ -> (FPanic, (name :: [])) :: []
         | _ -> [])
      (app
        (fl (result_eqb cerr_eqb (fun _ _ -> true) mres r) FOpsConstraint
          (name :: []))
        (match r with
         | ROk _ ->
           fl (negb (registered_b x.rs_cons name)) FSpecConstraint
             (name :: [])
         | RErr ce ->
           let CEDuplicateName (n0, e, nw) = ce in
           app
             (fl
               ((&&)
                 ((&&) ((&&) (registered_b x.rs_cons name) (beqb n0 name))
                   (beqb nw ty))
                 (existsb (fun nt ->
                   (&&) (beqb (fst nt) name) (beqb (snd nt) e)) x.rs_cons))
               FSpecConstraint (name :: []))
             (app
               (fl (beqb (render_constraint_err ce) rendered)
                 FRenderConstraint (rendered :: []))
               (fl
                 ((&&) ((&&) (infix_b n0 rendered) (infix_b e rendered))
                   (infix_b nw rendered)) FRenderField (rendered :: [])))
         | RPanic _ -> []))
  in
  ({ rs_dump = x.rs_dump; rs_disp = x.rs_disp; rs_cons =
  (match r with
   | ROk _ -> app x.rs_cons ((name, ty) :: [])
   | _ -> x.rs_cons); rs_live = x.rs_live; rs_undo = x.rs_undo; rs_before =
  x.rs_before; rs_searches = x.rs_searches }, fs)

(** val check_parse : bytes -> expansion list out -> bytes -> finding list **)

let check_parse t r rendered =
  let m = parse t in
  app (match r with
       | Panic _ -> (FPanic, (t :: [])) :: []
       | _ -> [])
    (app (fl (out_eqb m r) FParse (t :: []))
      (app
        (match r with
         | Ret es ->
           (match template_spec t with
            | Some sp -> fl (exps_eqb es sp) FGrammar (t :: [])
            | None -> (FGrammar, (t :: [])) :: [])
         | Err _ ->
           (match template_spec t with
            | Some _ -> (FGrammar, (t :: [])) :: []
            | None -> [])
         | Panic _ -> []
         | Fuel -> (FGrammar, (t :: [])) :: [])
        (match r with
         | Err e ->
           app (fl (err_ok_b t e) FErrOk (t :: []))
             (app
               (fl (beqb (render_terr e) rendered) FRenderParse
                 (rendered :: []))
               (fl (terr_render_ok e rendered) FRenderField (rendered :: [])))
         | _ -> [])))

(** val step : state -> event -> state * finding list **)

let step s = function
| EvNew rid -> ((set_r s rid new_rst), [])
| EvClone (a, b0) ->
  (match get_r s a with
   | Some x -> ((set_r s b0 x), [])
   | None -> (s, ((FUnknownRouter, []) :: [])))
| EvConstraint (rid, n0, ty, r, rd) ->
  (match get_r s rid with
   | Some x ->
     let (x', fs) = check_constraint x n0 ty r rd in ((set_r s rid x'), fs)
   | None -> (s, ((FUnknownRouter, []) :: [])))
| EvInsert (rid, t, d, r, rd, dump, disp) ->
  (match get_r s rid with
   | Some x ->
     let (x', fs) = check_insert x t d r rd dump disp in
     ((set_r s rid x'), fs)
   | None -> (s, ((FUnknownRouter, []) :: [])))
| EvDelete (rid, t, r, rd, dump, disp) ->
  (match get_r s rid with
   | Some x ->
     let (x', fs) = check_delete x t r rd dump disp in ((set_r s rid x'), fs)
   | None -> (s, ((FUnknownRouter, []) :: [])))
| EvSearch (rid, p0, r) ->
  (match get_r s rid with
   | Some x ->
     (match r with
      | SPanic -> (s, ((FPanic, (p0 :: [])) :: []))
      | SRes r0 ->
        ((set_r s rid { rs_dump = x.rs_dump; rs_disp = x.rs_disp; rs_cons =
           x.rs_cons; rs_live = x.rs_live; rs_undo = x.rs_undo; rs_before =
           x.rs_before; rs_searches = ((p0, r0) :: x.rs_searches) }),
          (check_search x p0 r0)))
   | None -> (s, ((FUnknownRouter, []) :: [])))
| EvDumpOf (rid, dump, disp) ->
  (match get_r s rid with
   | Some x ->
     (s,
       (fl
         ((&&) ((&&) (node_eqb x.rs_dump dump) (flags_eqb x.rs_dump dump))
           (beqb x.rs_disp disp)) FDumpOf []))
   | None -> (s, ((FUnknownRouter, []) :: [])))
| EvSame (a, b0) ->
  (match get_r s a with
   | Some x ->
     (match get_r s b0 with
      | Some y ->
        (s,
          (fl
            ((&&) (node_eqb x.rs_dump y.rs_dump) (beqb x.rs_disp y.rs_disp))
            FSame (x.rs_disp :: (y.rs_disp :: []))))
      | None -> (s, ((FUnknownRouter, []) :: [])))
   | None -> (s, ((FUnknownRouter, []) :: [])))
| EvParse (t, r, rd) -> (s, (check_parse t r rd))
| EvBuiltin (n0, v, a, b0) -> (s, (fl (eqb0 a b0) FBuiltin (n0 :: (v :: []))))
| EvOci (_, _, _) -> (s, [])
| EvEnd -> ([], [])

(** val step_line : state -> bytes -> state * finding list **)

let step_line s line =
  match parse_line line with
  | Some e -> step s e
  | None -> (s, ((FBadLine, (line :: [])) :: []))

(** val oci_step : bytes -> finding list **)

let oci_step _ =
  []
