#!/bin/bash
# One-time setup after a fresh restore (offline): build the Coq development, the extracted OCaml
# checker and the Rust harness from files on disk.
set -e
cd "$(dirname "$0")"
export CARGO_NET_OFFLINE=true
tools/build.sh
echo "setup ok"
