"""Per-property configuration of the check driver: scenarios (name, quick count, thorough count),
finding kinds that decide the property (primary: an oracle rejected an implementation output;
secondary: a correspondence channel the property's theorems rely on differs), and the rule that
makes a case non-trivial."""

TRUSTED_BASE = [
    "Coq 8.16.1 kernel (coqc; full .vo build, no -vos/-vok, no native_compute)",
    "axioms: none declared; Print Assumptions of every property theorem is 'Closed under the global context'",
    "tools/gen_formats.py (translator: error Display format strings -> coq/Gen/Formats.v)",
    "extraction: ExtrOcamlBasic only (bool, option, list, prod, unit, sumbool -> OCaml natives); no Extract Constant; N/positive/nat/Z/ascii/string stay Coq datatypes",
    "ocamlfind ocamlopt 4.13.1; ocaml/driver.ml (line reader/printer around the extracted checker)",
    "harness/ (Rust): executes scripts on /repo built with feature `verif`; tools/gen.py (script generator); check (orchestration)",
    "rustc/cargo 1.95 (builds the crate; decides Send/Sync for C18; overflow checks for C07)",
    "modelled, not verified: Vec/String/HashMap/SmallVec/Arc, std::str::from_utf8 (own recogniser Base/Utf8.v), String::from_utf8_lossy (Model/Display.v lossy), sort_by (stable insertion sort), FromStr impls (oracle), type_name (opaque strings)",
]

WALK_SECONDARY = ['OpsSearch', 'Inv', 'Routes', 'Flags']

def st(pred):
    return pred

PROPS = {
 'C01': dict(level='proof', scenarios=[('hist', 4800, 120000)],
    primary=['WalkGenuine'], secondary=WALK_SECONDARY,
    nontrivial=dict(stat=lambda s: s[2] >= 1),
    rule='random insert/delete histories (tools/gen.py hist), every path searched after every mutation; non-trivial = a search that matched with >= 1 parameter, distinct by the full observation line',
    explanation='Theorem C01_search_genuine (closed under the global context): for EVERY tree satisfying the decidable structural invariant inv_b, every constraint predicate and every byte path, a match returned by the model\'s search is one of the tree\'s routes laid over the path with exactly the returned values (non-empty, no \'/\' in dynamic values, constraints accept, substitution rebuilds the path). Proof: search_refines_W (tree search = documented walk W on the routes of the tree) + walk_sound. Tie to the code, re-established every run: the extracted checker evaluates inv_b on the dump of the REAL tree after every mutation, runs the model\'s search on that real tree against Router::search (channel OpsSearch), compares routes_of(dump) with the routes of the live templates (Registry, independent grammar), and judges every real search result with genuine_b / W on the live routes. That every reachable tree satisfies inv_b is validated on the real dumps, not proved for the model\'s insert/delete (stated as hypothesis of the theorem). REACHABILITY (Proofs/ReachP.v, closed): every router the model reaches from Router::new by ANY sequence of insert/delete/constraint calls, successful or failing, satisfies wf and tidy, hence inv_b (insert preserves the structural invariant and the dirty discipline, optimize establishes order and flags, delete preserves both without needing optimize, the parser only produces well-formed part lists), so the theorem holds for every history of model operations with no side condition; the implementation is tied to the model by the one-step correspondence from real states and by evaluating inv_b/wf/tidy on every real dump.'),
 'C02': dict(level='proof', scenarios=[('hist', 4800, 120000)],
    primary=['WalkMissed', 'NotRouted'], secondary=WALK_SECONDARY,
    nontrivial=dict(stat=lambda s: s[1] >= 1 and s[2] >= 1),
    rule='as C01; non-trivial = a searched path that some live route fits and whose match binds >= 1 parameter',
    explanation='Theorems C02_no_false_negatives and C02_none_iff_nothing_fits (closed): for every inv_b tree, every constraint predicate, every path: search answers iff some route of the tree fits the path. Proof: search_refines_W + walk_complete (induction on the path; the fitting value is among the enumerated candidates, failures fall through). Tie to the code as for C01 (inv_b and routes checked on real dumps, model search vs real search, any_fits_b/W judge every real answer). REACHABILITY (Proofs/ReachP.v, closed): every router the model reaches from Router::new by ANY sequence of insert/delete/constraint calls, successful or failing, satisfies wf and tidy, hence inv_b (insert preserves the structural invariant and the dirty discipline, optimize establishes order and flags, delete preserves both without needing optimize, the parser only produces well-formed part lists), so the theorem holds for every history of model operations with no side condition; the implementation is tied to the model by the one-step correspondence from real states and by evaluating inv_b/wf/tidy on every real dump.'),
 'C03': dict(level='proof', scenarios=[('hist', 4800, 120000)],
    primary=['WalkPriority', 'WalkGenuine', 'WalkMissed'], secondary=WALK_SECONDARY,
    nontrivial=dict(stat=lambda s: s[1] >= 2),
    rule='as C01; non-trivial = a searched path that >= 2 live routes fit',
    explanation='Theorem C03_search_is_documented_walk (closed): for every inv_b tree, predicate and path, search = W (routes of the tree), field by field (template, expansion, data, parameter list); W (Spec/Walk.v, ~60 lines) is the executable text of the documented priority walk; C03_search_is_walk_of_live_routes lifts it to any arrangement of the routes (W_perm). The order of attempts and the flag gates of Node::search are regenerated from src/node/search.rs every run (Gen/Tables.v) and checked by search_order_documented. Tie: as C01; every real search result is compared with W on the routes induced by the live templates. REACHABILITY (Proofs/ReachP.v, closed): every router the model reaches from Router::new by ANY sequence of insert/delete/constraint calls, successful or failing, satisfies wf and tidy, hence inv_b (insert preserves the structural invariant and the dirty discipline, optimize establishes order and flags, delete preserves both without needing optimize, the parser only produces well-formed part lists), so the theorem holds for every history of model operations with no side condition; the implementation is tied to the model by the one-step correspondence from real states and by evaluating inv_b/wf/tidy on every real dump.'),
 'C04': dict(level='other', scenarios=[('groups', 2400, 60000), ('parse', 4500, 90000), ('parsex4', 1, 1)],
    primary=['Grammar', 'WalkPriority', 'WalkGenuine', 'WalkMissed', 'Same'], secondary=['Parse', 'OpsSearch', 'Routes'],
    nontrivial=dict(stat=lambda s: False, line=lambda l: l.startswith('parse ') and ' ok ' in l and not l.split()[3] == '1'),
    rule='templates with optional groups: hook output compared with expansions_spec; router holding the grouped template vs router holding its expansions inserted one by one; non-trivial = accepted template with >= 2 expansions',
    explanation='No closed Coq theorem decides this property yet (statement and plan: DESIGN.md section 8). What decides it in this run: (i) correspondence - the executable Gallina model (parser, tree operations, search, Display, error rendering; coq/Model) is run one step from every REAL pre-state on the same operation and must produce the same result and the same tree as the crate; (ii) specification oracles extracted from coq/Spec (independent grammar, registry, W, canonical shape, error-position checker) judge the crate\'s outputs directly. Level `other`: differential + executable-specification checking with the oracles written in Coq; theorems about the model for this property are future work.'),
 'C05': dict(level='proof', scenarios=[('fresh', 3600, 90000), ('hist', 2400, 60000)],
    primary=['Same', 'WalkPriority', 'WalkGenuine', 'WalkMissed'], secondary=WALK_SECONDARY + ['Canonical'],
    nontrivial=dict(stat=lambda s: False, line=lambda l: l.startswith('delete ') and l.split()[3] == 'ok'),
    rule='router driven through inserts and deletes vs router built from the survivors in shuffled order (same: dump + Display equal; every search judged against W on the live set); non-trivial = history with a successful delete',
    explanation='Theorem C05_same_routes_same_answers (closed): two inv_b trees holding the same routes, whatever shape, child order, stale flags and dirty marks history left, answer every path identically (search_refines_W + W_perm). The \'print identical trees\' half is decided by the oracle path only: canonical_b on every real dump and dump/Display equality between a history-driven router and one built from the survivors in shuffled order (no canonical-uniqueness theorem yet). REACHABILITY (Proofs/ReachP.v, closed): every router the model reaches from Router::new by ANY sequence of insert/delete/constraint calls, successful or failing, satisfies wf and tidy, hence inv_b (insert preserves the structural invariant and the dirty discipline, optimize establishes order and flags, delete preserves both without needing optimize, the parser only produces well-formed part lists), so the theorem holds for every history of model operations with no side condition; the implementation is tied to the model by the one-step correspondence from real states and by evaluating inv_b/wf/tidy on every real dump.'),
 'C06': dict(level='proof', scenarios=[('hist', 4800, 120000)],
    primary=['Interfere', 'NotRouted'], secondary=WALK_SECONDARY,
    nontrivial=dict(stat=lambda s: s[1] >= 1 and s[3] >= 2),
    rule='same path set searched before and after every mutation; classified by tfits_b; non-trivial = matched path on a router with >= 2 live templates',
    explanation='Theorems C06_unrelated_paths_unchanged and C06_fitted_paths_matched (closed): if t\' holds the routes of t plus new ones (insert; read backwards: delete), every path that none of the new routes fits keeps exactly its answer, and every path a new route fits is matched (search_refines_W + walk_cons_nofit + W_perm + walk_complete). Tie: as C01; the checker also compares the real answers for the same path set before and after every mutation, classified by tfits_b. REACHABILITY (Proofs/ReachP.v, closed): every router the model reaches from Router::new by ANY sequence of insert/delete/constraint calls, successful or failing, satisfies wf and tidy, hence inv_b (insert preserves the structural invariant and the dirty discipline, optimize establishes order and flags, delete preserves both without needing optimize, the parser only produces well-formed part lists), so the theorem holds for every history of model operations with no side condition; the implementation is tied to the model by the one-step correspondence from real states and by evaluating inv_b/wf/tidy on every real dump.'),
 'C07': dict(level='other', scenarios=[('parsex5', 1, 1), ('parse', 6000, 120000), ('hist', 2400, 60000), ('clone', 600, 12000)],
    primary=['Panic'], secondary=['Parse', 'HarnessCrash'],
    nontrivial=dict(stat=lambda s: False, line=lambda l: l.startswith('parse ') and ' terr ' in l),
    rule='every string of length <= 5 (quick) / 6 (thorough) over / { } ( ) \\ : * a b e-acute Z-caron offered to the parser hook, random well- and malformed templates through insert/delete/search/clone/Display under catch_unwind (debug build, overflow checks on); non-trivial = rejected template',
    explanation='No closed Coq theorem decides this property yet (statement and plan: DESIGN.md section 8). What decides it in this run: (i) correspondence - the executable Gallina model (parser, tree operations, search, Display, error rendering; coq/Model) is run one step from every REAL pre-state on the same operation and must produce the same result and the same tree as the crate; (ii) specification oracles extracted from coq/Spec (independent grammar, registry, W, canonical shape, error-position checker) judge the crate\'s outputs directly. Level `other`: differential + executable-specification checking with the oracles written in Coq; theorems about the model for this property are future work.'),
 'C08': dict(level='other', scenarios=[('hist', 4800, 120000), ('conflict', 1800, 45000)],
    primary=['SpecInsert'], secondary=['OpsInsert', 'Routes'],
    nontrivial=dict(stat=lambda s: False, line=lambda l: l.startswith('insert ') and l.split()[4] == 'conflict'),
    rule='insert outcome compared with Registry.insert_spec; non-trivial = insert refused with a conflict',
    explanation='No closed Coq theorem decides this property yet (statement and plan: DESIGN.md section 8). What decides it in this run: (i) correspondence - the executable Gallina model (parser, tree operations, search, Display, error rendering; coq/Model) is run one step from every REAL pre-state on the same operation and must produce the same result and the same tree as the crate; (ii) specification oracles extracted from coq/Spec (independent grammar, registry, W, canonical shape, error-position checker) judge the crate\'s outputs directly. Level `other`: differential + executable-specification checking with the oracles written in Coq; theorems about the model for this property are future work.'),
 'C09': dict(level='other', scenarios=[('hist', 4800, 120000)],
    primary=['SpecDelete', 'Routes'], secondary=['OpsDelete', 'Tree'],
    nontrivial=dict(stat=lambda s: False, line=lambda l: l.startswith('delete ') and l.split()[3] in ('mismatch', 'ok')),
    rule='delete outcome compared with Registry.delete_spec, routes of the dumped tree with the live set; non-trivial = delete that succeeded or reported a mismatch',
    explanation='No closed Coq theorem decides this property yet (statement and plan: DESIGN.md section 8). What decides it in this run: (i) correspondence - the executable Gallina model (parser, tree operations, search, Display, error rendering; coq/Model) is run one step from every REAL pre-state on the same operation and must produce the same result and the same tree as the crate; (ii) specification oracles extracted from coq/Spec (independent grammar, registry, W, canonical shape, error-position checker) judge the crate\'s outputs directly. Level `other`: differential + executable-specification checking with the oracles written in Coq; theorems about the model for this property are future work.'),
 'C10': dict(level='other', scenarios=[('hist', 3600, 90000), ('roundtrip', 2400, 60000)],
    primary=['Noop', 'Roundtrip'], secondary=['OpsInsert', 'OpsDelete', 'Tree', 'Display'],
    nontrivial=dict(stat=lambda s: False, line=lambda l: (l.startswith('insert ') and l.split()[4] not in ('ok',)) or (l.startswith('delete ') and l.split()[3] != 'ok')),
    rule='dump and Display before/after every failing call; insert followed by delete of the same template compared with the state before; non-trivial = failing call',
    explanation='Closed theorems for the first half on the model: a failing insert / constraint call returns the router unchanged; a failing delete returns it unchanged except for the NotFound that follows the removal loop (C10_failed_delete_partial). The round-trip half (insert then delete restores tree, Display and every search) has no theorem; it is decided by the oracle path: dump and Display compared before/after every failing call (Noop) and after insert∘delete (Roundtrip), with the model\'s operations matched one step from the real state (OpsInsert, OpsDelete, Tree, Display).'),
 'C11': dict(level='other', scenarios=[('parsex5', 1, 1), ('parse', 9000, 180000)],
    primary=['Grammar'], secondary=['Parse'],
    nontrivial=dict(stat=lambda s: False, line=lambda l: l.startswith('parse ') and ' ok ' in l),
    rule='hook output (accept/reject, expansions, decoded parts) vs Grammar.template_spec on every string of length <= 5/6 over the syntax alphabet and on random templates; non-trivial = accepted template',
    explanation='No closed Coq theorem decides this property yet (statement and plan: DESIGN.md section 8). What decides it in this run: (i) correspondence - the executable Gallina model (parser, tree operations, search, Display, error rendering; coq/Model) is run one step from every REAL pre-state on the same operation and must produce the same result and the same tree as the crate; (ii) specification oracles extracted from coq/Spec (independent grammar, registry, W, canonical shape, error-position checker) judge the crate\'s outputs directly. Level `other`: differential + executable-specification checking with the oracles written in Coq; theorems about the model for this property are future work.'),
 'C12': dict(level='proof', scenarios=[('single', 4500, 120000)],
    primary=['Greedy'], secondary=WALK_SECONDARY,
    nontrivial=dict(stat=lambda s: s[2] >= 2 and s[3] == 1),
    rule='routers holding one group-free template with >= 2 parameters; returned values judged by leftmost_longest_b; non-trivial = match with >= 2 parameters',
    explanation='Closed theorems: C12_walk_leftmost_longest (the documented walk W over a single route returns the leftmost-longest assignment LL: the values fit and at every parameter, earlier values fixed, no strictly longer value admits a fit of the rest) and C12_single_route_tree_leftmost_longest (hence every inv_b tree holding exactly one route, for every path and constraint predicate, whichever search strategy its flags select). Proof: on a singleton every continuation reaches the same route, `better i i = true`, so the fold keeps the LAST successful candidate (pick_last); candidates are enumerated by strictly increasing length (cands_longer); a longer fitting value would be a later successful candidate by walk_complete. Tie: inv and OpsSearch as for C01; the oracle leftmost_longest_b judges every real answer on single-template routers with >= 2 parameters. REACHABILITY (Proofs/ReachP.v, closed): every router the model reaches from Router::new by ANY sequence of insert/delete/constraint calls, successful or failing, satisfies wf and tidy, hence inv_b (insert preserves the structural invariant and the dirty discipline, optimize establishes order and flags, delete preserves both without needing optimize, the parser only produces well-formed part lists), so the theorem holds for every history of model operations with no side condition; the implementation is tied to the model by the one-step correspondence from real states and by evaluating inv_b/wf/tidy on every real dump.'),
 'C13': dict(level='proof', scenarios=[('builtin', 3000, 300000), ('hist', 3600, 90000)],
    primary=['Builtin', 'SpecConstraint', 'SpecInsert', 'WalkMissed'], secondary=['OpsConstraint', 'OpsSearch'],
    nontrivial=dict(stat=lambda s: False, line=lambda l: l.startswith('builtin ') or l.startswith('constraint ')),
    rule='built-in name x value: routed vs str::parse::<T>() called directly; duplicate registration, unknown constraint; fall-through judged by W; non-trivial = builtin or constraint observation',
    explanation='(a) C13_duplicate_name_refused and (d) C13_rejection_skips_one_alternative (completeness for ARBITRARY constraint predicates) are closed theorems; (c) builtin_table_ok is a closed computation over the table regenerated from src/constraints.rs and Router::new every run (17 built-ins, body part.parse::<Self>().is_ok(), all registered). Partial, named: FromStr itself is std code outside the model; tied by the builtin channel (routed vs str::parse::<T>() called directly, boundary numerals and random strings). (b) unknown constraint: Registry.insert_spec judged on every real insert. REACHABILITY (Proofs/ReachP.v, closed): every router the model reaches from Router::new by ANY sequence of insert/delete/constraint calls, successful or failing, satisfies wf and tidy, hence inv_b (insert preserves the structural invariant and the dirty discipline, optimize establishes order and flags, delete preserves both without needing optimize, the parser only produces well-formed part lists), so the theorem holds for every history of model operations with no side condition; the implementation is tied to the model by the one-step correspondence from real states and by evaluating inv_b/wf/tidy on every real dump.'),
 'C14': dict(level='other', scenarios=[('parsex5', 1, 1), ('parse', 9000, 180000)],
    primary=['ErrOk', 'RenderField'], secondary=['Parse', 'RenderParse'],
    nontrivial=dict(stat=lambda s: False, line=lambda l: l.startswith('parse ') and ' terr ' in l),
    rule='every template error from the exhaustive and random streams judged by err_ok_b and terr_render_ok; non-trivial = rejected template',
    explanation='Rendering half proved (C14_render_caret_line, closed, over the regenerated formats: the message shows the reported template followed by a caret line of exactly `position` spaces and `length` carets). The \'fault really present\' half has no theorem about the parser model yet; it is decided by the oracle err_ok_b (reported text is the input or one of its expansions by the independent list grammar; offsets in range; indicated bytes are the offending construct) on every error the crate produces over every string of length <= 5/6 over the syntax alphabet and random malformed templates; plus Parse/RenderParse correspondence.'),
 'C15': dict(level='other', scenarios=[('hist', 4800, 120000)],
    primary=['Canonical', 'Routes', 'Display'], secondary=['Tree'],
    nontrivial=dict(stat=lambda s: False, line=lambda l: l.startswith('delete ') and l.split()[3] == 'ok'),
    rule='canonical_b and routes_same on the dump after every mutation, Display text vs Model.display of the dump; non-trivial = successful delete',
    explanation='Closed theorems for every router the model reaches by any history (C15_reachable_tree_is_ordered_and_alive, C15_shape_of_a_wf_tidy_node): literal siblings have non-empty prefixes with pairwise different first bytes and are strictly sorted; siblings of each parameter kind are strictly sorted by (name, constraint); no empty node exists below the root, so every leaf is marked; catch-all nodes carry data and have no children. Kind order is fixed by the printer (Model/Display.v, matched against the real Display on every dump). NOT proved: maximal compression of literal chains and that the routes of the tree are exactly the live routes - decided by canonical_b and routes_same (against the registry built with the independent grammar) on every real dump, and by the Display channel (model printer incl. from_utf8_lossy on the real dump = to_string()).'),
 'C16': dict(level='other', scenarios=[('clone', 1800, 45000)],
    primary=['DumpOf', 'SpecDelete', 'SpecInsert', 'WalkPriority', 'WalkGenuine', 'WalkMissed', 'Roundtrip'], secondary=['OpsDelete', 'OpsInsert', 'OpsSearch', 'Tree'],
    nontrivial=dict(stat=lambda s: False, line=lambda l: (l.startswith('dumpof ') and ' D ' in l) or (l.startswith('arcs ') and len({x for x in l.split()[2::4]}) >= 2)),
    rule='families of routers related by clone; every router dumped after every operation on any member; non-trivial = distinct non-empty dump of a family member observed after an operation on another member or a clone, or distinct shared-data view with shared nodes in at least two routers',
    explanation='The model is functional, so a family of routers related by clone is a list and independence holds by construction (C16_* closed, deliberately small). What the model cannot represent is Arc aliasing between a router and its clone (the defect repaired by 93e6281). That is decided by the clone scenario: every family member is dumped after every operation on any member and must be unchanged (DumpOf), every operation on a clone is matched against the model one step from the real state and judged by insert_spec/delete_spec and W.'),
 'C17': dict(level='other', scenarios=[('oci', 12000, 300000), ('ocinamex6', 1, 1)],
    primary=['Oci', 'OciName'], secondary=['OciModel'],
    nontrivial=dict(stat=lambda s: False, line=lambda l: l.startswith('oci ') and ' S ' in l),
    rule='method x URL over the six endpoint shapes with names from the repository-name grammar (and violations of it), tokens, trailing slash, mutations; name constraint (regex crate) vs name_ok on every string of length <= 6 over a 0 . _ - / A; non-trivial = routed URL',
    explanation='No closed Coq theorem decides this property yet (statement and plan: DESIGN.md section 8). What decides it in this run: (i) correspondence - the executable Gallina model (parser, tree operations, search, Display, error rendering; coq/Model) is run one step from every REAL pre-state on the same operation and must produce the same result and the same tree as the crate; (ii) specification oracles extracted from coq/Spec (independent grammar, registry, W, canonical shape, error-position checker) judge the crate\'s outputs directly. Level `other`: differential + executable-specification checking with the oracles written in Coq; theorems about the model for this property are future work.'),
 'C18': dict(level='other', scenarios=[('threads', 400, 10000)],
    primary=['DumpOf', 'WalkPriority', 'WalkGenuine', 'WalkMissed'], secondary=['OpsSearch'],
    nontrivial=dict(stat=lambda s: s[1] >= 1),
    rule='4-16 threads searching one shared router; every answer judged by W; dump before = dump after; non-trivial = matched search',
    explanation='Send/Sync is decided by rustc (harness/src/main.rs: assert_send_sync::<Router<u32>>() - the harness does not build otherwise). Coq part, deliberately small: C18_no_hidden_state over the inventory regenerated from src/ every run (no static items, interior mutability, unsafe, ambient state; Constraint: Send + Sync) and C18_schedule_independent on the functional model. Runtime: 4-16 threads searching a shared router for up to 60 rounds incl. deep routes, every answer judged by W, dump before = dump after. Thread interleavings themselves are runtime behaviour the model cannot exhibit.'),
 'C19': dict(level='proof', scenarios=[('hist', 4800, 120000), ('conflict', 1800, 45000)],
    primary=['RenderField', 'SpecInsert', 'SpecDelete', 'SpecConstraint'], secondary=['RenderInsert', 'RenderDelete', 'RenderConstraint', 'OpsInsert', 'OpsDelete', 'OpsConstraint'],
    nontrivial=dict(stat=lambda s: False, line=lambda l: (l.startswith('insert ') and l.split()[4] not in ('ok',)) or (l.startswith('delete ') and l.split()[3] != 'ok') or (l.startswith('constraint ') and ' dup ' in l)),
    rule='payload of every error vs the registry specification; rendered message must contain every payload string; non-trivial = failing call',
    explanation='Closed theorems: payload facts for every error-returning branch of the model router (C19_conflict_names_the_template, C19_conflicts_sorted_nonempty, C19_unknown_constraint_genuine: the reported constraint is used by an expansion and unregistered, C19_delete_errors_name_the_template) and C19_render_* : for the format strings REGENERATED from src/errors/*.rs on this run, every payload string (template, each conflict, constraint, inserted, name and both type names) is an infix of the rendered message, for all strings. Tie: Ops* (model outcome from the real pre-state = crate outcome, every payload field), Render* (model message = real message byte for byte), RenderField and Spec* judge the crate\'s outputs directly. The membership of the conflict list in the live set is decided by SpecInsert (registry oracle), not by a theorem.'),
}

# ---- operation-level theorems over every history (Proofs/RouterRoutesP.v, RegistryP.v, ReachOpsP.v) ----
REGISTRY = (' REGISTRY REFINEMENT (Proofs/RegistryP.v, closed): along every history of model operations the tree and the list of live '
            '(template, data) pairs - a pair enters by a successful insert and leaves by a successful delete - stay in step (Abs: every stored route '
            'belongs to exactly one live template and carries its data; every expansion of a live template is stored under it; live templates are '
            'pairwise different strings). Underneath: routes_of after insert/delete/optimize characterised as a membership relation '
            '(insert_routes, delete_routes, optimize_routes), find_node = membership for the normalised part lists the parser produces (find_ok), '
            'no route stored twice (routes_nodup), parse always yields at least one expansion (parse_nonempty).')
PROPS['C05']['explanation'] += (' Added: C05_reachable_same_route_sets_same_answers - two histories whose trees store the same (route, info) '
    'pairs answer every path identically, with no side condition (NoDup follows from routes_nodup on wf trees).')
PROPS['C06']['explanation'] += (' OPERATION LEVEL (closed, every history): C06_insert_changes_only_fitted_paths, C06_insert_fitted_paths_matched, '
    'C06_delete_changes_only_fitted_paths - if Router::insert / Router::delete of the model succeeds on a reachable router, every path that no '
    'expansion of the template fits keeps exactly its previous search result, and every path an expansion fits is matched after the insert.' + REGISTRY)
PROPS['C08']['level'] = 'proof'
PROPS['C08']['explanation'] = ('Closed theorems for every router the model reaches by any history, with live_of = the templates that history left live: '
    'C08_conflict_lists_exactly_the_owners (a conflict leaves the router unchanged, names the candidate, and its list is strictly increasing - sorted, each '
    'name once - and contains exactly the live templates that own a part sequence of one of the candidate\'s expansions), C08_conflict_iff_structural_duplicate '
    '(a template that parses and whose constraints are registered is refused with a conflict iff such a live template exists, and is accepted otherwise), '
    'C08_inserted_expansions_routable (after acceptance every path that an expansion fits is matched).' + REGISTRY +
    ' "Same part sequence" is equality of atom lists (literal bytes after unescaping, kind, name, constraint name), which is what atoms_of of the parser model\'s parts '
    'gives; that the parser model computes the documented expansions is C04/C11 (oracle-decided). Tie to the code: one-step correspondence of insert '
    '(result, conflict list, tree) from every real pre-state, and Registry.insert_spec (independent grammar) judging every real insert.')
PROPS['C09']['level'] = 'proof'
PROPS['C09']['explanation'] = ('Closed theorems for every router the model reaches by any history: C09_delete_succeeds_iff_live (delete(t) returns Ok(d) iff the '
    'pair (t, d) is live - the identical byte string, the data given at insertion), C09_delete_removes_exactly_the_expansions (afterwards no expansion of t is stored '
    'and every other (route, info) pair is stored exactly as before), C09_mismatch_names_a_live_owner, C09_notfound_means_no_live_owner and C09_not_live_error_choice '
    '(a parsable template that is not live gets Mismatch naming a live template that owns one of its routes when there is one, NotFound otherwise; both leave the router unchanged).'
    + REGISTRY + ' Not in the model: Arc::try_unwrap recovering the owned data (the model is functional; aliasing is C16\'s subject and is decided there by the clone channel). '
    'Tie to the code: one-step correspondence of delete (result, returned data, tree) from every real pre-state, Registry.delete_spec judging every real delete, '
    'routes of every real dump compared with the live set.')
PROPS['C10']['level'] = 'proof'
PROPS['C10']['explanation'] = ('Closed theorems: C10_failed_insert_changes_nothing and C10_failed_constraint_changes_nothing (any router), '
    'C10_failed_delete_changes_nothing (every reachable router: each of the three delete errors returns the router it was given - the NotFound after the removal '
    'loop is shown unreachable because find_node and delete agree on membership), C10_insert_then_delete_is_identity (after a successful insert(t, d) on a reachable '
    'router, delete(t) succeeds, returns d, restores the constraint table, the exact set of stored (route, info) pairs and therefore the result of every search for every '
    'constraint predicate).' + REGISTRY + ' Partial, named: "restores the previous printed tree" is proved as equality of the stored route set and of all search results, '
    'not yet as equality of the tree term (that needs uniqueness of the canonical shape, see C15); Display/dump equality before and after is decided by the Noop and '
    'Roundtrip channels on the real router every run.')

PROPS['C05']['explanation'] += (' THE PROPERTY ITSELF (search half), closed: C05_same_live_templates_same_answers - two histories of model operations that leave the same set of live '
    '(template, data) pairs answer every path identically, and C05_same_live_templates_same_stored_routes - they store the same routes with the same infos (template, expansion text, depth, length, data). '
    'Needed the exact overwrite order of insert (InsM third clause: a route ending in a catch-all keeps its first info, any other repeated route takes the last) and tinfo/fold_info '
    '(Proofs/RouterRoutesP.v), so that the stored info is a function of (template, data, route).')
PROPS['C07']['level'] = 'proof'
PROPS['C07']['explanation'] = ('Closed theorems (Properties/C07.v). The parser model is written in checked style: every index, slice and subtraction of src/parser.rs is an explicit operation '
    'that yields Panic when out of range, and every loop and the recursion on nested groups runs on fuel. C07_parser_total: for EVERY byte string, parse returns an expansion list or a template '
    'error - never Panic, never Fuel (bounds invariants for expand/scan, brace_scan, parameter_part, static_part, template_loop; progress of every loop). C07_insert_never_panics / '
    'C07_delete_never_panics: the model router operations never report a panic. For the places where the Rust tree code indexes or unwraps: C07_parts_well_formed (literal parts and names '
    'handed to the tree are non-empty: prefix[0] in insert_static/find_static), C07_reachable_static_prefixes_nonempty (wf of every reachable tree), C07_reachable_constraints_registered '
    '(every constraint named in a stored route is registered, for every history: constraints.get(..).unwrap() in the search). Partial, named: the tree operations and the renderers of the model are total '
    'Gallina functions, so slices inside search, Display and the error renderers are covered by the correspondence and by running the REAL crate under catch_unwind in a debug build with overflow checks '
    '(every string of length <= 5/6 over the syntax alphabet through the parser hook; random well/malformed templates and paths through insert/delete/search/clone/Display/to_string of every error). '
    'Stack exhaustion and allocation failure are outside any executable model.')
PROPS['C15']['level'] = 'proof'
PROPS['C15']['explanation'] = ('Closed theorems for every router the model reaches by any history (Properties/C15.v): C15_reachable_tree_is_canonical - canonical_b holds: the root has no data and at most one '
    'child, a literal starting with \'/\'; below it no node is empty, every leaf is marked, no literal node is a data-less node whose only child is one literal node (maximal compression), literal '
    'siblings start with different bytes, every sibling list is strictly sorted; C15_reachable_tree_is_ordered_and_alive, C15_shape_of_a_wf_tidy_node, C15_reachable_tree_is_compressed. '
    'Proof: compression invariant comp preserved by insert (on the normalised part lists the parser produces: no two literals in a row, leading \'/\'), by delete (prune and merge) and by optimize '
    '(Proofs/CompP.v), root shape preserved (Proofs/CanonP.v), ordering from wf+tidy. "Display lists exactly the live routes": the routes of the tree are exactly the expansions of the live templates '
    '(Abs, Proofs/RegistryP.v; C05_same_live_templates_same_stored_routes). Partial, named: the printer (Display text = Model.display of the tree, kinds in the documented order) is not the subject of a theorem; '
    'it is decided by the Display channel (model printer incl. from_utf8_lossy on the REAL dump = to_string()) and canonical_b / routes_same evaluated on every real dump.')

# a flag / dirty-mark difference between the model's post-state and the real one is a correspondence break
for _k in ('C08', 'C09', 'C10', 'C15', 'C16', 'C19'):
    if 'Flags' not in PROPS[_k]['secondary']:
        PROPS[_k]['secondary'] = PROPS[_k]['secondary'] + ['Flags']
PROPS['C10']['rule'] = ('dump and Display before/after every failing call, and every search after a failing call compared with the same search before it; insert followed by delete of the same '
    'template: dump, Display and every search compared with the state before the insert; non-trivial = failing call')

PROPS['C11']['level'] = 'proof'
PROPS['C11']['explanation'] = ('Closed theorems (Properties/C11.v) against the documented language written over lists (Spec/Grammar.v: wellformed_exp for one expansion - leading \'/\', balanced braces, '
    'the four parameter forms with non-empty names free of : * { } ( ) /, non-empty valid constraints, no touching parameters, no repeated name, backslash makes the next byte literal, a trailing backslash is '
    'literal, everything else verbatim): C11_one_expansion_parsed_as_documented - for EVERY non-empty valid UTF-8 text the cursor-based parser model of one expansion accepts iff wellformed_exp does and '
    'then returns exactly its parts (C11_one_expansion_accepted_iff_wellformed, ..._rejected_iff_illformed); C11_parenthesis_free_template_parsed_as_documented - for every template without \'(\' and \')\' bytes the '
    'whole parser computes template_spec. Proof: index-vs-suffix lemmas for static_part/static_text, brace_scan/brace_content, find_colon/split_colon, the parameter tail, and the loop invariant '
    '(previous-parameter flag = last seen parameter ends at the cursor; seen names agree); valid UTF-8 cut before an ASCII delimiter stays valid, so the parser\'s from_utf8 checks never fire. '
    'Partial, named: that expand_optional_groups enumerates expansions_spec (balanced non-empty parentheses, keep/drop choices, order) has no theorem yet; it is decided by the Grammar oracle: '
    'template_spec vs the real parser hook on every string of length <= 5/6 over the 12-symbol syntax alphabet and on random well/ill-formed templates (incl. semantic fault injection), plus the model parser '
    'vs the real one (Parse). invalid_chars_documented is re-proved on the constant regenerated from src/parser.rs every run.')

PROPS['C11']['explanation'] = ('Closed theorems (Properties/C11.v) against the documented language written over lists (Spec/Grammar.v: gparse / expand_items for the optional groups, wellformed_exp for one '
    'expansion - leading \'/\', balanced braces, the four parameter forms with non-empty names free of : * { } ( ) /, non-empty valid constraints, no touching parameters, no repeated name, backslash '
    'makes the next byte literal, a trailing backslash is literal, everything else verbatim): C11_parser_is_the_documented_language - for EVERY valid UTF-8 string t, to_opt (parse t) = template_spec t: '
    'the parser model accepts exactly the documented language and returns exactly the documented expansions, in order, with the documented decoded parts (C11_accepted_iff_documented, '
    'C11_rejected_iff_not_documented; per expansion: C11_one_expansion_parsed_as_documented). Proof: (1) the index-based group scanner equals a list-level scanner (scan_is_scanL); (2) the list scanner '
    'equals the recursive-descent grammar (matching parenthesis by depth counting = first unmatched \')\' of gparse: depth_after, G_balanced, G_unclosed; product algebra of expand_items) - expandL_spec; '
    '(3) per expansion, index-vs-suffix lemmas and the loop invariant (parse_template_spec); valid UTF-8 cut at ASCII delimiters stays valid (utf8_cut, utf8_app), so from_utf8 checks never fire. '
    'Tie to the code: the model parser vs the real parser hook (Parse: every string of length <= 5/6 over the 12-symbol syntax alphabet, random templates with semantic fault injection), and '
    'template_spec vs the real hook directly (Grammar). invalid_chars_documented is re-proved on the constant regenerated from src/parser.rs every run.')
PROPS['C04']['level'] = 'proof'
PROPS['C04']['explanation'] = ('Closed theorems (Properties/C04.v): C04_expansions_as_documented / C04_parser_returns_the_documented_expansions - for every valid UTF-8 template the parser model returns '
    'exactly the documented expansions (every keep/drop choice of every group, an inner group kept only with its parent, a completely empty result replaced by "/"), in the documented order, each decoded '
    'as documented (expand = expansions_spec, Proofs/ExpandSpecP.v); C04_insert_stores_exactly_the_expansions - for every history, a successful insert stores, for each distinct expansion route, exactly the '
    'info tinfo t d es r0 and changes nothing else; C04_stored_info_reports_template_and_expansion - that info carries the original template, the data and the text of one expansion with that route. '
    'With C03 (search = documented walk over the stored routes, for every history) a grouped template routes exactly as the set of its expansions. Partial, named: the side-by-side statement '
    '"router holding the grouped template == router holding the expansions inserted one by one, up to the reported template/expansion fields" is not a single theorem (it needs expand(e) = [e] for every '
    'expansion text e); it is decided by the groups scenario: W on the registry built from the spec expansions for both routers, hook output vs expansions_spec incl. order.')

PROPS['C14']['level'] = 'proof'
PROPS['C14']['explanation'] = ('Closed theorems (Properties/C14.v). Rendering half: C14_render_caret_line over the format strings regenerated from src/errors/template.rs every run (the message shows the reported '
    'template followed by a caret line of exactly `position` spaces and `length` carets). Fault-present half, for EVERY input and every error the parser model returns (C14_error_names_a_present_fault): '
    'group errors report the input itself and point at "()" (EmptyParentheses) or at a parenthesis (UnbalancedParenthesis) - nested scans run on balanced ranges and can only report an empty pair '
    '(depth_after invariant); every other error reports one of the DOCUMENTED expansions of the input (expand = expansions_spec) and, inside it, "{}" (EmptyBraces), a brace (UnbalancedBrace), the '
    'brace-delimited parameter from \'{\' to its matching \'}\' (Empty/Invalid Parameter, EmptyWildcard, Empty/Invalid Constraint), two disjoint brace-delimited parameters in order (DuplicateParameter), two '
    'adjacent brace-delimited parameters (TouchingParameters), or a text not starting with \'/\' (MissingLeadingSlash); all positions and lengths lie inside the reported text. '
    'THE CAUSE (C14_error_states_the_actual_cause, C14_full, C14_complete; Proofs/ErrP.v cause_at / dup_ok, Proofs/UnmatchedP.v): between the reported braces the text really has the stated defect - split at the first \':\' '
    'into name and constraint: the name is empty (EmptyParameter), is "*" alone (EmptyWildcard), holds one of : * { } ( ) / after the optional leading star and IS the reported name (InvalidParameter), the constraint is '
    'empty (EmptyConstraint) or holds an invalid character and IS the reported one (InvalidConstraint); for DuplicateParameter both reported spans carry exactly the reported name; an UnbalancedParenthesis error '
    'points at an UNMATCHED parenthesis: everything before it is balanced (nest, escape pairs skipped) and it is a \')\' with nothing open or a \'(\' whose group never closes (split_close = None); an UnbalancedBrace error '
    'likewise (bnest; brace_content = None). Properties/Witnesses.v shows a concrete template for each of the thirteen error kinds, so no case of the theorem is vacuous. '
    'Tie to the code: the model parser vs the real one on every error (Parse: exhaustive length <= 5/6 over the 12-symbol alphabet, random malformed templates), the oracle err_ok_b, and the rendered text (RenderParse/RenderField).')
PROPS['C17']['level'] = 'proof'
PROPS['C17']['explanation'] = ('Closed theorems (Properties/C17.v) about the model routers built from the route table REGENERATED from examples/oci/src every run (Gen/Oci.v), one per HTTP method, with the name '
    'constraint decided by the repository-name grammar name_ok: they are routers reached by a history of inserts (C17_model_routers_are_histories), every insert of the table succeeds '
    '(C17_every_table_insert_succeeds, by computation on the regenerated table), the stored routes are exactly the expansions of the table\'s templates incl. the trailing-slash group '
    '(C17_stored_routes_are_the_table_expansions); hence, for EVERY URL (no length bound): a routed URL is a genuine reading - a template of the table for that method laid over the URL, the name accepted '
    'by the grammar, parameters verbatim (C17_routed_url_is_a_genuine_reading, instance of C01) - and a URL that has such a reading is routed (C17_url_with_a_reading_is_routed, instance of C02), so URLs '
    'whose name violates the grammar are not routed. Partial, named: that the method -> handler table equals end-1..end-10 of the distribution specification (oracle spec_handler on every generated method x URL; '
    'KNOWN FINDING K1: end-5 PATCH has no route), which reading wins when a URL has several (oracle: one of the readings; C03 gives the rule), and that the `regex` crate decides name_ok (OciName: the compiled '
    'regex vs name_ok on every string of length <= 6 over a 0 . _ - / A).')

UNIQUE = (' UNIQUENESS OF THE CANONICAL TREE (Proofs/UniqueP.v canonical_unique, closed): two trees that are well-formed, tidy and compressed and store the same (route, info) pairs are equal up to the '
          'shortcut flags and dirty marks (erase n1 = erase n2), and Display - which does not look at them (debug_erase) - prints them identically. Proof: sibling lists are strictly sorted, so it suffices that the key '
          'sets agree and matching children store the same routes; parameter keys are read off the first atom of the stored routes (and the tail tells a catch-all from a mid-route wildcard); for literal '
          'children, if the two trees reached the same routes through keys of different length, the child with the shorter key would have no data, no parameter child and exactly one literal child, i.e. be '
          'compressible, which the compression invariant excludes.')
PROPS['C05']['explanation'] += (' THE PRINTING HALF, closed: C05_same_live_templates_print_identical_trees - two histories that leave the same set of live (template, data) pairs print the same tree and hold '
    'the same tree up to flags and dirty marks.' + UNIQUE)
_c10 = PROPS['C10']['explanation']
_cut = _c10.find(' Partial, named: "restores the previous printed tree"')
PROPS['C10']['explanation'] = (_c10[:_cut] if _cut >= 0 else _c10) + (' C10_insert_then_delete_restores_the_printed_tree: the printed tree (model of Display) and the tree itself up to flags and dirty marks are restored.' + UNIQUE + ' Display/dump equality before and after on the REAL router is compared by the Noop and Roundtrip channels every run.')
PROPS['C15']['explanation'] += (' C15_canonical_tree_is_unique: the canonical tree of a route set is unique.' + UNIQUE)

# C13(d) is a statement about the walk with constraints: judge it with all walk channels
PROPS['C13']['primary'] = PROPS['C13']['primary'] + [k for k in ('WalkGenuine', 'WalkPriority') if k not in PROPS['C13']['primary']]
PROPS['C13']['secondary'] = PROPS['C13']['secondary'] + [k for k in WALK_SECONDARY if k not in PROPS['C13']['secondary']]

_c04 = PROPS['C04']['explanation']
_cut = _c04.find(' Partial, named: the side-by-side statement')
PROPS['C04']['explanation'] = (_c04[:_cut] if _cut >= 0 else _c04) + (' SIDE BY SIDE (closed, every history): C04_expansion_texts_are_group_free_templates - each expansion text of an accepted template '
    'parses to exactly itself (the scanner\'s outputs consist of ordinary bytes and escape pairs only: Proofs/FlatP.v); C04_grouped_template_equals_its_expansions - for a template with optional groups whose '
    'expansions have pairwise different part sequences, the router holding it and the router into which its expansion texts were inserted one by one with the same data return, for every path and '
    'constraint predicate, the same match up to relabel: the grouped router reports (template, Some expansion text), the other (expansion text, None), with equal parameters, depth, length, data '
    '(walk_mapf: the walk only reads the two ranking fields of an info; W_perm; one_by_one_spec). The groups scenario compares the two real routers on the same paths through the oracle W.')

PROPS['C16']['level'] = 'proof'
PROPS['C16']['secondary'] = PROPS['C16']['secondary'] + ['Arcs']
PROPS['C16']['rule'] += ('; after every new/insert/delete/clone the Arc address and strong count of every shared node of every router of the family (verif hook) '
    'is compared, up to the names of the Arcs, with the model step (Model/Arcs.v astep) applied to the previous real view, own_b is evaluated on it, and a delete that reached the removal loop must hand the data back iff the model says so (Arcs)')
PROPS['C16']['explanation'] = ('Closed theorems in two layers (Properties/C16.v). VALUE LAYER (Proofs/FamilyP.v): for every family history of insert/delete/constraint/clone/new over any number of routers, '
    'every router of the family IS the router its own history builds (C16_family_member_is_its_own_history: the history of a slot is what was applied to it and, before its clone, to its ancestors); a clone equals its '
    'original at the moment of cloning; a call on one router leaves every other unchanged; with C05: a family member answers every search, prints, and reacts to the next call exactly like a router built '
    'independently with the same live templates (C16_family_member_behaves_as_independently_built, C16_next_call_behaves_as_on_the_independent_router). SHARING LAYER (Model/Arcs.v, Proofs/ArcsP.v) - the part values '
    'cannot show: a view lists for every stored node holding NodeData::Shared its router, template, Arc and strong count; insert (one Arc, k holders), delete (holders dropped/unwrapped in order, try_unwrap succeeds '
    'at count 1), clone (NodeData::clone: a fresh Arc per copied node; the replaced router is dropped) and drop are steps on it. Proved for EVERY history: every Arc is held by nodes of one template in one router '
    'and its count is the number of holders (C16_every_arc_has_one_owner, by induction over the steps); hence delete always gets the data back (C16_delete_hands_the_data_back) and a step leaves the views of all '
    'other routers unchanged, counts included (C16_step_leaves_other_routers_views_unchanged). C16_shared_clone_refuted: with the derived Clone of the pinned commit (same Arcs in both routers) the invariant and the '
    'delete result fail on "/a(/b)" - the defect repaired by 93e6281. Tie to the code: value layer by the one-step correspondence on every router of clone families (DumpOf, Tree, Ops*, Spec*, Walk*); sharing layer '
    'by the arcs lines: Arc::as_ptr / Arc::strong_count of every shared node read through the hook after every mutating call and compared with the model step on the previous REAL view (Arcs). '
    'Partial, named: the view abstracts the tree (which node holds which Arc is taken from the dump, not re-derived), and memory reclamation itself (Arc drop, allocator) is std code outside the model.')

PROPS['C13']['explanation'] = PROPS['C13']['explanation'].replace('(b) unknown constraint: Registry.insert_spec judged on every real insert.',
    '(a) for every history (Proofs/ConstraintsP.v): C13_registration_outcome (refused with the type in force, router unchanged, or the pair appended), C13_original_stays_in_force / C13_check_function_stays - what is in force '
    'under a name, and hence the check function every later search uses for it, never changes again whatever is called afterwards. (b) C13_unknown_constraint_refused: a parsable template is refused with UnknownConstraint, the router '
    'unchanged, iff one of its parts names an unregistered constraint (C13_unknown_constraint_is_named_and_unregistered); also judged by Registry.insert_spec on every real insert. (d) for every history with the registered check functions: '
    'C13_reachable_rejection_skips_one_alternative.')

PROPS['C15']['primary'] = PROPS['C15']['primary'] + ['SplitChar']
PROPS['C15']['rule'] += ('; SplitChar: on every real dump, the label paths Display prints for the marked nodes (each literal key decoded on its own, as the real Display does - tied by the Display channel) compared with the stored bytes')
PROPS['C15']['explanation'] += (' DISPLAY LISTS EXACTLY THE LIVE ROUTES (Proofs/SpellP.v, closed, every history): C15_labels_spell_exactly_the_stored_routes - concatenating the labels (literal keys as stored bytes, '
    'parameter keys in braces as printed) from the root to every node with data yields exactly the renderings of the stored routes, each route once (routes_nodup), in Display order; '
    'C15_stored_routes_are_the_live_expansions - those are exactly the expansions of the live templates; C15_rendering_of_an_expansion - literal parts verbatim (unescaped by the parser), parameters in braces. '
    'C15_printed_labels_spell_the_routes_partial: the labels as PRINTED (each literal key decoded on its own by from_utf8_lossy) spell the same provided every literal key is valid UTF-8 on its own. '
    'C15_printed_labels_refuted (witness by vm_compute, replayed on the crate): insert "/\u00e9", insert "/\u00ea" - the two literal siblings part inside the two-byte character and Display prints "/\ufffd" with children "\ufffd", "\ufffd"; '
    'the printed labels do not spell the live routes. KNOWN FINDING K2 (known-findings.txt): not repaired - node keys are split at byte granularity by design (radix tree over bytes; the other clause of this very property, '
    '"literal siblings begin with different bytes", depends on it) and Display renders each node separately; a repair would have to change what the tree prints for every such node. The check reports every other '
    'difference between printed and stored label paths through Display/Tree/Routes as before.')

PROPS['C07']['explanation'] += (' C07_duplicate_carets_in_range (closed, every input): the only slicing in the error renderers - the two replace_range calls that draw the carets of a DuplicateParameter error on a line of '
    'template.len() ASCII spaces - is in range and in order for every such error the parser returns.')
PROPS['C17']['explanation'] = PROPS['C17']['explanation'].replace('Partial, named: that the method -> handler table equals end-1..end-10 of the distribution specification (oracle spec_handler on every generated method x URL; ',
    'THE TABLE AGAINST THE SPECIFICATION (Proofs/OciTableP.v, closed computations over the table regenerated every run): C17_table_within_the_specification - every route the example registers is the template of a specified '
    '(method, URL shape) of end-1..end-10 with the specified handler; C17_specification_within_the_table_except_end5 - every specified (method, shape) has its route and handler in the table except end-5; '
    'C17_one_route_per_method_and_template. Partial, named: that the template written for each URL shape (shape_template) reads URLs as the specification\'s URL decomposition does (oracle: spec_handler over readings on every generated method x URL; ')

PROPS['C17']['explanation'] = PROPS['C17']['explanation'].replace('Partial, named: that the template written for each URL shape (shape_template) reads URLs as the specification\'s URL decomposition does (oracle: spec_handler over readings on every generated method x URL; ',
    'WHICH URLS ARE ROUTED (Proofs/OciSemP.v, closed, every URL and every HTTP method): C17_routed_iff_specified - the model router of method m routes a URL iff end-1..end-10 define an endpoint of m whose URL has that shape, '
    'written declaratively (url_shape: "/v2", or "/v2/" name "/blobs/" digest, "/manifests/" reference, "/blobs/uploads", "/blobs/uploads/" reference, "/tags/list", each with at most one trailing "/", name accepted by the name grammar, '
    'last token non-empty without "/") - end-5 only if the example registers it; C17_routed_url_reaches_the_specified_handler - the match carries the handler the specification names for that endpoint and the name / last token verbatim as parameters. '
    'Proof: fits read left to right over the six templates (fits_shape), the stored routes are the expansions of the table slice of the method, the table is within the specification. Partial, named: that the executable oracle '
    '`readings` (used to judge the REAL example on generated URLs) decomposes URLs exactly as url_shape does is not a theorem (two independent writings of the same specification; ')

PROPS['C17']['explanation'] = PROPS['C17']['explanation'].replace('Partial, named: that the executable oracle `readings` (used to judge the REAL example on generated URLs) decomposes URLs exactly as url_shape does is not a theorem (two independent writings of the same specification; ',
    'C17_oracle_reads_urls_as_specified (Proofs/OciReadP.v, closed): the executable URL decomposition `readings` with which check_oci judges the REAL example finds, for every valid UTF-8 URL, exactly the declarative shapes url_shape '
    '(split/join at "/", the optional trailing "/", keyword tails, name grammar => ASCII => valid UTF-8, tokens cut at ASCII delimiters stay valid) - so the oracle and the theorem about the model routers speak of the same specification. Partial, named: (')

# the index-level search model (Model/SearchC.v) on the real tree is a correspondence channel wherever the functional one is
for _k, _v in PROPS.items():
    for _lst in ('primary', 'secondary'):
        if 'OpsSearch' in _v[_lst] and 'IndexSearch' not in _v['primary'] + _v['secondary']:
            _v['secondary'] = _v['secondary'] + ['IndexSearch']
if 'IndexSearch' not in PROPS['C07']['secondary']:
    PROPS['C07']['secondary'] = PROPS['C07']['secondary'] + ['IndexSearch']
PROPS['C07']['explanation'] += (' THE SEARCH AT INDEX LEVEL (Model/SearchC.v, Proofs/SearchCP.v, closed): the search is modelled a second time in checked style - every `path[consumed]`, `&path[..consumed]`, '
    '`&path[consumed..]`, `&path[prefix.len()..]`, the `position`-based segment end and the `constraints.get(name).unwrap()` are explicit operations that can return Panic, the six grow-the-capture loops run on fuel - '
    'and C07_index_level_search_is_the_search proves that on every tree whose constraint names are registered and whose catch-all children carry data it returns exactly the answer of the functional search '
    '(grow_spec: the cursor loop = the fold of pick over the candidate enumeration, for the inline, the boundary-filtered and the stop-at-slash variants; dyn_segment_spec; the catch-all and literal cases); '
    'C07_search_never_panics: hence for every history and every path no index, slice or unwrap is out of range and the fuel suffices. Tie: the checker evaluates this model too on every real tree and query (IndexSearch). '
    'INSERT, FIND AND DELETE AT INDEX LEVEL (Model/OpsC.v, Proofs/OpsCP.v, closed): the three tree operations and the loops of Router::insert / Router::delete around them are modelled a second time in checked style - '
    '`child.state.prefix[0]`, `prefix[0]`, `prefix[common_prefix..]`, `child.state.prefix[common_prefix..]`, `[..common_prefix]`, `static_children[1]`, `children[index]`, `children.remove(index)`, `static_children.remove(0)`, '
    '`&prefix[child.state.prefix.len()..]` are explicit operations that can return Panic, the recursion runs on fuel and exhaustion is the outcome Fuel. C07_index_level_insert_is_the_insert / _find_ / _delete_: on every tree whose literal '
    'children have non-empty prefixes (PNE; C07_wellformed_trees_have_nonempty_prefixes: every wf tree) and every well-formed part list they return exactly what the functional operations compute; C07_index_level_router_insert / _delete: '
    'for every history and every template string the router-level calls over the checked parser and the checked operations are the functional ones, so (C07_insert_delete_never_panic_at_index_level) never Panic and never Fuel. '
    'Tie: the checker evaluates these too from every real pre-state of an insert or delete and compares result, tree and flags with the crate (IndexOps). '
    'THE PRINTER AND Router::new: C07_display_never_panics (Model/DisplayC.v, Proofs/DisplayCP.v, closed) - the tree printer with its one piece of arithmetic, the counter of children still to print (`count -= 1` before each child of the seven lists), '
    'as an explicit subtraction that can return Panic equals the functional printer on EVERY tree (no precondition); C07_router_new_unwraps_succeed - the `constraint::<T>().unwrap()` calls of Router::new, replayed on the model in the order and with the names '
    'regenerated from src/router.rs and src/constraints.rs on this run, all return Ok. THE INVENTORY (Gen/Sites.v REGENERATED from /repo on this run, Proofs/SitesP.v): C07_every_panic_capable_site_is_accounted_for - every expression of the sources that can panic by itself (index, slice, unwrap/expect, remove/swap_remove/split_at/replace_range/drain, subtraction, division, narrowing cast, panicking macro; 101 of them) equals, in order, a hand-written table naming the checked-model operation or theorem that shows it in range; a new or changed expression breaks this obligation. Remaining partial: the derived Debug impls and the `{:?}`/`{}` formatting machinery of std are outside the model (exercised under catch_unwind only); stack exhaustion and allocation failure are not modelled.')
for _k, _v in PROPS.items():
    for _lst in ('primary', 'secondary'):
        if ('OpsInsert' in _v[_lst] or 'OpsDelete' in _v[_lst]) and 'IndexOps' not in _v['primary'] + _v['secondary']:
            _v['secondary'] = _v['secondary'] + ['IndexOps']
if 'IndexOps' not in PROPS['C07']['secondary']:
    PROPS['C07']['secondary'] = PROPS['C07']['secondary'] + ['IndexOps']
PROPS['C17']['explanation'] = PROPS['C17']['explanation'].replace(', and that the `regex` crate decides name_ok (OciName: the compiled regex vs name_ok on every string of length <= 6 over a 0 . _ - / A).',
    '. THE NAME PATTERN (Spec/Regex.v, Proofs/OciRegexP.v, closed): C17_name_pattern_is_the_name_grammar - the regular expression text REGENERATED from examples/oci/src/constraints/name.rs, parsed by a small regex parser '
    'written in Coq and read with the standard denotation of regular expressions, denotes exactly name_ok, for every byte string (regex -> state machine by running the machine over alnum runs and separators; '
    'state machine -> regex by an invariant per machine state). What remains trusted there: that the `regex` crate implements that standard denotation (OciName: the compiled regex vs name_ok on every string of length <= 6 over a 0 . _ - / A).')

# a panic of the parser on a template is neither acceptance nor rejection: a violation of the grammar properties too
for _k in ('C04', 'C11'):
    if 'Panic' not in PROPS[_k]['primary']:
        PROPS[_k]['primary'] = PROPS[_k]['primary'] + ['Panic']

# very long paths (length limits / truncation in Router::search): a handful of cheap cases
for _k in ('C01', 'C02', 'C07'):
    if not any(sc[0] == 'longpath' for sc in PROPS[_k]['scenarios']):
        PROPS[_k]['scenarios'] = PROPS[_k]['scenarios'] + [('longpath', 2, 16)]

# C17 end to end: the example's own server (start_server -> AppRouter::handle) on a loopback socket
PROPS['C17']['scenarios'] = PROPS['C17']['scenarios'] + [('ocie2e', 640, 6400)]
PROPS['C17']['primary'] = PROPS['C17']['primary'] + ['OciE2E']
PROPS['C17']['rule'] += ('; ocie2e: the same method x URL stream sent as HTTP requests to the example server started in-process on a loopback socket; a bare 404/405 (no content type) is the router\'s "no route"; '
    'compared with the model routers of the regenerated table (OciE2E). If no loopback socket can be opened the channel reports nothing')
PROPS['C17']['explanation'] += (' END TO END: besides the route table (regenerated, and executed by the harness on wayfind routers built from it), the example\'s own server is run: harness-oci links the example crate, '
    'starts start_server on 127.0.0.1:0 and sends one HTTP/1.1 request per generated (method, URL); whether AppRouter::handle reached a handler must agree with the model routers (OciE2E) - this is what sees a change in the '
    'request dispatch of examples/oci/src/router.rs (seeded change C17-e).')

NOT_APPLICABLE = {}

# regenerated walks of the seven child lists (Gen/Shapes.v, Proofs/ShapesP.v)
PROPS['C05']['explanation'] += (' REGENERATED from src/node/optimize.rs on this run (Gen/Shapes.v): C05_optimize_covers_every_list - Node::optimize returns early exactly on a clean node, recurses into all seven child lists, sorts all seven, refreshes both shortcut flags and clears the dirty mark, as Model/Ops.v optimize does.')
PROPS['C09']['explanation'] += (' REGENERATED from src/node/delete.rs on this run (Gen/Shapes.v): C09_prune_and_merge_tests_cover_every_list - is_empty and is_compressible test the data and all seven child lists, as Model/Ops.v is_empty / is_compressible do.')
PROPS['C15']['explanation'] += (' REGENERATED from src/node/display.rs on this run (Gen/Shapes.v): C15_printer_walks_the_seven_lists_in_kind_order - debug_node walks the seven child lists in the order of kinds of the model printer, every child through `count -= 1; debug_node(.., count == 0)?`, `count` starting as the sum of the seven lengths.')
PROPS['C15']['explanation'] += (' REGENERATED from src/state.rs (Gen/Keys.v): C15_stored_key_is_the_printed_label - the format string of the printable key each parameter state stores, interpreted over EVERY name and constraint, is the label node_label of the model printer; C15_literal_key_is_lossy_text_and_paddings - a literal node stores String::from_utf8_lossy(&prefix).')
PROPS['C03']['explanation'] += (' REGENERATED from src/state.rs (Gen/Keys.v): C03_sibling_order_is_name_then_constraint - the eight Ord impls compare the name (literal nodes: the prefix), constrained states then the constraint, every PartialOrd delegates; the model order kcmp is that comparison.')
PROPS['C10']['explanation'] += (' REGENERATED from src/router.rs (Gen/Shapes.v): C10_validation_precedes_mutation - in Router::insert and Router::delete every validation step returns before the first mutating call, conflicts are sorted then deduplicated, optimize follows the mutation loop, and a delete that removed nothing reports NotFound before optimize: the order of Model/Router.v.')
PROPS['C08']['explanation'] += (' REGENERATED from src/router.rs (Gen/Shapes.v): C08_conflicts_collected_sorted_then_deduplicated.')
PROPS['C05']['explanation'] += (' REGENERATED from src/node/optimize.rs (Gen/Shortcuts.v): C05_regenerated_shortcut_flags_are_the_model_conditions - update_dynamic_children_shortcut / update_wildcard_children_shortcut, translated into a small condition language, compiled and read over the model nodes, equal dyn_cond / wild_cond of Model/Ops.v on EVERY node (translation plus theorem, not sampling).')
PROPS['C09']['explanation'] += (' C09_regenerated_prune_tests_are_the_model_tests - the regenerated conjuncts of is_empty / is_compressible, compiled and read over the model nodes, equal the model tests on every node.')
PROPS['C03']['explanation'] += (' REGENERATED from src/node/search.rs (Gen/Rankings.v): C03_regenerated_ranking_is_the_documented_priority - the closure of each of the six best_match.map_or(..) sites, read over the model route infos, is `better` of the documented walk for every pair of infos; no other use of best_match.')
_loops = (' REGENERATED from src/node/search.rs (Gen/Loops.v): %s_search_loops_have_the_model_shapes - each of the eight parameter searches has exactly the statements, in the order, of one loop shape of Model/SearchC.v (grow in its three modes, dyn_segment), over the child list of its kind, the constraint check exactly in the constrained ones, no further continue / break / return.')
for _k in ('C01', 'C02', 'C12'):
    PROPS[_k]['explanation'] += _loops % _k
PROPS['C02']['explanation'] += (' REGENERATED from src/node/{search,delete,insert,find}.rs (Gen/Prefixes.v): C02_regenerated_prefix_tests_are_the_model_predicates - the tests on literal prefixes, read with the meaning of the Rust iterator expressions over byte lists, are starts_with (and the continuing slice is the rest it returns), same_first and lcp of the model, for all byte strings.')
PROPS['C14']['explanation'] += (' REGENERATED from src/parser.rs (Gen/ParserErrors.v): C14_parser_error_sites_are_the_models - the seventeen TemplateError construction sites function by function, all thirteen variants, no other.')
PROPS['C08']['explanation'] += (' REGENERATED from src/node/{insert,find,delete}.rs (Gen/KindOps.v): C08_per_kind_functions_use_their_own_list_and_key_equality - each of the 18 per-kind functions touches only the child list of its kind and recognises a child by name (and constraint where the kind has one); over the model keys that test is keqb.')
