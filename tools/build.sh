#!/bin/bash
# Rebuild everything the checks need from /repo's current working tree:
#   1. regenerate coq/Gen/*.v from the Rust sources
#   2. build the Coq development (full .vo build) -- this also re-extracts ocaml/wf_model.ml
#   3. build the OCaml checker driver
#   4. build the Rust harness against /repo with the `verif` feature
# Usage: tools/build.sh [make-target ...]      (default target: all)
set -e
cd "$(dirname "$0")/.."
V=$(pwd)
exec 9>"$V/.build.lock"; flock 9
export CARGO_NET_OFFLINE=true
python3 tools/gen_formats.py /repo coq/Gen
[ -f tools/gen_tables.py ] && python3 tools/gen_tables.py /repo coq/Gen
cd coq
if [ ! -f Makefile ] || [ _CoqProject -nt Makefile ]; then coq_makefile -f _CoqProject -o Makefile >/dev/null; fi
timeout 1500 make -j16 "${@:-all}" 2>&1 | grep -v '^COQDEP\|^COQC\|^make\[' || true
test "${PIPESTATUS[0]}" = 0
cd ../ocaml
if [ ! -x wfcheck ] || [ wf_model.ml -nt wfcheck ] || [ driver.ml -nt wfcheck ]; then
  ocamlfind ocamlopt -O3 -w -a wf_model.mli wf_model.ml driver.ml -o wfcheck 2>&1 | grep -v "options -O3 is only" || true
fi
cd ../harness
cp /repo/Cargo.lock Cargo.lock 2>/dev/null || true
cargo build --offline 2>&1 | grep -E "^(warning: unused|error)|could not compile" || true
test -x target/debug/wfh
