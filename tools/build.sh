#!/bin/bash
# Rebuild what the checks need from /repo's current working tree:
#   1. regenerate coq/Gen/*.v from the Rust sources (translators tools/gen_formats.py, tools/gen_tables.py)
#   2. build the Coq targets given as arguments (default: all) -- full .vo build; Extract/Extract.vo
#      re-extracts ocaml/wf_model.ml
#   3. build the OCaml checker driver when the extracted code changed
#   4. build the Rust harness against /repo with the `verif` feature
# Exit status: non-zero if the Coq targets or the harness failed to build (later steps still run,
# so that a search for a failing input remains possible with the last good checker).
cd "$(dirname "$0")/.."
V=$(pwd)
mkdir -p "$V/build"
exec 9>"$V/build/.lock"; flock 9
export CARGO_NET_OFFLINE=true
python3 tools/gen_formats.py /repo coq/Gen || exit 3
python3 tools/gen_tables.py /repo coq/Gen || exit 3
cd coq
if [ ! -f Makefile ] || [ _CoqProject -nt Makefile ]; then coq_makefile -f _CoqProject -o Makefile >/dev/null; fi
timeout 1500 make -j16 "${@:-all}" > ../build/coq-build.log 2>&1
rc1=$?
if [ $rc1 != 0 ]; then grep -B2 -A12 '^Error\|Error:' ../build/coq-build.log | head -60; fi
cd ../ocaml
if [ -f wf_model.ml ] && { [ ! -x wfcheck ] || [ wf_model.ml -nt wfcheck ] || [ driver.ml -nt wfcheck ]; }; then
  ocamlfind ocamlopt -O3 -w -a wf_model.mli wf_model.ml driver.ml -o wfcheck.new 2>&1 | grep -v "options -O3 is only" ; [ -x wfcheck.new ] && mv wfcheck.new wfcheck
fi
cd ../harness
cp /repo/Cargo.lock Cargo.lock 2>/dev/null
cargo build --offline > ../build/cargo-build.log 2>&1
rc2=$?
if [ $rc2 != 0 ]; then grep -A12 '^error' ../build/cargo-build.log | head -40; fi
# the OCI example's own server (C17 end to end)
cd ../harness-oci
cp /repo/Cargo.lock Cargo.lock 2>/dev/null
cargo build --offline > ../build/cargo-build-oci.log 2>&1
rc3=$?
if [ $rc3 != 0 ]; then grep -A12 '^error' ../build/cargo-build-oci.log | head -40; rm -f target/debug/wfh-oci; fi    # never run a stale server
[ $rc1 = 0 ] && [ $rc2 = 0 ]
