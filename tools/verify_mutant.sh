#!/bin/bash
# Independent confirmation of a candidate seeded change: usage verify_mutant.sh <deliverable-dir> <scratch-worktree>
# The scratch worktree must be a clean checkout of /repo's HEAD (outside /repo and /verif).
# Confirms: patch applies; suite passes with it; demo fails with it and passes without it.
D=$1; W=$2
set -u
# the deliverables may live inside the worktree: copy them out before cleaning it
T=$(mktemp -d /tmp/verify-mutant.XXXXXX); cp -r "$D"/. "$T"/; D=$T
cd "$W" || exit 2
git checkout -q -- . && git clean -fdq -e target >/dev/null 2>&1
git apply --check "$D/patch.diff" || { echo "RESULT: patch does not apply"; exit 1; }
git apply "$D/patch.diff"
if CARGO_NET_OFFLINE=true cargo test --workspace --no-fail-fast --offline >"$W/suite.log" 2>&1; then suite=pass; else suite=FAIL; fi
cp "$D/demo.rs" tests/zz_demo.rs
if CARGO_NET_OFFLINE=true cargo test --offline --test zz_demo >"$W/demo_with.log" 2>&1; then with=pass; else with=fail; fi
git apply -R "$D/patch.diff"
if CARGO_NET_OFFLINE=true cargo test --offline --test zz_demo >"$W/demo_without.log" 2>&1; then without=pass; else without=fail; fi
rm -f tests/zz_demo.rs
echo "RESULT: suite_with_patch=$suite demo_with_patch=$with demo_without_patch=$without"
[ "$suite" = pass ] && [ "$with" = fail ] && [ "$without" = pass ]
