#!/bin/bash
# Apply each seeded change to /repo, run the check of the property it breaks (and any extra ids given
# via EXTRA="C03 C05"), undo.  Usage: tools/run_seeded.sh [seeded-dir-name ...]
cd "$(dirname "$0")/.."
names=${@:-$(ls seeded)}
for n in $names; do
  pid=${n%%-*}
  git -C /repo apply "$PWD/seeded/$n/patch.diff" || { echo "$n: patch does not apply"; continue; }
  res=""
  for p in $pid $EXTRA; do
    out=$(./check $p --tier ${TIER:-quick} 2>&1)
    v=$(echo "$out" | grep -c '^VIOLATION')
    kinds=$(python3 -c "import json;e=json.load(open('evidence/$p.json'));print(','.join(sorted({f.get('kind','?') for f in e['coverage'].get('findings',[])}))+('|broken:'+str(len(e['coverage'].get('broken_obligations',[]))) if e['coverage'].get('broken_obligations') else ''))" 2>/dev/null)
    res="$res $p:$([ $v -gt 0 ] && echo CAUGHT || echo missed)$(echo "$out" | grep '^VIOLATION' | grep -q no-failing && echo '(nfi)')[$kinds]"
  done
  git -C /repo checkout -- .
  echo "$n ->$res"
done
# rebuild against the clean tree
tools/build.sh >/dev/null 2>&1
# the evidence files written while a seeded change was applied describe that tree, not the real one
git -C "$PWD" checkout -- evidence 2>/dev/null
