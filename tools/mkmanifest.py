#!/usr/bin/env python3
"""Writes /verif/MANIFEST.json from tools/props.py (single source of truth for check configuration)."""
import json, os, sys
V = os.path.dirname(os.path.dirname(os.path.abspath(__file__)))
sys.path.insert(0, os.path.join(V, 'tools'))
import props
ids = [json.loads(l)['id'] for l in open(os.path.join(V, 'properties.jsonl'))]
checks = []
for pid in ids:
    if pid not in props.PROPS:
        continue
    P = props.PROPS[pid]
    checks.append(dict(
        property_id=pid,
        quick_cmd='./check %s --tier quick' % pid,
        thorough_cmd='./check %s --tier thorough' % pid,
        evidence_file='evidence/%s.json' % pid,
        replay_cmd_template='./check %s --replay {path}' % pid,
        engine='coq+harness',
        level_claimed=dict(category=P['level'], text=P['explanation'], design_ref=P.get('design_ref', 'DESIGN.md section 8, ' + pid)),
        level_note=P.get('level_note', 'trusted base: see DESIGN.md section 9 and the trusted_base list in the evidence file'),
        technique=P.get('technique', 'Coq theorems over an executable model + extracted-checker correspondence with the real crate'),
    ))
na = [dict(property_id=i, reason=props.NOT_APPLICABLE.get(i, 'check not built yet')) for i in ids if i not in props.PROPS]
m = dict(version=1, setup_cmd='./setup.sh',
         hooks=dict(guard='cargo feature `verif` (src/verif.rs, #[cfg(feature = "verif")] items in src/lib.rs and src/router.rs)',
                    enable='harness/Cargo.toml: wayfind = { path = "/repo", features = ["verif"] }',
                    baseline_off_cmd='cd /repo && cargo test --workspace --no-fail-fast --offline',
                    source_commits=['230fa9c', 'a0b62a4', '941fad0'], add_only=True),
         engines=[dict(name='coq', path='coq/', serves_properties=[c['property_id'] for c in checks], kind_free_text='Coq 8.16 development: model, specification, theorems, checker (extracted to OCaml)'),
                  dict(name='harness', path='harness/', serves_properties=[c['property_id'] for c in checks], kind_free_text='Rust harness executing operation scripts on /repo built with the verif feature'),
                  dict(name='harness-oci', path='harness-oci/', serves_properties=['C17'], kind_free_text='links the OCI example crate, starts its own server on a loopback socket, one HTTP request per script line'),
                  dict(name='gen_formats', path='tools/gen_formats.py', serves_properties=['C14', 'C19'], kind_free_text='translator: Display format strings of the error enums -> coq/Gen/Formats.v, regenerated every run')],
         checks=checks,
         notes='See DESIGN.md. Fix commits in /repo: f5e794d c982dd6 39002fb 0db4818 ba74819 93e6281 ca58e30 (known-findings.txt).',
         not_applicable=na)
json.dump(m, open(os.path.join(V, 'MANIFEST.json'), 'w'), indent=1)
print('MANIFEST.json: %d checks, %d not_applicable' % (len(checks), len(na)))
