#!/usr/bin/env python3
"""Script generator for the correspondence harness (see DESIGN.md section 7).

Every random choice derives from one `random.Random(seed)`; the same (scenario, seed, count)
always yields the same script.  A script is a list of lines understood by `wfh`.

Templates are built as trees so that the generator knows their expansions and can derive paths
that fit them without using any parser:
   item  := ('s', bytes) | ('d', name, constraint|None) | ('w', name, constraint|None) | ('g', [item...])
"""
import random, sys

NAMES = [b'a', b'b', b'id', b'x', b'name']
PLACEHOLDER_NAMES = [b'template', b'conflicts', b'constraint', b'inserted', b'name', b'arrow', b'existing_type', b'new_type']
# names with multi-byte characters; the low byte of some code points is a syntax byte: 用 U+7528 '(' 天 U+5929 ')' 为 U+4E3A ':' 是 U+662F '/' 个 U+4E2A '*' Ž U+017D '}' ŻU+017B '{'
UNAMES = ['用户'.encode(), '天'.encode(), 'Ž'.encode(), 'naïve'.encode(), '个'.encode(), '是'.encode(), '为'.encode(), 'Ż'.encode(), 'ü'.encode()]
CONS = [b'lower', b'even', b'noa', b'u8', 'größe'.encode()]
UNREG = b'zzz'
UNREGS = [b'zzz', b'zzz', 'zählé'.encode(), '数'.encode()]
STATICS = [b'a', b'b', b'ab', b'abc', b'.', b'-', b'm', b'x', b'y', b'.txt', 'é'.encode(), 'è'.encode(),
           '日'.encode(), '月'.encode(), b'\\(', b'\\{', b'\\\\', b'v1', b'a.b', b' ', b'\\}', b'a\\}', b'\\)', b'x\\)']
VALUES = [b'a', b'b', b'ab', b'abc', b'x1', b'12', b'255', b'256', 'é'.encode(), b'a.b', b'a-b', b'm', b'aa',
          b'ba', b'x', b'y', b'.', b'a.txt', 'a日'.encode(), b'zz', b'+7', b'007']
WVALUES = VALUES + [b'a/b', b'a/b/c', b'a/m/b', b'x/y.txt', b'a//b', b'a/', b'/a', 'é/日'.encode(), b'ab/ba']


def hx(b):
    return 'x' + bytes(b).hex()


def unescape(s):
    out = bytearray(); i = 0
    while i < len(s):
        if s[i] == 0x5c and i + 1 < len(s):
            out.append(s[i + 1]); i += 2
        else:
            out.append(s[i]); i += 1
    return bytes(out)


class G:
    def __init__(self, seed):
        self.r = random.Random(seed)

    # ---- templates -------------------------------------------------------------------------
    def param(self, used, allow_wild=True, unreg=0.03):
        r = self.r
        names = [n for n in NAMES if n not in used] or [b'p%d' % len(used)]
        if r.random() < 0.08:
            names = [n for n in UNAMES if n not in used] or names
        elif r.random() < 0.06:
            # names that are also the placeholders of the error message formats
            names = [n for n in PLACEHOLDER_NAMES if n not in used] or names
        n = r.choice(names); used.append(n)
        kind = 'w' if allow_wild and r.random() < 0.3 else 'd'
        c = None
        if r.random() < 0.35:
            c = r.choice(UNREGS) if r.random() < unreg else r.choice(CONS)
        return (kind, n, c)

    def segment(self, used, vocab):
        """one '/'-led segment: list of items without touching parameters"""
        r = self.r
        items = [('s', b'/')]
        k = r.random()
        if k < 0.40:
            items.append(('s', r.choice(vocab)))
        elif k < 0.70:
            items.append(self.param(used))
        elif k < 0.85:
            items.append(self.param(used)); items.append(('s', r.choice([b'.', b'-', b'.txt', b'.', b'm'])))
            if r.random() < 0.5:
                items.append(self.param(used, allow_wild=r.random() < 0.3))
        elif k < 0.95:
            items.append(('s', r.choice(vocab))); items.append(self.param(used))
        else:
            pass  # bare '/'
        return items

    def template_items(self, vocab, depth=0):
        r = self.r
        used = []
        nseg = r.choice([1, 1, 2, 2, 2, 3, 3, 4])
        items = []
        for _ in range(nseg):
            items += self.segment(used, vocab)
        if r.random() < 0.2:
            # end in a catch-all
            if items and items[-1][0] in 'dw':
                items.append(('s', b'/'))
            elif not items or items[-1] != ('s', b'/'):
                items.append(('s', r.choice([b'/', b'/', b'.', b'-'])))
            kind, n, c = self.param(used)
            items.append(('w', n, c))
        # optional groups: wrap a suffix (and maybe nest), or an inner piece
        if r.random() < 0.35:
            items = self.add_groups(items, used, vocab)
        return items

    def add_groups(self, items, used, vocab):
        r = self.r
        # positions where a group may start: at a '/' static item
        starts = [i for i, it in enumerate(items) if it == ('s', b'/')]
        if not starts:
            return items
        i = r.choice(starts)
        head, tail = items[:i], items[i:]
        k = r.random()
        if k < 0.5 or len(tail) < 3:
            g = ('g', tail)
            if r.random() < 0.3:
                # nested: split tail again
                st2 = [j for j, it in enumerate(tail) if it == ('s', b'/') and j > 0]
                if st2:
                    j = r.choice(st2)
                    g = ('g', tail[:j] + [('g', tail[j:])])
            out = head + [g]
        elif k < 0.75:
            # adjacent groups
            j = max(1, len(tail) // 2)
            out = head + [('g', tail[:j]), ('g', tail[j:])] if tail[j][0] == 's' or tail[j - 1][0] == 's' else head + [('g', tail)]
        elif k < 0.9:
            out = head + [('g', tail)] + [('g', [('s', b'/')])]      # optional trailing slash
        else:
            out = head + [('g', [('g', tail)])]                      # nested-only group
        if not head and r.random() < 0.5:
            return out
        return out

    def render(self, items):
        out = bytearray()
        for it in items:
            if it[0] == 's':
                out += it[1]
            elif it[0] == 'g':
                out += b'(' + self.render(it[1]) + b')'
            else:
                out += b'{' + (b'*' if it[0] == 'w' else b'') + it[1] + (b':' + it[2] if it[2] else b'') + b'}'
        return bytes(out)

    def expansions(self, items):
        """list of flat item lists (no groups), implementation order"""
        res = [[]]
        for it in items:
            if it[0] == 'g':
                opts = self.expansions(it[1])
                res = [t + o for t in res for o in opts + [[]]]
                # implementation order: for each prefix: kept variants then dropped
            else:
                res = [t + [it] for t in res]
        return res

    # ---- paths -----------------------------------------------------------------------------
    def value_for(self, kind, c):
        r = self.r
        pool = WVALUES if kind == 'w' and r.random() < 0.6 else VALUES
        for _ in range(6):
            v = r.choice(pool)
            if c is None or r.random() < 0.15:
                return v
            if c == b'lower' and v.isalpha() and v.islower() and v.isascii(): return v
            if c == b'even' and len(v) % 2 == 0: return v
            if c == b'noa' and not v.endswith(b'a'): return v
            if c == b'u8' and v in (b'12', b'255', b'+7', b'007'): return v
            if c == 'größe'.encode() and len(v) % 2 == 1: return v
            if c in UNREGS: return v
        return v

    def instantiate(self, flat):
        out = bytearray()
        for it in flat:
            if it[0] == 's':
                out += unescape(it[1])
            else:
                out += self.value_for(it[0], it[2])
        return bytes(out) if out else b'/'

    def mutate_path(self, p):
        r = self.r
        try:
            s = p.decode()
        except UnicodeDecodeError:
            return p
        k = r.random()
        chars = ['a', '/', '.', 'é', 'b', '-', 'm', 'x', '1']
        if k < 0.3 and s:
            i = r.randrange(len(s)); s = s[:i] + s[i + 1:]
        elif k < 0.6:
            i = r.randrange(len(s) + 1); s = s[:i] + r.choice(chars) + s[i:]
        elif k < 0.75:
            s = s + '/'
        elif k < 0.85:
            s = s.replace('/', '//', 1) if r.random() < 0.5 else s + '//'
        else:
            i = r.randrange(len(s) + 1); s = s[:i] + r.choice(['/a', 'a/', '/m/', '.txt', '/']) + s[i:]
        return s.encode() or b'/'

    def random_path(self):
        r = self.r
        toks = ['a', 'b', '/', '.', '-', 'é', 'm', 'y', 'x', '1', '2', '(', '{', 'ab', '//', '/a', '日', '.txt', ' ']
        return ('/' + ''.join(r.choice(toks) for _ in range(r.randrange(0, 7)))).encode()

    def paths_for(self, templates, n):
        """n paths: mostly instantiations of expansions of the given templates, some mutated, some random"""
        r = self.r
        ps = []
        flats = [f for items in templates for f in self.expansions(items)]
        for _ in range(n):
            k = r.random()
            if flats and k < 0.55:
                ps.append(self.instantiate(r.choice(flats)))
            elif flats and k < 0.85:
                ps.append(self.mutate_path(self.instantiate(r.choice(flats))))
            else:
                ps.append(self.random_path())
        # dedupe, keep order
        seen = set(); out = []
        for p in ps:
            if p not in seen:
                seen.add(p); out.append(p)
        return out

    # ---- sibling / variant mutations of templates ----------------------------------------
    def sibling(self, items):
        """copy of a template with one parameter renamed or its constraint changed (deep)"""
        r = self.r
        flat_idx = []

        def walk(its, path):
            for i, it in enumerate(its):
                if it[0] in 'dw': flat_idx.append(path + [i])
                elif it[0] == 'g': walk(it[1], path + [i])
        walk(items, [])
        if not flat_idx:
            return items
        target = r.choice(flat_idx)

        def rebuild(its, path):
            out = list(its)
            i = path[0]
            if len(path) == 1:
                kind, n, c = out[i]
                k = r.random()
                if k < 0.4:
                    n = r.choice([x for x in NAMES + [b'q', b'z']])
                elif k < 0.8:
                    c = r.choice([None] + CONS) if c is not None or r.random() < 0.7 else c
                else:
                    kind = 'w' if kind == 'd' else 'd'
                out[i] = (kind, n, c)
            else:
                out[i] = ('g', rebuild(out[i][1], path[1:]))
            return out
        return rebuild(items, target)

    def variant_spelling(self, items):
        """a different spelling that shares expansions with the template: escape a static byte,
        drop a group's parentheses (one expansion only), or wrap the last segment in a group"""
        r = self.r
        k = r.random()
        out = list(items)
        if k < 0.35:
            idx = [i for i, it in enumerate(out) if it[0] == 's' and it[1] and it[1][0:1].isalpha()]
            if idx:
                i = r.choice(idx); out[i] = ('s', b'\\' + out[i][1])
                return out
        if k < 0.7:
            idx = [i for i, it in enumerate(out) if it[0] == 'g']
            if idx:
                i = r.choice(idx)
                if r.random() < 0.5:
                    return out[:i] + list(out[i][1]) + out[i + 1:]   # keep the group's content, no parens
                return out[:i] + out[i + 1:]                          # drop the group
        starts = [i for i, it in enumerate(out) if it == ('s', b'/') and i > 0]
        if starts:
            i = r.choice(starts)
            return out[:i] + [('g', out[i:])]
        return out + [('g', [('s', b'/')])]


    def share_prefix(self, items, vocab):
        """keep a top-level prefix of the template (so that parameter nodes are shared) and give it
        a different continuation: inline text, another segment, or nothing"""
        r = self.r
        top = [it for it in items if it[0] != 'g'] if r.random() < 0.5 else list(items)
        cuts = [i + 1 for i, it in enumerate(top) if it[0] in 'dw'] or [len(top)]
        i = r.choice(cuts)
        head = [it for it in top[:i]]
        if any(it[0] == 'g' for it in head):
            head = [it for it in head if it[0] != 'g']
        used = [it[1] for it in head if it[0] in 'dw']
        k = r.random()
        tail = []
        if k < 0.35:
            tail = [('s', r.choice([b'.', b'-', b'.txt', b'.json', b'm', b'.y']))]
            if r.random() < 0.4:
                tail.append(self.param(used, allow_wild=False))
        elif k < 0.75:
            tail = self.segment(used, vocab)
            if r.random() < 0.3:
                tail += self.segment(used, vocab)
        elif k < 0.85:
            tail = [('g', [('s', b'/')])]
        if head and tail and head[-1][0] in 'dw' and tail[0][0] in 'dw':
            tail = [('s', b'-')] + tail
        return head + tail

    def regroup(self, items):
        """re-spell one expansion of the template as a chain of nested optional groups at '/' boundaries"""
        r = self.r
        flat = r.choice(self.expansions(items))
        if not flat:
            return items
        starts = [i for i, it in enumerate(flat) if it == ('s', b'/') and i > 0]
        r.shuffle(starts)
        starts = sorted(starts[:r.choice([1, 2, 2, 3])])
        if not starts:
            return flat
        out = None
        # build from the innermost group outwards
        bounds = starts + [len(flat)]
        for j in range(len(starts) - 1, -1, -1):
            seg = flat[bounds[j]:bounds[j + 1]]
            out = ('g', seg + ([out] if out else []))
        return flat[:starts[0]] + [out]

    def rank_template(self, vocab):
        """a best-match-ranked parameter followed by optional groups whose expansions differ in the
        number of '/' and in text length (depth is ranked before length)"""
        r = self.r
        used = []
        head = [('s', b'/')] + ([('s', r.choice(vocab)), ('s', b'/')] if r.random() < 0.3 else [])
        kind = r.choice(['w', 'w', 'd'])
        n0 = r.choice([b'w', b'a', b'x']); used.append(n0)
        head.append((kind, n0, None))
        if kind == 'd':
            head.append(('s', r.choice([b'.', b'-'])))
            n1 = b'rest'; used.append(n1); head.append(('d', n1, None))
        deep = [('s', b'/'), ('s', r.choice([b'a', b'm', b'b'])), ('s', b'/'), ('d', b'b', None)]
        shallow = [('s', b'/'), ('d', r.choice([b'long_name', b'a_very_long_parameter_name', b'q']), None)]
        groups = [('g', deep), ('g', shallow)]
        if r.random() < 0.5:
            groups.reverse()
        if r.random() < 0.3:
            groups = groups[:1]
        return head + groups

    def multi_sibling(self, vocab):
        """one template whose adjacent optional groups put three or four NEW siblings of one kind under one node in a
        single insert (one optimize afterwards), in descending or shuffled order"""
        r = self.r
        k = r.choice([3, 3, 4])
        heads = r.sample([b'a', b'b', b'c', b'd', b'm', b'x', b'z', '\u00e9'.encode(), b'0'], k)
        heads.sort(reverse=True)
        if r.random() < 0.4:
            r.shuffle(heads)
        base = [('s', b'/'), ('s', r.choice(vocab))] if r.random() < 0.5 else []
        kind = r.choice(['s', 's', 'd', 'w'])
        groups = []
        for h in heads:
            tag = h if h.isascii() else b'q'
            if kind == 's':
                groups.append(('g', [('s', b'/'), ('s', h)]))
            elif kind == 'd':
                groups.append(('g', [('s', b'/'), ('d', b'p' + tag, None)]))
            else:
                groups.append(('g', [('s', b'/'), ('w', b'w' + tag, None), ('s', b'/end')]))
        return base + groups

    def length_rivals(self):
        """two templates of equal depth reached through different values of one inline parameter, the first with
        multi-byte literal text: its length in BYTES is above the rival's, its length in characters below it"""
        r = self.r
        mb = r.choice(['\u00e9', '\u00f1', '\u20ac', '\u017d']).encode()
        sep = r.choice([b'-', b'.'])
        lit = mb + sep + mb * r.choice([1, 2])
        t1 = [('s', b'/'), ('d', b'a', None), ('s', sep + lit)]
        text1 = b'/{a}' + sep + lit
        bytes1, chars1 = len(text1), len(text1.decode())
        target = r.randint(chars1 + 1, bytes1)
        name = b'b' * max(1, target - 7)
        t2 = [('s', b'/'), ('d', b'a', None), ('s', sep), ('d', name, None)]
        return t1, t2

    def key_sibling(self, items):
        """copy of a template that differs from it in exactly one component of one parameter key: same name
        with another (non-empty) constraint, or another name with the same constraint - so that two children
        of the same kind sit side by side and only the comparator of that kind decides their order"""
        r = self.r
        flat = [it for it in items if it[0] != 'g'] if r.random() < 0.6 else None
        its = flat if flat is not None else list(items)
        idx = [i for i, it in enumerate(its) if it[0] in 'dw']
        if not idx:
            return its
        i = idx[-1] if r.random() < 0.6 else r.choice(idx)
        kind, n, c = its[i]
        out = list(its)
        k = r.random()
        if c is not None and k < 0.3:
            # both components change, and in OPPOSITE directions: a comparator that looks at the constraint first
            # orders the pair differently from one that looks at the name first
            names = sorted(x for x in NAMES + [b'q', b'z'] if x != n)
            conss = sorted(x for x in CONS if x != c)
            lower_c = [x for x in conss if x < c]; higher_c = [x for x in conss if x > c]
            lower_n = [x for x in names if x < n]; higher_n = [x for x in names if x > n]
            if lower_c and higher_n and (r.random() < 0.5 or not (higher_c and lower_n)):
                out[i] = (kind, r.choice(higher_n), r.choice(lower_c))
            elif higher_c and lower_n:
                out[i] = (kind, r.choice(lower_n), r.choice(higher_c))
            else:
                out[i] = (kind, n, r.choice(conss))
        elif k < 0.7:
            others = [x for x in CONS if x != c]
            out[i] = (kind, n, r.choice(others))
        else:
            out[i] = (kind, r.choice([x for x in NAMES + [b'q', b'z'] if x != n]), c)
        return out

    def dup_group(self, vocab):
        """a template whose optional groups expand to the same route more than once, and a literal route that
        extends the repeated piece"""
        r = self.r
        base = [('s', b'/'), ('s', r.choice(vocab))] if r.random() < 0.8 else []
        if r.random() < 0.25:
            # the repeated route ENDS IN A PARAMETER (a nested all-optional group repeats the 'everything omitted' expansion),
            # and its only sibling is a parameter of the same kind with another name
            kind = r.choice(['d', 'd', 'w'])
            c = r.choice([None, None, b'lower', b'u8'])
            n1, n2 = r.sample([b'a', b'b', b'id', b'name'], 2)
            tail = [('g', [('g', [('s', b'/'), ('s', r.choice([b'y', b'b', b'edit']))])])]
            if r.random() < 0.3:
                tail = tail + [('g', [('g', [('s', b'/'), ('s', b'z')])])]
            t = base + [('s', b'/'), (kind, n1, c)] + tail
            ext = base + [('s', b'/'), (kind, n2, c)]
            return t, ext
        piece = r.choice([[('s', b'/'), ('s', r.choice([b'b', b'a', b'm']))],
                          [('s', b'/')],
                          [('s', b'/'), ('s', r.choice(vocab))]])
        # the same piece spelled with a redundant escape: same route, different byte length of the expansion text
        piece2 = piece
        if r.random() < 0.35 and piece[-1][0] == 's' and piece[-1][1][0:1].isalpha():
            piece2 = piece[:-1] + [('s', b'\\' + piece[-1][1])]
        k = r.random()
        if k < 0.5:
            t = base + ([('g', piece), ('g', piece2)] if r.random() < 0.5 else [('g', piece2), ('g', piece)])
        elif k < 0.75:
            t = base + [('g', piece), ('g', piece2), ('g', piece)]
        else:
            t = base + [('g', piece + [('g', piece2)]), ('g', piece)]
        ext = base + piece[:-1] + [('s', piece[-1][1] + r.choice([b'cd', b'c', b'/x']))] if piece[-1][1] != b'/' else base + [('s', b'/'), ('s', b'x')]
        return t, ext

    def vocab(self):
        r = self.r
        v = r.sample(STATICS, 4) + [b'a', b'b']
        if r.random() < 0.25:
            v += ['é'.encode(), 'è'.encode()]
        if r.random() < 0.15:
            v += ['日'.encode(), '月'.encode()]
        return v

    def pool(self, n, vocab):
        r = self.r
        pool = []
        for _ in range(n):
            k = r.random()
            if pool and k < 0.22:
                pool.append(self.sibling(r.choice(pool)))
            elif pool and k < 0.32:
                pool.append(self.variant_spelling(r.choice(pool)))
            elif pool and k < 0.52:
                pool.append(self.share_prefix(r.choice(pool), vocab))
            elif pool and k < 0.60:
                pool.append(self.regroup(r.choice(pool)))
            elif pool and k < 0.64:
                # a lone trailing backslash (literal) appended to an existing template
                base = [it for it in r.choice(pool) if it[0] != 'g']
                pool.append(base + [('s', b'\\')])
            elif k < 0.70:
                pool.append(self.rank_template(vocab))
            elif pool and k < 0.78:
                pool.append(self.key_sibling(r.choice(pool)))
            elif k < 0.82:
                t, ext = self.dup_group(vocab)
                pool.append(t); pool.append(ext)
            elif k < 0.86:
                t1, t2 = self.length_rivals()
                pool.append(t1); pool.append(t2)
            elif k < 0.90:
                pool.append(self.multi_sibling(vocab))
            else:
                pool.append(self.template_items(vocab))
        return pool


# ---- scenarios -------------------------------------------------------------------------------

def history(g, rid=0, emphasis=None):
    """one random insert/delete/search history on router `rid`; returns script lines"""
    r = g.r
    L = []
    a = str(rid)
    L.append('new ' + a)
    regs = [c for c in [r.choice(['lower', 'lower', 'lower', 'lower2']), 'even', 'noa'] if r.random() < 0.8] + (['uni'] if r.random() < 0.5 else [])
    for c in regs:
        L.append('cons %s %s' % (a, c))
    if r.random() < 0.15:
        for _ in range(r.choice([1, 2, 3])):
            L.append('cons %s %s' % (a, r.choice(['lower', 'lower2', 'dupu8', 'even', 'lower2', 'dupu8'])))
    vocab = g.vocab()
    pool = g.pool(r.choice([2, 3, 3, 4, 4, 5, 6]), vocab)
    paths = g.paths_for(pool, r.choice([6, 8, 10, 12]))
    live = []
    data = 1

    cl = [None]

    def searches():
        for p in paths:
            L.append('search %s %s' % (a, hx(p)))
            if cl[0] is not None and r.random() < 0.5:
                L.append('search %s %s' % (cl[0], hx(p)))      # a copy taken earlier must keep answering as it did
    if r.random() < 0.10:
        # a flag that must be REFRESHED: two parameter siblings (one whole-segment unconstrained, one whole-segment
        # constrained, or the other way round), the first is deleted again, then an INLINE route through the survivor
        if 'lower' not in regs and 'lower2' not in regs:
            L.append('cons %s lower' % a)
        base = [('s', b'/'), ('s', r.choice(vocab))] if r.random() < 0.5 else []
        kind = r.choice(['d', 'd', 'w'])
        tailx = [('s', b'/'), ('s', b'x')] if (kind == 'w' or r.random() < 0.3) else []
        taily = [('s', b'/'), ('s', b'y')] if (kind == 'w' or r.random() < 0.3) else []
        c1, c2 = r.choice([(None, b'lower'), (b'lower', None)])
        t1 = base + [('s', b'/'), (kind, b'p', c1)] + tailx
        t2 = base + [('s', b'/'), (kind, b'q', c2)] + taily
        t3 = base + [('s', b'/'), (kind, b'q', c2), ('s', r.choice([b'.json', b'.ext', b'-v2']))]
        for it in (t1, t2):
            L.append('insert %s %s %d' % (a, hx(g.render(it)), data)); data += 1
        L.append('delete %s %s' % (a, hx(g.render(t1))))
        L.append('insert %s %s %d' % (a, hx(g.render(t3)), data)); data += 1
        live += [t2, t3]
        paths = paths + g.paths_for([t2, t3], 4)
        searches()
    nops = r.choice([3, 4, 5, 6, 7, 8])
    for _ in range(nops):
        k = r.random()
        if cl[0] is None and live and r.random() < 0.04:
            cl[0] = str(90 + int(a)) if a.isdigit() else '90'
            L.append('clone %s %s' % (a, cl[0]))
        if r.random() < 0.04:
            L.append('cons %s %s' % (a, r.choice(['lower', 'lower2', 'dupu8', 'even', 'noa'])))
        if k < 0.60 or not live:
            it = r.choice(pool)
            L.append('insert %s %s %d' % (a, hx(g.render(it)), data)); data += 1
            live.append(it)
        elif k < 0.85:
            it = r.choice(live)
            L.append('delete %s %s' % (a, hx(g.render(it))))
            live = [x for x in live if x is not it]
        elif k < 0.93:
            L.append('delete %s %s' % (a, hx(g.render(g.variant_spelling(r.choice(live))))))
        else:
            L.append('delete %s %s' % (a, hx(g.render(r.choice(pool)))))
        searches()
    return L, pool, paths, regs


def scen_hist(g, n):
    out = []
    for _ in range(n):
        L, _, _, _ = history(g)
        out += L + ['end']
    return out


def scen_fresh(g, n):
    """C05: history router vs a router built freshly from the survivors in shuffled order.
    The survivor list is not known to the generator (inserts may fail), so the script inserts the
    whole pool into router 1 in a different order and deletes in a different order, such that both
    routers end with the same live set: router 1 inserts every pool template then deletes those
    that router 0 deleted last... simpler and exact: replay the same successful ops in another
    order is not possible without knowing results, so we use templates that cannot conflict."""
    r = g.r
    out = []
    for _ in range(n):
        vocab = g.vocab()
        pool = g.pool(r.choice([3, 4, 5, 6]), vocab)
        # dedupe by rendered text
        seen = set(); uniq = []
        for it in pool:
            t = g.render(it)
            if t not in seen:
                seen.add(t); uniq.append(it)
        pool = uniq
        paths = g.paths_for(pool, 10)
        regs = ['lower', 'even', 'noa']
        keep = [it for it in pool if r.random() < 0.6] or pool[:1]
        drop = [it for it in pool if it not in keep]
        L = ['new 0', 'new 1']
        for c in regs:
            L += ['cons 0 ' + c, 'cons 1 ' + c]
        # router 0: insert everything (pool order), then delete `drop` in random order
        d = 1
        data = {}
        for it in pool:
            data[g.render(it)] = d; d += 1
        order0 = list(pool)
        for it in order0:
            L.append('insert 0 %s %d' % (hx(g.render(it)), data[g.render(it)]))
        dl = list(drop); r.shuffle(dl)
        for it in dl:
            L.append('delete 0 %s' % hx(g.render(it)))
        # router 1: only `keep`, shuffled.  If some insert fails on one router because of a conflict
        # inside the pool the live sets may differ; the checker compares only when they are equal.
        k1 = list(keep); r.shuffle(k1)
        for it in k1:
            L.append('insert 1 %s %d' % (hx(g.render(it)), data[g.render(it)]))
        L.append('same 0 1')
        for p in paths:
            L.append('search 0 ' + hx(p)); L.append('search 1 ' + hx(p))
        out += L + ['end']
    return out


def scen_clone(g, n):
    """C16: families of routers related by clone"""
    r = g.r
    out = []
    for _ in range(n):
        L, pool, paths, regs = history(g, 0)
        L.append('clone 0 1')
        rids = ['0', '1']
        data = 100
        for _ in range(r.choice([3, 4, 5, 6])):
            a = r.choice(rids)
            k = r.random()
            it = r.choice(pool)
            if k < 0.45:
                L.append('insert %s %s %d' % (a, hx(g.render(it)), data)); data += 1
            elif k < 0.9:
                L.append('delete %s %s' % (a, hx(g.render(it))))
            elif k < 0.97:
                if r.random() < 0.35:
                    # clone over an existing router (the old one is dropped), possibly over itself
                    b = r.choice(rids); L.append('clone %s %s' % (a, b))
                else:
                    b = str(len(rids)); L.append('clone %s %s' % (a, b)); rids.append(b)
            else:
                # a router of the family is replaced by an empty one (its shared data is dropped)
                L.append('new %s' % a)
            for x in rids:
                L.append('dumpof ' + x)
            for p in paths[:6]:
                for x in rids:
                    L.append('search %s %s' % (x, hx(p)))
        out += L + ['end']
    return out


def scen_longpath(g, n):
    """paths around and beyond 4096 bytes on routers whose templates make such searches cheap for the model (a literal
    route, a catch-all, a dynamic segment): length limits, truncation"""
    r = g.r
    out = []
    for _ in range(n):
        L = ['new 0']
        word = r.choice([b'files', b'static', b'f'])
        lit = b'/' + b's' * r.choice([4090, 4095, 4096, 4097, 5000])
        L.append('insert 0 %s 1' % hx(b'/' + word + b'/{*rest}'))
        L.append('insert 0 %s 2' % hx(lit))
        L.append('insert 0 %s 3' % hx(b'/d/{seg}/end'))
        for total in r.sample([4094, 4095, 4096, 4097, 4098, 5000], 2):
            k = max(1, (total - len(word) - 2) // 2)
            L.append('search 0 ' + hx(b'/' + word + b'/' + b'a/' * k))
            L.append('search 0 ' + hx(b'/' + word + b'/' + b'a' * (2 * k)))
        L.append('search 0 ' + hx(lit))
        L.append('search 0 ' + hx(lit + b'/and/more'))
        L.append('search 0 ' + hx(lit[:-1]))
        L.append('search 0 ' + hx(b'/d/' + b'x' * r.choice([4090, 4100]) + b'/end'))
        L.append('search 0 ' + hx(b'/d/' + b'x' * 4100 + b'/end/more'))
        out += L + ['end']
    return out


def scen_threads(g, n):
    r = g.r
    out = []
    for _ in range(n):
        L, pool, paths, regs = history(g, 0)
        if r.random() < 0.3:
            # a deep route: many parameter nodes on one search path
            depth = r.choice([12, 20, 28])
            t = ''.join('/{p%d}' % j for j in range(depth))
            L.append('insert 0 %s 999' % hx(t.encode()))
            paths = paths + [('/x' * depth).encode(), ('/x' * (depth - 1)).encode()]
        L.append('threads 0 %d %d %s' % (r.choice([4, 8, 16]), r.choice([1, 20, 60]), ' '.join(hx(p) for p in paths)))
        for p in paths:
            L.append('search 0 ' + hx(p))
        L.append('dumpof 0')
        out += L + ['end']
    return out


SYNTAX = [b'/', b'{', b'}', b'(', b')', b'\\', b':', b'*', b'a', b'b', 'é'.encode(), 'Ž'.encode()]   # Ž = U+017D: the low byte of the code point is '}'


def scen_parse_exhaustive(maxlen, alphabet=SYNTAX):
    out = []
    cur = [b'']
    for _ in range(maxlen):
        cur = [s + c for s in cur for c in alphabet]
        out += ['parse ' + hx(s) for s in cur]
    return out



def inject_fault(g, items):
    """a semantic fault planted in a well-formed template tree: duplicate name, touching parameters, empty or
    invalid name / constraint, empty wildcard, empty braces / parentheses - over all four parameter forms"""
    r = g.r
    flat_pos = [i for i, it in enumerate(items) if it[0] in 'dw']
    k = r.random()
    out = list(items)

    def form(name):
        kind = r.choice('dw'); c = r.choice([None, None, b'lower', b'u8', b'even'])
        return (kind, name, c)
    if k < 0.30 and flat_pos:
        # duplicate: a later parameter (any form) reusing an earlier name
        i = r.choice(flat_pos)
        dup = form(out[i][1])
        j = r.randrange(i + 1, len(out) + 1)
        sep = [('s', r.choice([b'/', b'-', b'.', b'/a/']))]
        out[j:j] = sep + [dup] + ([('s', b'/x')] if r.random() < 0.3 else [])
        return g.render(out)
    if k < 0.60 and flat_pos:
        # touching: a parameter directly after another one (not necessarily the first of the template)
        i = r.choice(flat_pos)
        out[i + 1:i + 1] = [form(r.choice([b'q', b'z', b't9']))]
        if r.random() < 0.4:
            out[0:0] = [('s', b'/'), form(b'first'), ('s', b'-x')]
        return g.render(out)
    if k < 0.72:
        bad = r.choice([b'{}', b'{:}', b'{*}', b'{*:lower}', b'{:lower}', b'{a:}', b'{*a:}', b'{a/b}', b'{a:b/c}', b'{a*}', b'{a:(}',
                        b'{a{b}', b'{a:b:c}', b'{\\a}', b'{a b}', b'()', b'(())', b'{a}}', b'{', b'}', b'(', b')'])
        j = r.randrange(len(out) + 1)
        out[j:j] = [('s', bad)]
        return g.render(out)
    if k < 0.86:
        # three or more parameters, the fault away from the first one
        pre = [('s', b'/'), ('d', b'p1', None), ('s', b'/'), form(b'p2')]
        t = pre + [form(r.choice([b'p3', b'p2', b'p1']))] if r.random() < 0.5 else pre + [('s', b'.'), form(r.choice([b'p2', b'p1', b'p3']))]
        if r.random() < 0.5:
            t = t[:4] + [('g', [('s', b'-')])] + [('g', t[4:])]
        return g.render(t)
    # escaped braces / parentheses next to real ones
    pieces = [b'\\}', b'\\{', b'\\)', b'\\(', b'a\\}', b'\\\\']
    j = r.choice(flat_pos) if flat_pos else len(out)
    out[j:j] = [('s', r.choice(pieces))]
    return g.render(out)

def deep_templates():
    """nesting depths and run lengths around the widths of small integer types (a counter that is narrower than it
    should be wraps or overflows there)"""
    ts = []
    for k in (126, 127, 128, 129, 130, 255, 256, 257):
        ts.append(b'/r' + b'(/s' * k + b')' * k)                 # k nested groups
        ts.append(b'/r' + b'(/s' * k + b')' * (k - 1))           # one parenthesis short
    for k in (127, 128, 129, 256):
        ts.append(b'/{a' + b'{' * k + b'}' * k + b'}')           # nested braces inside a parameter
        ts.append(b'/x' + b'(/y)' * 0 + b'\\(' * k)                 # k escaped parentheses
        ts.append(b'/' + b'a' * k + b'/{p}')                       # a long literal
    return ts


def scen_parse_random(g, n):
    r = g.r
    out = []
    if n >= 100 and r.random() < 0.25:      # in about a quarter of the shards
        # through the parser hook only: judging an insert of a template with hundreds of expansions is far too slow
        for t in deep_templates():
            out.append('parse ' + hx(t))
        for k in [33, 130] + ([257] if n >= 1000 else []):
            t = b'/r' + b'(/s' * k + b')' * k
            out += ['new 0', 'insert 0 %s 1' % hx(t), 'search 0 ' + hx(b'/r' + b'/s' * 3), 'search 0 ' + hx(b'/r' + b'/s' * k),
                    'delete 0 %s' % hx(t), 'end']
    for _ in range(n):
        vocab = r.sample(STATICS, 4) + [b'a', b'b']
        items = g.template_items(vocab)
        t = bytearray(g.render(items))
        k = r.random()
        if k < 0.35:
            t = bytearray(inject_fault(g, items))
        elif k < 0.75:
            # malformed stream: drop / insert one syntax character
            for _ in range(r.choice([1, 1, 2])):
                if r.random() < 0.5 and t:
                    i = r.randrange(len(t)); del t[i]
                elif r.random() < 0.7:
                    i = r.randrange(len(t) + 1); t[i:i] = r.choice(SYNTAX[:8])
                else:
                    i = r.randrange(len(t) + 1); t[i:i] = r.choice([b'\\}', b'\\{', b'\\(', b'\\)', b'\\\\', b'\\'])
        try:
            bytes(t).decode()
        except UnicodeDecodeError:
            continue
        out.append('parse ' + hx(t))
        out += ['new 0', 'insert 0 %s 1' % hx(t), 'delete 0 %s' % hx(t), 'end']
    return out


BUILTINS = ['u8', 'u16', 'u32', 'u64', 'u128', 'usize', 'i8', 'i16', 'i32', 'i64', 'i128', 'isize', 'f32', 'f64', 'bool', 'ipv4', 'ipv6']
BVALUES = ['0', '1', '255', '256', '65535', '65536', '4294967295', '4294967296', '18446744073709551615', '18446744073709551616',
           '340282366920938463463374607431768211455', '340282366920938463463374607431768211456', '-0', '+1', '-1', '007', '+', '-',
           '127', '128', '-128', '-129', '32767', '32768', '-32768', '-32769', '2147483647', '2147483648', '-2147483648', '-2147483649',
           '9223372036854775807', '9223372036854775808', '-9223372036854775808', '-9223372036854775809',
           '170141183460469231731687303715884105727', '170141183460469231731687303715884105728',
           '1.5', '1e10', '1e400', 'inf', '-inf', 'NaN', 'nan', '.5', '5.', '1_0', '0x10', ' 1', '1 ', 'true', 'false', 'True', 'TRUE', 't',
           '1.2.3.4', '1.2.3.04', '256.1.1.1', '1.2.3', '1.2.3.4.5', '0.0.0.0', '255.255.255.255', '::1', '::', '1::2', 'fe80::1', '1:2:3:4:5:6:7:8',
           '1:2:3:4:5:6:7:8:9', '::ffff:1.2.3.4', 'g::1', '12', '٣', '１', 'é', 'infinity', '+inf', '1e', 'e1', '-', '--1', '+-1', '1.0e-3', '0.1E5',
           # the longest textual forms of the address types, and their neighbours
           '0000:0000:0000:0000:0000:ffff:192.168.100.200', '1111:2222:3333:4444:5555:6666:123.123.123.123', 'ffff:ffff:ffff:ffff:ffff:ffff:ffff:ffff',
           '1111:2222:3333:4444:5555:6666:1.2.3.4', '::ffff:255.255.255.255', '1111:2222:3333:4444:5555:6666:7777:255.255.255.255',
           '0000:0000:0000:0000:0000:0000:0000:00000', '001.002.003.004', '255.255.255.2555', 'fe80::1%eth0', '1:2:3:4:5:6:7::', '::2:3:4:5:6:7:8']


def random_address(r):
    """address-shaped strings, valid and nearly valid, up to the longest textual forms"""
    def quad():
        return '.'.join(str(r.choice([0, 1, 9, 10, 99, 100, 199, 200, 255, 256, r.randrange(0, 300)])) for _ in range(r.choice([4, 4, 4, 3, 5])))
    if r.random() < 0.3:
        return quad()
    n = r.choice([8, 8, 7, 6, 6, 5, 3, 9])
    groups = [''.join(r.choice('0123456789abcdefABCDEF') for _ in range(r.choice([1, 2, 3, 4, 4, 4, 5]))) for _ in range(n)]
    if r.random() < 0.4 and len(groups) > 2:
        i = r.randrange(0, len(groups) - 1)
        groups[i:i + r.choice([1, 2, 3])] = ['']
    s = ':'.join(groups)
    if r.random() < 0.4:
        s = ':'.join(groups[:6]) + ':' + quad()
    return s


def scen_builtin(g, n):
    out = []
    for name in BUILTINS:
        for v in BVALUES:
            out.append('builtin %s %s' % (hx(name.encode()), hx(v.encode())))
    r = g.r
    digits = '0123456789+-.e:aif '
    for _ in range(n):
        name = r.choice(BUILTINS)
        if name in ('ipv4', 'ipv6') and r.random() < 0.8:
            v = random_address(r)
        else:
            v = ''.join(r.choice(digits) for _ in range(r.randrange(1, 8)))
        out.append('builtin %s %s' % (hx(name.encode()), hx(v.encode())))
    return out


def scen_groups(g, n):
    """C04: a template with groups on router 0, its expansions one by one on router 1"""
    r = g.r
    out = []
    for _ in range(n):
        vocab = g.vocab()
        for _ in range(20):
            it = g.rank_template(vocab) if r.random() < 0.3 else g.template_items(vocab)
            if r.random() < 0.5:
                it = g.add_groups(it, [], vocab)
            if r.random() < 0.3:
                it = g.regroup(it)
            if any(x[0] == 'g' for x in it):
                break
        t = g.render(it)
        L = ['parse ' + hx(t), 'new 0', 'new 1']
        for c in ['lower', 'even', 'noa']:
            L += ['cons 0 ' + c, 'cons 1 ' + c]
        # routes that are already there when the grouped template arrives: relatives of its expansions (shared
        # prefixes, renamed / re-constrained parameters), so that the expansions split and extend existing nodes
        exps = g.expansions(it)
        others = []
        if r.random() < 0.75:
            for _ in range(r.choice([1, 1, 2, 3])):
                base = r.choice(exps) or [('s', b'/')]
                k = r.random()
                others.append(g.share_prefix(base, vocab) if k < 0.45 else g.sibling(base) if k < 0.75 else g.key_sibling(base) if k < 0.9 else g.template_items(vocab))
        d = 20
        for o in others:
            to = hx(g.render(o))
            L += ['insert 0 %s %d' % (to, d), 'insert 1 %s %d' % (to, d)]; d += 1
        L.append('insert 0 %s 7' % hx(t))
        seen = set()
        for f in exps:
            e = g.render(f) or b'/'
            if e not in seen:
                seen.add(e); L.append('insert 1 %s 7' % hx(e))
        others = others + g.pool(2, vocab)
        cloned = r.random() < 0.4
        if cloned:
            L.append('clone 0 2')      # a copy of the grouped router must report the same expansions
        for p in g.paths_for([it] + others, 12):
            L += ['search 0 ' + hx(p), 'search 1 ' + hx(p)] + (['search 2 ' + hx(p)] if cloned else [])
        L.append('delete 0 %s' % hx(t))
        out += L + ['end']
    return out


def scen_single(g, n):
    """C12: one group-free template with >= 2 parameters; paths with several possible assignments"""
    r = g.r
    out = []
    seps = [b'.', b'-', b'/', b'/m/', b'.m.', b'-', b'.']
    for _ in range(n):
        used = []
        items = [('s', b'/')]
        k = r.choice([2, 2, 3, 3, 4])
        if r.random() < 0.3:
            items.append(('s', r.choice([b'a', b'v/', b'x-'])))
        for j in range(k):
            kind, nm, c = g.param(used, allow_wild=True, unreg=0)
            if r.random() < 0.7:
                c = None
            items.append((kind, nm, c))
            if j < k - 1:
                items.append(('s', r.choice(seps)))
            elif r.random() < 0.5:
                items.append(('s', r.choice([b'/end', b'.txt', b'/', b'-z'])))
        t = g.render(items)
        L = ['new 0', 'cons 0 lower', 'cons 0 even', 'cons 0 noa', 'insert 0 %s 1' % hx(t)]
        vals = [b'a', b'b', b'a.b', b'a-b', b'x.y.z', b'a/m/b', b'a.m.b', b'm', b'a-b-c', b'ab', 'é'.encode(), 'é.é'.encode(),
                b'a/b', b'a/b/c', b'1.2', b'x-y', b'aa', b'/', b'.', b'-', b'a//b', 'x-日本-y'.encode(), b'report.' + 'é'.encode()]
        ps = []
        for _ in range(14):
            p = bytearray()
            for it in items:
                if it[0] == 's':
                    p += it[1]
                else:
                    p += r.choice(vals)
            ps.append(bytes(p))
            if r.random() < 0.3:
                ps.append(g.mutate_path(bytes(p)))
        for p in dict.fromkeys(ps):
            try:
                p.decode()
            except UnicodeDecodeError:
                continue
            L.append('search 0 ' + hx(p))
        out += L + ['end']
    return out


def scen_conflict(g, n):
    """C08: live templates and a candidate whose expansions hit them in interleaved order"""
    r = g.r
    out = []
    for _ in range(n):
        vocab = g.vocab()
        used = []
        k = r.choice([3, 3, 4, 5])
        chain = [g.segment(used, vocab) for _ in range(k)]
        if r.random() < 0.3:
            # live templates and candidates that END in white space (ASCII or not): messages must keep it
            chain[-1] = chain[-1] + [('s', r.choice([b' ', b'\t', '\u00a0'.encode(), '\u2003'.encode(), b'  ']))]

        def nested(S):
            S = sorted(S)
            base = [x for seg in chain[:S[0]] for x in seg]
            grp = None
            for a, b in reversed(list(zip(S, S[1:]))):
                seg = [x for sg in chain[a:b] for x in sg]
                grp = ('g', seg + ([grp] if grp else []))
            return base + ([grp] if grp else [])
        if r.random() < 0.12:
            # MANY conflicts at once: four adjacent optional groups (16 expansions) against 9..13 of those routes
            # inserted one by one as plain templates
            segs = [[('s', b'/'), ('s', w)] for w in r.sample([b'alpha', b'beta', b'gamma', b'delta', b'a', b'b', b'm', b'x'], 4)]
            subsets = [[segs[i] for i in range(4) if (mask >> i) & 1] for mask in range(1, 16)]
            r.shuffle(subsets)
            L = ['new 0']
            d = 1
            for sub in subsets[:r.randint(9, 13)]:
                L.append('insert 0 %s %d' % (hx(g.render([x for sg in sub for x in sg])), d)); d += 1
            cand = [('g', sg) for sg in segs]
            L.append('insert 0 %s %d' % (hx(g.render(cand)), d))
            out += L + ['end']
            continue
        lengths = list(range(1, k + 1))
        r.shuffle(lengths)
        lives = []
        while lengths and len(lives) < 3:
            m = r.choice([1, 1, 2, 2, 3])
            S, lengths = lengths[:m], lengths[m:]
            lives.append(nested(S))
        cand = nested(r.sample(range(1, k + 1), r.choice([k, k, max(1, k - 1)])))
        L = ['new 0', 'cons 0 lower', 'cons 0 even', 'cons 0 noa']
        d = 1
        for it in lives:
            L.append('insert 0 %s %d' % (hx(g.render(it)), d)); d += 1
        L.append('insert 0 %s %d' % (hx(g.render(cand)), d))
        if r.random() < 0.5:
            L.append('delete 0 %s' % hx(g.render(cand)))
        for p in g.paths_for(lives, 4):
            L.append('search 0 ' + hx(p))
        out += L + ['end']
    return out


def scen_roundtrip(g, n):
    """C10: insert immediately followed by delete of the same template, on non-empty routers"""
    r = g.r
    out = []
    for _ in range(n):
        L, pool, paths, regs = history(g, 0)
        vocab = g.vocab()
        more = g.pool(3, vocab) + [g.share_prefix(r.choice(pool), vocab), g.sibling(r.choice(pool))]
        d = 50
        for it in more:
            t = hx(g.render(it))
            L.append('insert 0 %s %d' % (t, d)); d += 1
            L.append('delete 0 %s' % t)
            for p in paths:
                L.append('search 0 ' + hx(p))
        out += L + ['end']
    return out


OCI_METHODS = ['GET', 'HEAD', 'POST', 'PUT', 'PATCH', 'DELETE', 'OPTIONS']
OCI_COMPONENTS = ['a', 'library', 'ubuntu', 'my-image', 'my__image', 'a.b', 'a_b', 'a--b', '0', 'x9', 'blobs', 'manifests', 'uploads', 'tags', 'list', 'v2']
OCI_BAD_COMPONENTS = ['A', 'a..b', '-a', 'a-', 'a___b', '_a', 'a_', 'a.-b', 'é', 'a b', '', 'a.', 'Ubuntu', 'a+b']
OCI_TOKENS = ['latest', 'v1.0', 'sha256:abc123', 'sha256:e3b0c44298fc1c149afbf4c8996fb92427ae41e4649b934ca495991b7852b855', 'uploads', 'list',
              '0f4e9a7e-1b7c-4c1e-9d3a-2f6b8e1c0a55', 'A_B', 'x', 'blobs', 'é']


def scen_oci(g, n):
    r = g.r
    import os
    tsv = os.path.join(os.path.dirname(os.path.dirname(os.path.abspath(__file__))), 'build/oci_routes.tsv')
    out = ['ocinew ' + tsv]

    def name():
        k = r.choice([1, 1, 2, 2, 3])
        comps = [r.choice(OCI_COMPONENTS) for _ in range(k)]
        if r.random() < 0.2:
            comps[r.randrange(k)] = r.choice(OCI_BAD_COMPONENTS)
        return '/'.join(comps)
    for _ in range(n):
        nm = name()
        tok = r.choice(OCI_TOKENS)
        shape = r.choice(['/v2', '/v2/%s/blobs/%s' % (nm, tok), '/v2/%s/manifests/%s' % (nm, tok), '/v2/%s/blobs/uploads' % nm,
                          '/v2/%s/blobs/uploads/%s' % (nm, tok), '/v2/%s/tags/list' % nm, '/v2/%s/tags/%s' % (nm, tok), '/v2/%s' % nm])
        if r.random() < 0.4:
            shape += '/'
        if r.random() < 0.1:
            shape = g.mutate_path(shape.encode()).decode(errors='ignore') or '/'
        for m in (OCI_METHODS if r.random() < 0.3 else [r.choice(OCI_METHODS)]):
            out.append('oci %s %s' % (hx(m.encode()), hx(shape.encode())))
        if r.random() < 0.5:
            out.append('ociname ' + hx(nm.encode()))
    return out


def scen_oci_e2e(g, n):
    """the same method x URL stream as `oci`, as requests to the example's own server (harness-oci)"""
    out = []
    for l in scen_oci(g, n):
        t = l.split()
        if t[0] == 'oci':
            out.append('e2e %s %s' % (bytes.fromhex(t[1][1:]).decode(), t[2]))
    # every method on the bare API root and on one URL of each shape
    for m in OCI_METHODS:
        for u in ['/v2', '/v2/', '/v2/a/blobs/sha256:ab', '/v2/a/b/manifests/latest', '/v2/a/blobs/uploads', '/v2/a/blobs/uploads/u1', '/v2/a/tags/list']:
            out.append('e2e %s %s' % (m, hx(u.encode())))
    return out


def scen_ociname_exhaustive(maxlen):
    out = []
    alpha = ['a', '0', '.', '_', '-', '/', 'A']
    cur = ['']
    for _ in range(maxlen):
        cur = [s + c for s in cur for c in alpha]
        out += ['ociname ' + hx(s.encode()) for s in cur]
    return out


def make(scen, seed, n):
    g = G(seed)
    if scen.startswith('parsex'):
        return scen_parse_exhaustive(int(scen[6:]))
    if scen.startswith('ocinamex'):
        return scen_ociname_exhaustive(int(scen[8:]))
    table = {'hist': scen_hist, 'fresh': scen_fresh, 'clone': scen_clone, 'threads': scen_threads,
             'longpath': scen_longpath, 'parse': scen_parse_random, 'builtin': scen_builtin, 'groups': scen_groups,
             'single': scen_single, 'oci': scen_oci, 'ocie2e': scen_oci_e2e, 'conflict': scen_conflict, 'roundtrip': scen_roundtrip}
    return table[scen](g, n)


if __name__ == '__main__':
    scen, seed, n = sys.argv[1], int(sys.argv[2]), int(sys.argv[3])
    sys.stdout.write('\n'.join(make(scen, seed, n)) + '\n')
