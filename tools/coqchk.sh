#!/bin/bash
# Independent re-check of the compiled development with coqchk (not part of the registered commands: ~1-2 min).
# Prints the context summary (axioms, type-in-type, unsafe fixpoints, assumed positivity) for all property modules.
cd "$(dirname "$0")/../coq" || exit 2
mods=$(ls Properties/*.v | sed 's|Properties/\(.*\)\.v|WF.Properties.\1|')
timeout 3000 coqchk -o -silent -Q . WF $mods 2>&1 | tee ../coqchk-report.txt | tail -16
