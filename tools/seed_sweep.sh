#!/bin/bash
# For each seeded change: apply, run the property's quick check under several seeds WITHOUT the regression
# corpus (this measures the generators), undo; the first concrete shrunk replay becomes corpus/<name>.script.
# Usage: SEEDS="1 2 3" tools/seed_sweep.sh [names...]    (results on stdout)
cd "$(dirname "$0")/.."
names=${@:-$(ls -d seeded/*/ | xargs -n1 basename)}
for n in $names; do
  pid=${n%%-*}
  git -C /repo apply "$PWD/seeded/$n/patch.diff" || { echo "$n: patch does not apply"; continue; }
  res=""
  for sd in ${SEEDS:-1 2 3}; do
    out=$(VERIF_NO_CORPUS=1 VERIF_SEED=$sd ./check $pid --tier ${TIER:-quick} 2>&1)
    v=$(echo "$out" | grep -c '^VIOLATION')
    nfi=$(echo "$out" | grep '^VIOLATION' | grep -v no-failing | wc -l)
    res="$res seed$sd:$([ $v -gt 0 ] && echo caught || echo MISSED)($nfi concrete)"
    # keep the first concrete shrunk replay as a corpus entry
    if [ ! -f corpus/$n.script ]; then
      rp=$(echo "$out" | grep '^VIOLATION' | grep -v no-failing | head -1 | sed 's/.*replay=\([^ ]*\).*/\1/')
      [ -n "$rp" ] && [ -f "$rp" ] && { mkdir -p corpus; grep -v '^#' "$rp" > corpus/$n.script; }
    fi
  done
  git -C /repo checkout -- .
  echo "$n ->$res"
done
tools/build.sh >/dev/null 2>&1
# the evidence files written while a seeded change was applied describe that tree, not the real one
git -C "$PWD" checkout -- evidence 2>/dev/null
