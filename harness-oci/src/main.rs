//! End-to-end observation of the OCI example (C17): starts the example's own server (`start_server`, hence its
//! `AppRouter::handle`) on a loopback socket and sends one HTTP/1.1 request per script line
//! `e2e <METHOD> <x-hex path>`; prints `e2e <METHOD> <x-hex path> <status> <has-content-type 0|1> <body bytes>`.
//! A response the ROUTER produces for an unknown path is a bare 404 (no content type, empty body); every handler
//! answers with another status or with a JSON error body.
//! If no loopback socket can be opened the single line `e2e-unavailable` is printed.

use std::{
    io::{BufRead, Read, Write},
    net::TcpStream,
    time::Duration,
};

fn unhex(t: &str) -> Option<Vec<u8>> {
    let t = t.strip_prefix('x')?;
    (0..t.len() / 2).map(|i| u8::from_str_radix(&t[2 * i..2 * i + 2], 16).ok()).collect()
}

fn request(addr: std::net::SocketAddr, method: &str, path: &[u8]) -> Option<(u16, bool, usize)> {
    let mut s = TcpStream::connect_timeout(&addr, Duration::from_secs(5)).ok()?;
    s.set_read_timeout(Some(Duration::from_secs(10))).ok()?;
    let mut req = Vec::new();
    req.extend_from_slice(method.as_bytes());
    req.push(b' ');
    req.extend_from_slice(path);
    req.extend_from_slice(b" HTTP/1.1\r\nHost: localhost\r\nConnection: close\r\nContent-Length: 0\r\n\r\n");
    s.write_all(&req).ok()?;
    let mut resp = Vec::new();
    let _ = s.read_to_end(&mut resp);
    let text = String::from_utf8_lossy(&resp);
    let head_end = text.find("\r\n\r\n")?;
    let head = &text[..head_end];
    let status: u16 = head.split_whitespace().nth(1)?.parse().ok()?;
    let has_ct = head.to_ascii_lowercase().contains("\r\ncontent-type:");
    Some((status, has_ct, resp.len() - (head_end + 4)))
}

fn main() {
    let rt = match tokio::runtime::Builder::new_multi_thread().worker_threads(2).enable_all().build() {
        Ok(rt) => rt,
        Err(_) => {
            println!("e2e-unavailable");
            return;
        }
    };
    let listener = match rt.block_on(async { tokio::net::TcpListener::bind("127.0.0.1:0").await }) {
        Ok(l) => l,
        Err(_) => {
            println!("e2e-unavailable");
            return;
        }
    };
    let addr = listener.local_addr().unwrap();
    rt.spawn(async move {
        let _ = wayfind_oci_example::start_server(listener).await;
    });

    let stdin = std::io::stdin();
    let stdout = std::io::stdout();
    let mut out = std::io::BufWriter::new(stdout.lock());
    for line in stdin.lock().lines() {
        let line = line.unwrap();
        let t: Vec<&str> = line.split_whitespace().collect();
        if t.len() != 3 || t[0] != "e2e" {
            continue;
        }
        let Some(path) = unhex(t[2]) else { continue };
        // only request targets that go over the wire unchanged
        if path.is_empty() || path[0] != b'/' || !path.iter().all(|b| b.is_ascii_graphic() && !b"?#%\"<>\\^`{|}".contains(b)) {
            writeln!(out, "e2e-skip {} {}", t[1], t[2]).unwrap();
            continue;
        }
        match request(addr, t[1], &path) {
            Some((status, ct, body)) => writeln!(out, "e2e {} {} {} {} {}", t[1], t[2], status, u8::from(ct), body).unwrap(),
            None => writeln!(out, "e2e-fail {} {}", t[1], t[2]).unwrap(),
        }
    }
    out.flush().unwrap();
}
