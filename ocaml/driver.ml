(* Thin driver around the extracted checker: reads trace lines on stdin, feeds them to
   Wf_model.step_line, prints one line per finding:  F <line-no> <kind> <hex detail>...   *)
open Wf_model

let rec pos_of_int (n : int) : positive =
  if n = 1 then XH else if n land 1 = 0 then XO (pos_of_int (n lsr 1)) else XI (pos_of_int (n lsr 1))
let n_of_int (n : int) : n = if n = 0 then N0 else Npos (pos_of_int n)
let rec int_of_pos (p : positive) : int =
  match p with XH -> 1 | XO q -> 2 * int_of_pos q | XI q -> 2 * int_of_pos q + 1
let int_of_n (x : n) : int = match x with N0 -> 0 | Npos p -> int_of_pos p

let bytes_of_string (s : String.t) : n list =
  let r = ref [] in
  for i = String.length s - 1 downto 0 do r := n_of_int (Char.code s.[i]) :: !r done; !r
let hex_of_bytes (b : n list) : String.t =
  "x" ^ String.concat "" (List.map (fun x -> Printf.sprintf "%02x" (int_of_n x)) b)

let kind_name (k : fkind) : String.t =
  match k with
  | FBadLine -> "BadLine" | FPanic -> "Panic"
  | FOpsInsert -> "OpsInsert" | FOpsDelete -> "OpsDelete" | FOpsConstraint -> "OpsConstraint"
  | FOpsSearch -> "OpsSearch" | FTree -> "Tree" | FFlags -> "Flags" | FDisplay -> "Display"
  | FRenderInsert -> "RenderInsert" | FRenderDelete -> "RenderDelete"
  | FRenderConstraint -> "RenderConstraint" | FRenderParse -> "RenderParse" | FRenderField -> "RenderField"
  | FParse -> "Parse" | FGrammar -> "Grammar" | FErrOk -> "ErrOk"
  | FInv -> "Inv" | FCanonical -> "Canonical" | FRoutes -> "Routes"
  | FWalkGenuine -> "WalkGenuine" | FWalkMissed -> "WalkMissed" | FWalkPriority -> "WalkPriority"
  | FGreedy -> "Greedy"
  | FSpecInsert -> "SpecInsert" | FSpecDelete -> "SpecDelete" | FSpecConstraint -> "SpecConstraint"
  | FNoop -> "Noop" | FRoundtrip -> "Roundtrip" | FInterfere -> "Interfere" | FNotRouted -> "NotRouted"
  | FSame -> "Same" | FDumpOf -> "DumpOf"
  | FBuiltin -> "Builtin" | FOci -> "Oci" | FOciModel -> "OciModel" | FOciName -> "OciName" | FUnknownRouter -> "UnknownRouter" | FArcs -> "Arcs" | FSplitChar -> "SplitChar" | FIndexSearch -> "IndexSearch" | FOciE2E -> "OciE2E" | FIndexOps -> "IndexOps"

let () =
  let state = ref init_fstate in
  let lineno = ref 0 in
  let nfind = ref 0 in
  let stats = Array.length Sys.argv > 1 && Sys.argv.(1) = "--stats" in
  (try
    while true do
      let line = input_line stdin in
      incr lineno;
      if String.length line > 0 && line.[0] <> '#' then begin
        let bl = bytes_of_string line in
        let fs =
          if String.length line > 3 && (String.sub line 0 3 = "oci" || String.sub line 0 3 = "e2e") then oci_step bl
          else begin
            (if stats then match line_stats !state bl with
              | Some ((a, b), c) -> Printf.printf "S %d %d %d %d\n" !lineno (int_of_n a) (int_of_n b) (int_of_n c)
              | None -> ());
            let (s', fs) = step_line !state bl in
            state := s'; fs
          end in
        List.iter (fun (k, d) ->
          incr nfind;
          Printf.printf "F %d %s %s\n" !lineno (kind_name k) (String.concat " " (List.map hex_of_bytes d))) fs
      end
    done
  with End_of_file -> ());
  Printf.printf "DONE lines=%d findings=%d\n" !lineno !nfind
